-- XMLFileWriter.write_to_file :: b_XMLFileWriter_write_to_file
def b_XMLFileWriter_write_to_file : CR.SrcW.Builder where
  key := "XMLFileWriter.write_to_file"
  kind := .fill
  tag := ""
  xsd := "/commonRoad"
  path := []
  parent := ""
  attrs := []
  gattrs := []
  text := none
  atoms := []
  body :=
    (.ite (.not (.truthy "filename"))
      .skip
      (.seq
        (.splice "XMLFileWriter._write_header")
        (.seq
          (.splice "XMLFileWriter._add_all_objects_from_scenario")
          (.splice "XMLFileWriter._add_all_planning_problems_from_planning_problem_set"))))
