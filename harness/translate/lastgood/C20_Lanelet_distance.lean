/-- commonroad/scenario/lanelet.py: Lanelet.distance — getter; the cache `self._distance` is the state: the result is the cache after the call (= the returned array) -/
def Lanelet_distance (norm : CR.Arc.Pt → Rat) (self__distance : Option (List Rat)) (center : List CR.Arc.Pt) : Option (List Rat) :=
  let self__distance := (
    if (self__distance).isNone then
      let self__distance := (some (Lanelet_compute_polyline_cumsum_dist norm [center]))
      self__distance
    else
      self__distance)
  self__distance
