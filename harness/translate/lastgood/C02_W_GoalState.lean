/-- commonroad/common/writer/file_writer_protobuf.py GoalStateMessage.create_message -/
def W_GoalState (state : St) (lanelets : List Int) : PB :=
  PB.msg [("state", (CR.PBF.encState state)), ("goal_position_lanelets", PB.rep (List.map (fun v1 => (PB.u32 v1)) lanelets))]
