/-- commonroad/geometry/shape.py: Circle.translate_rotate -/
def Circle_translate_rotate (m : CR.Rigid.Mo) (r : Rat) (ctr : CR.Rigid.Pt) : Res (CR.Rigid.Shape) := do
  let mut new_center := (← CR.Py.getItem (transform_translate_rotate m.c m.s m.a [ctr] m.t) 0)
  return (CR.Rigid.Shape.circ r new_center)
