/-- commonroad/common/writer/file_writer_protobuf.py CircleMessage.create_message -/
def W_Circle (r : Dbl) (c : Pt) : PB :=
  PB.msg [("radius", (PB.dbl r)), ("center", (W_Point c))]
