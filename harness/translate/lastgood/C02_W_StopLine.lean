/-- commonroad/common/writer/file_writer_protobuf.py StopLineMessage.create_message — start/end are never None; a reference set that is None is the empty list of the snapshot -/
def W_StopLine (s : Stop) : PB :=
  PB.msg [("points", PB.rep ([(W_Point s.start)] ++ [(W_Point s.end)])), ("line_marking", (PB.enum "LineMarking" s.lm)), ("traffic_sign_refs", PB.rep (List.map (fun v1 => (PB.u32 v1)) s.signs)), ("traffic_light_refs", PB.rep (List.map (fun v2 => (PB.u32 v2)) s.lights))]
