/-- commonroad/scenario/scenario.py: Scenario.obstacles_by_role_and_type — `getattr(obstacle, 'obstacle_type', None)` is the third component (none for phantom obstacles) -/
def Scenario_obstacles_by_role_and_type (obs : List (Nat × CR.Occ.Obst × Option Nat)) (obstacle_role : Option CR.Occ.Role) (obstacle_type : Option Nat) : Res (List (Nat × CR.Occ.Obst × Option Nat)) := do
  CR.Py.assert (true)
  CR.Py.assert (true)
  let obstacle_list : List (Nat × CR.Occ.Obst × Option Nat) := []
  let obstacle_list := (obs).foldl (fun obstacle_list obstacle => (if (((obstacle_role).isNone || decide ((some obstacle.2.1.role) = obstacle_role)) && ((obstacle_type).isNone || decide (obstacle.2.2 = obstacle_type))) then (obstacle_list ++ [obstacle]) else obstacle_list)) obstacle_list
  return obstacle_list
