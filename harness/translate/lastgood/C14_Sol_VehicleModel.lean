/-- commonroad/common/solution.py: enum VehicleModel — (member name, value) in definition order -/
def Sol_VehicleModel : List (String × Int) := [("PM", 0), ("ST", 1), ("KS", 2), ("MB", 3), ("KST", 4)]
