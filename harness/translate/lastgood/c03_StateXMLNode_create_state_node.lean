-- StateXMLNode.create_state_node :: b_State_create_state_node b_State_create_state_node_mapToXmlProp_it1 b_State_create_state_node_time b_State_create_state_node_position
def b_State_create_state_node : CR.SrcW.Builder where
  key := "StateXMLNode.create_state_node"
  kind := .fill
  tag := ""
  xsd := "state"
  path := []
  parent := ""
  attrs := []
  gattrs := []
  text := none
  atoms := ["it1 == 'position'", "type(_.position) in [np.ndarray, list]", "isinstance(_.position, Shape)", "it1 == 'time_step'"]
  body :=
    (.each "_.used_attributes"
      (.ite (.atom 0)
        (.ite (.atom 1)
          (.emit "position" "StateXMLNode.create_state_node/position")
          (.ite (.atom 2)
            (.emit "position" "StateXMLNode.create_state_node/position")
            .skip))
        (.ite (.atom 3)
          (.emit "time" "StateXMLNode.create_state_node/time")
          (.ite (.notNone "getattr(_, it1)")
            (.emit "?mapToXmlProp(it1)" "StateXMLNode.create_state_node/?mapToXmlProp(it1)")
            .skip))))

def b_State_create_state_node_mapToXmlProp_it1 : CR.SrcW.Builder where
  key := "StateXMLNode.create_state_node/?mapToXmlProp(it1)"
  kind := .node
  tag := "?mapToXmlProp(it1)"
  xsd := "state"
  path := ["?mapToXmlProp(it1)"]
  parent := "StateXMLNode.create_state_node"
  attrs := []
  gattrs := []
  text := none
  atoms := []
  body :=
    (.splice "StateXMLNode._write_value_exact_or_interval")

def b_State_create_state_node_time : CR.SrcW.Builder where
  key := "StateXMLNode.create_state_node/time"
  kind := .node
  tag := "time"
  xsd := "state"
  path := ["time"]
  parent := "StateXMLNode.create_state_node"
  attrs := []
  gattrs := []
  text := none
  atoms := []
  body :=
    (.emit "exact" "create_exact_node_int")

def b_State_create_state_node_position : CR.SrcW.Builder where
  key := "StateXMLNode.create_state_node/position"
  kind := .node
  tag := "position"
  xsd := "state"
  path := ["position"]
  parent := "StateXMLNode.create_state_node"
  attrs := []
  gattrs := []
  text := none
  atoms := []
  body :=
    (.ite (.atom 1)
      (.emit "point" "Point.create_node")
      (.ite (.atom 2)
        (.splice "ShapeXMLNode.create_node")
        .skip))
