/-- commonroad/common/writer/file_writer_protobuf.py IncomingMessage.create_message -/
def W_Incoming (i : Incoming) : PB :=
  PB.msg [("incoming_id", (PB.u32 i.id)), ("incoming_lanelets", PB.rep (List.map (fun v1 => (PB.u32 v1)) i.lanelets)), ("successors_right", PB.rep (List.map (fun v2 => (PB.u32 v2)) i.right)), ("successors_straight", PB.rep (List.map (fun v3 => (PB.u32 v3)) i.straight)), ("successors_left", PB.rep (List.map (fun v4 => (PB.u32 v4)) i.left)), ("is_left_of", (PB.ofOpt (Option.map (fun v5 => (PB.u32 v5)) i.left_of)))]
