/-- commonroad/common/writer/file_writer_protobuf.py IncomingMessage.create_message -/
def W_Incoming (i : Incoming) : PB :=
  PB.msg [("incoming_id", (PB.u32 i.id)), ("incoming_lanelets", PB.rep (List.map (fun x1 => (PB.u32 x1)) i.lanelets)), ("successors_right", PB.rep (List.map (fun x2 => (PB.u32 x2)) i.right)), ("successors_straight", PB.rep (List.map (fun x3 => (PB.u32 x3)) i.straight)), ("successors_left", PB.rep (List.map (fun x4 => (PB.u32 x4)) i.left)), ("is_left_of", (PB.ofOpt (Option.map (fun x5 => (PB.u32 x5)) i.left_of)))]
