def make_valid_orientation_interval.loop1 (τ : Rat) : Nat → Rat → Rat → Rat × Rat
  | 0, angle_end, angle_start => (angle_end, angle_start)
  | n + 1, angle_end, angle_start =>
    if (decide (angle_start > τ) || decide (angle_end > τ)) then
      let angle_start := angle_start - τ
      let angle_end := angle_end - τ
      make_valid_orientation_interval.loop1 τ n angle_end angle_start
    else (angle_end, angle_start)

def make_valid_orientation_interval.loop2 (τ : Rat) : Nat → Rat → Rat → Rat × Rat
  | 0, angle_end, angle_start => (angle_end, angle_start)
  | n + 1, angle_end, angle_start =>
    if (decide (angle_start < (-τ)) || decide (angle_start < (-τ))) then
      let angle_start := angle_start + τ
      let angle_end := angle_end + τ
      make_valid_orientation_interval.loop2 τ n angle_end angle_start
    else (angle_end, angle_start)

/-- commonroad/common/util.py: make_valid_orientation_interval -/
def make_valid_orientation_interval (τ : Rat) (fuel : Nat) (angle_start : Rat) (angle_end : Rat) : Rat × Rat := Id.run do
  let (angle_end, angle_start) := make_valid_orientation_interval.loop1 τ fuel angle_end angle_start
  let (angle_end, angle_start) := make_valid_orientation_interval.loop2 τ fuel angle_end angle_start
  return (angle_start, angle_end)
