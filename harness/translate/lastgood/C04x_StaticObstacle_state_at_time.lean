/-- commonroad/scenario/obstacle.py: StaticObstacle.state_at_time -/
def StaticObstacle_state_at_time (time_step : Int) : Option CR.Occ.StRef := Id.run do
  return some CR.Occ.StRef.init
