/-- commonroad/common/solution.py: CommonRoadSolutionReader._parse_state — `state_types[state_type](**state_vals)` is CR.PyS.construct over the extracted key table -/
def Sol_parse_state (c : CR.Sol.Codec) (state_type : CR.Sol.TType) (state_node : CR.Sol.StateNode) : Res (CR.Sol.State) := do
  if (!decide (state_node.tag = (← CR.PyS.enumGet Sol_StateType state_type.name))) then
    throw CR.Err.other
  else
    let state_vals : List (String × CR.Sol.FVal) := []
    let state_vals ← ((List.zip (← Sol_StateType_xml_fields state_type) (← Sol_StateType_fields state_type))).foldlM (fun state_vals mapping => do
        let xml_name := mapping.1
        let field_name := mapping.2
        let state_vals ← (if (CR.PyS.isTuple xml_name) then do
            let state_vals := state_vals ++ [(field_name, (← CR.PyS.npArray2 (← ((CR.PyS.tupleNames xml_name)).mapM (fun name => do return (← Sol_parse_sub_element c state_node.leaves name true)))))]
            pure state_vals
          else do
            let state_vals := state_vals ++ [(field_name, (← Sol_parse_sub_element c state_node.leaves (← CR.PyS.nameOf xml_name) (!decide (xml_name = (CR.Sol.XName.one "time")))))]
            pure state_vals)
        pure state_vals) state_vals
    return (← CR.PyS.construct Sol_reader_state_types state_type state_vals)
