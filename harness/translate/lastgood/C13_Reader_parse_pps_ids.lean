/-- commonroad/common/solution.py: CommonRoadSolutionReader._parse_planning_problem_solution — the statements before the trajectory node is read: (vehicle model, vehicle type, cost function) -/
def Reader_parse_pps_ids (vehicle_id : Str) (cost_id : Str) (trajectory_node : Unit) : Res ((CR.BenchId.VModel) × (CR.BenchId.VType) × (CR.BenchId.Cost)) := do
  let (vehicle_model, vehicle_type) := (← Reader_parse_vehicle_id vehicle_id)
  if (!((((CR.BenchId.Cost.all).map (fun cfunc => (cfunc).name))).contains cost_id)) then
    throw CR.Err.other
  else
    let cost_function : CR.BenchId.Cost := (← CR.PyC13.enumByName CR.BenchId.Cost.all CR.BenchId.Cost.name cost_id)
    return (vehicle_model, vehicle_type, cost_function)
