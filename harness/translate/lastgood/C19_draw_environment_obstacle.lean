/-- commonroad/visualization/mp_renderer.py: MPRenderer.draw_environment_obstacle — the group is represented by its `time_begin` -/
def draw_environment_obstacle (draw_params : Int) (obj : CR.Draw.Obst) : List Item := Id.run do
  let mut out : List Item := []
  let mut time_begin : Int := draw_params
  out := out ++ [Item.occ ((CR.PyC19.occupancyAt obj time_begin).getD default).t]
  return out
