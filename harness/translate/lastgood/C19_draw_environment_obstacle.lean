/-- commonroad/visualization/mp_renderer.py: MPRenderer.draw_environment_obstacle — the group is represented by its `time_begin` -/
def draw_environment_obstacle (draw_params : Int) (obj : CR.Draw.Obst) : List Item :=
  let out : List Item := []
  let time_begin : Int := draw_params
  let out := out ++ [Item.occ ((CR.PyC19.occupancyAt obj time_begin).getD default).t]
  out
