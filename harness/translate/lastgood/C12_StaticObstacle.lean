/-- commonroad/scenario/obstacle.py: StaticObstacle.__eq__ / StaticObstacle.__hash__ -/
def src_StaticObstacle : ClassSrc :=
  { guard := "StaticObstacle",
    eqs := [
      ⟨"obstacle_id", [(.eq .id)]⟩,
      ⟨"obstacle_role", [(.eq .id)]⟩,
      ⟨"obstacle_type", [(.eq .id)]⟩,
      ⟨"obstacle_shape", [(.eq .id)]⟩,
      ⟨"initial_state", [(.eq .id)]⟩,
      ⟨"initial_center_lanelet_ids", [(.eq .noneEmptySet)]⟩,
      ⟨"initial_shape_lanelet_ids", [(.eq .noneEmptySet)]⟩,
      ⟨"initial_signal_state", [(.eq .id)]⟩,
      ⟨"signal_series", [(.eq .id)]⟩],
    hashes := [
      ⟨"obstacle_id", .it⟩,
      ⟨"obstacle_role", .it⟩,
      ⟨"obstacle_type", .it⟩,
      ⟨"obstacle_shape", .it⟩,
      ⟨"initial_state", .it⟩,
      ⟨"initial_center_lanelet_ids", (.optEmpty (.frozenset .it))⟩,
      ⟨"initial_shape_lanelet_ids", (.optEmpty (.frozenset .it))⟩,
      ⟨"initial_signal_state", .it⟩,
      ⟨"signal_series", (.optNone (.tuple .it))⟩] }
