/-- commonroad/common/solution.py: PlanningProblemSolution._check_trajectory_supported -/
def Sol_check_trajectory_supported (vehicle_model : CR.Sol.VModel) (trajectory_type : CR.Sol.TType) : Res (Bool) := do
  if (!(Sol_valid_vehicle_model trajectory_type vehicle_model)) then
    throw CR.Err.other
  else
    return true
