/-- commonroad/scenario/traffic_light.py: TrafficLightCycle.__eq__ / TrafficLightCycle.__hash__ -/
def src_TrafficLightCycle : ClassSrc :=
  { guard := "TrafficLightCycle",
    eqs := [
      ⟨"cycle_elements", [(.eq .id)]⟩,
      ⟨"time_offset", [(.eq .id)]⟩,
      ⟨"active", [(.eq .id)]⟩],
    hashes := [
      ⟨"cycle_elements", (.frozenset .it)⟩,
      ⟨"time_offset", .it⟩,
      ⟨"active", .it⟩] }
