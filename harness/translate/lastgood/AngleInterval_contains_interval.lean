/-- commonroad/common/util.py: AngleInterval.contains -/
def AngleInterval_contains_interval (τ ε : Rat) (self : CR.Iv.I) (other : CR.Iv.I) : Bool := Id.run do
  let start_diff := (CR.Py.fmod (other.lo - self.lo) τ)
  if decide (start_diff < 0) then
    let start_diff := start_diff + τ
    if decide (start_diff ≥ (τ - ε)) then
      let start_diff := 0
      return decide ((start_diff + (other.hi - other.lo)) ≤ ((self.hi - self.lo) + ε))
    else
      return decide ((start_diff + (other.hi - other.lo)) ≤ ((self.hi - self.lo) + ε))
  else
    if decide (start_diff ≥ (τ - ε)) then
      let start_diff := 0
      return decide ((start_diff + (other.hi - other.lo)) ≤ ((self.hi - self.lo) + ε))
    else
      return decide ((start_diff + (other.hi - other.lo)) ≤ ((self.hi - self.lo) + ε))
