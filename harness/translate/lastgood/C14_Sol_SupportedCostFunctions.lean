/-- commonroad/common/solution.py: enum SupportedCostFunctions — (vehicle model name, names of the admitted cost functions) -/
def Sol_SupportedCostFunctions : List (String × List String) := [
  ("PM", ["JB1", "WX1", "MW1"]),
  ("ST", CR.PyS.enumNames Sol_CostFunction),
  ("KS", CR.PyS.enumNames Sol_CostFunction),
  ("MB", CR.PyS.enumNames Sol_CostFunction),
  ("KST", CR.PyS.enumNames Sol_CostFunction)]
