/-- commonroad/scenario/scenario.py: ScenarioID.__eq__ / ScenarioID.__hash__ -/
def src_ScenarioID : ClassSrc :=
  { guard := "ScenarioID",
    eqs := [
      ⟨"cooperative", [(.eq .id)]⟩,
      ⟨"country_id", [(.eq .id)]⟩,
      ⟨"map_name", [(.eq .id)]⟩,
      ⟨"map_id", [(.eq .id)]⟩,
      ⟨"configuration_id", [(.eq .id)]⟩,
      ⟨"obstacle_behavior", [(.eq .id)]⟩,
      ⟨"prediction_id", [(.eq .id)]⟩,
      ⟨"scenario_version", [(.eq .id)]⟩],
    hashes := [
      ⟨"cooperative", .it⟩,
      ⟨"country_id", .it⟩,
      ⟨"map_name", .it⟩,
      ⟨"map_id", .it⟩,
      ⟨"configuration_id", .it⟩,
      ⟨"obstacle_behavior", .it⟩,
      ⟨"prediction_id", (.ifList (.tuple .it))⟩,
      ⟨"scenario_version", .it⟩] }
