/-- commonroad/common/writer/file_writer_protobuf.py PointMessage.create_message -/
def W_Point (p : Pt) : PB :=
  PB.msg [("x", (PB.dbl p.x)), ("y", (PB.dbl p.y))]
