/-- commonroad/scenario/lanelet.py: LaneletNetwork.remove_traffic_light -/
def LaneletNetwork_remove_traffic_light (self : CR.Refs.Net) (traffic_light_id : CR.Refs.Id) : CR.Refs.Net :=
  let self :=
    if (CR.PyR.mem traffic_light_id self.tids) then
      let self := { self with lights := self.lights.filter (fun e => e.1 != traffic_light_id) }
      self
    else
      self
  let self := (LaneletNetwork_cleanup_traffic_light_references self)
  self
