/-- commonroad/scenario/traffic_light.py: TrafficLight.get_state_at_time_step — the light delegates to its cycle (es, off are the cycle's elements and offset) -/
def TrafficLight_get_state_at_time_step (es : List CR.TL.Elem) (off : Int) (time_step : Int) : Res (Nat) := do
  return (← TrafficLightCycle_get_state_at_time_step es off time_step)
