/-- commonroad/scenario/scenario.py: Scenario._add_dynamic_obstacle_to_lanelets -/
def Scenario_add_dynamic_obstacle_to_lanelets (E : CR.Assign.Env) (s : CR.Assign.St) (obstacle : CR.Assign.Id) : Res CR.Assign.St := do
  if (decide (E.kind obstacle = .dynSet) || decide (((E.lanelets).length : Int) = 0)) then do
    return s
  else do
    let s ← (
      if (!((s.fwd obstacle).initShape).isNone) then do
        let s ← ((← CR.PyC07.iter (s.fwd obstacle).initShape)).foldlM (fun s lanelet_id => do
          let lanelet_dict : CR.Assign.Id := (← CR.PyC07.deref (CR.PyC07.findLanelet E lanelet_id))
          let s ← (
            if ((CR.PyC07.ddictGet s lanelet_dict (E.t0 obstacle))).isNone then do
              let s := CR.PyC07.ddictSet s lanelet_dict (E.t0 obstacle) []
              pure s
            else do
              pure s)
          let s ← CR.PyC07.ddictAddAt s lanelet_dict (E.t0 obstacle) obstacle
          pure s) s
        pure s
      else do
        pure s)
    let s ← (
      if (← (if (!(CR.PyC07.predIsNone E obstacle)) then (do pure (!((← CR.PyC07.predShape E s obstacle)).isNone)) else pure false)) then do
        let s ← ((← CR.PyC07.items (← CR.PyC07.predShape E s obstacle))).foldlM (fun s kv => do
          let time_step : Int := kv.1
          let ids : List CR.Assign.Id := kv.2
          let s ← (ids).foldlM (fun s lanelet_id => do
            let lanelet_dict : CR.Assign.Id := (← CR.PyC07.deref (CR.PyC07.findLanelet E lanelet_id))
            let s ← (
              if ((CR.PyC07.ddictGet s lanelet_dict time_step)).isNone then do
                let s := CR.PyC07.ddictSet s lanelet_dict time_step []
                pure s
              else do
                pure s)
            let s ← CR.PyC07.ddictAddAt s lanelet_dict time_step obstacle
            pure s) s
          pure s) s
        pure s
      else do
        pure s)
    return s
