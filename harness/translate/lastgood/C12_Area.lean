/-- commonroad/scenario/area.py: Area.__eq__ / Area.__hash__ -/
def src_Area : ClassSrc :=
  { guard := "Area",
    eqs := [
      ⟨"area_id", [(.eq .id)]⟩,
      ⟨"border", [(.eq .id)]⟩,
      ⟨"area_types", [(.eq .id)]⟩],
    hashes := [
      ⟨"area_id", .it⟩,
      ⟨"border", (.optNone (.tuple .it))⟩,
      ⟨"area_types", (.optEmpty (.frozenset .it))⟩] }
