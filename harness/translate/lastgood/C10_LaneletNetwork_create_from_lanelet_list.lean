/-- commonroad/scenario/lanelet.py: LaneletNetwork.create_from_lanelet_list — `add_lanelet` is the fixed-table `PyR.addLanelet`; deepcopy is the identity on values -/
def LaneletNetwork_create_from_lanelet_list (lanelets : List (CR.Refs.Lanelet)) (cleanup_ids : Bool) : CR.Refs.Net :=
  let lanelet_network := CR.PyR.emptyNet
  let lanelet_network := lanelets.foldl (fun lanelet_network (la : CR.Refs.Lanelet) =>
      let lanelet_network := (CR.PyR.addLanelet lanelet_network la)
      lanelet_network) lanelet_network
  let lanelet_network :=
    if cleanup_ids then
      let lanelet_network := (LaneletNetwork_cleanup_lanelet_references lanelet_network)
      let lanelet_network := (LaneletNetwork_cleanup_traffic_light_references lanelet_network)
      let lanelet_network := (LaneletNetwork_cleanup_traffic_sign_references lanelet_network)
      lanelet_network
    else
      lanelet_network
  lanelet_network
