/-- commonroad/planning/planning_problem.py: PlanningProblem.translate_rotate -/
def PlanningProblem_translate_rotate (m : CR.Rigid.Mo) (pp : CR.Rigid.Problem) : Res (CR.Rigid.Problem) := do
  let mut ini := pp.init
  let mut goal := pp.goal
  ini := (← CR.Rigid.State.move m ini)
  goal ← GoalRegion_translate_rotate m goal
  return (⟨ini, goal⟩ : CR.Rigid.Problem)
