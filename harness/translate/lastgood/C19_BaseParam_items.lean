/-- commonroad/visualization/draw_params.py: BaseParam.__getitem__ — `__getattribute__`, `AttributeError` re-raised as `KeyError` -/
def BaseParam_getitem (self : CR.Params.Grp) (item : String) : Res CR.Params.Val :=
  match CR.Params.Grp.getAttr item self with
  | .error .attr => .error .key
  | r => r

/-- commonroad/visualization/draw_params.py: BaseParam.__setitem__ — `__setattr__`, `AttributeError` re-raised as `KeyError` -/
def BaseParam_setitem (self : CR.Params.Grp) (key : String) (value : CR.Params.Val) : Res CR.Params.Grp :=
  match CR.Params.Grp.setPy key value self with
  | .error .attr => .error .key
  | r => r
