/-- commonroad/common/solution.py: StateType.fields — property; a member is denoted by the model's TType -/
def Sol_StateType_fields (self : CR.Sol.TType) : Res (List String) := do
  return (← CR.PyS.enumGet Sol_StateFields self.name)
