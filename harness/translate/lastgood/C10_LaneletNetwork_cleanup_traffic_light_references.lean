/-- commonroad/scenario/lanelet.py: LaneletNetwork.cleanup_traffic_light_references -/
def LaneletNetwork_cleanup_traffic_light_references (self : CR.Refs.Net) : CR.Refs.Net :=
  let existing_ids := self.tids
  let self := { self with lanelets := self.lanelets.map (fun (la : CR.Refs.Lanelet) =>
      let la := { la with lights := (CR.PyR.inter la.lights existing_ids) }
      let la :=
        if (la.stop.isSome && (la.stop.bind (·.lightRef)).isSome) then
          let la := { la with stop := la.stop.map (fun (st : CR.Refs.StopLine) => { st with lightRef := (some (CR.PyR.inter ((la.stop.bind (·.lightRef)).getD []) existing_ids)) }) }
          la
        else
          la
      la) }
  self
