/-- commonroad/common/util.py: Interval.__mul__ -/
def Interval_mul (self : CR.Iv.I) (other : Rat) : Res (CR.Iv.I) := do
  if decide (other > 0) then
    return (← CR.Iv.mk (self.lo * other) (self.hi * other))
  else
    return (← CR.Iv.mk (self.hi * other) (self.lo * other))
