/-- commonroad/scenario/scenario.py: Scenario.remove_traffic_sign — argument is a list -/
def Scenario_remove_traffic_sign_list (self : CR.Refs.Scn) (traffic_sign : List (CR.Refs.Elem)) : CR.Refs.Scn × Option CR.Err :=
  CR.PyR.andThen (CR.PyR.forEach (fun self (sign : CR.Refs.Elem) =>
      CR.PyR.andThen (Scenario_remove_traffic_sign_one self sign) (fun self =>
        (self, none))) self traffic_sign) (fun self =>
    (self, none))
