/-- commonroad/common/util.py: Interval.__init__ — constructor: both fields None, then the two property setters -/
def Interval_init (start : Rat) (end_ : Rat) : Res (Option Rat × Option Rat) := do
  let self : Option Rat × Option Rat := (none, none)
  let self := (none, self.2)
  let self := (self.1, none)
  let self ← Interval_set_start self start
  let self ← Interval_set_end self end_
  return self
