/-- commonroad/common/writer/file_writer_xml.py: float_to_str — the argument is `str(f)` (the repr of the np.float64); `format(f, '.{d}f')` is the table `P.fix` -/
def float_to_str (P : CR.X.Params) (f : String) : Res (String) := do
  let fstring := f
  if (CR.PyC01.strIn "e" fstring) then
    return (CR.PyC01.formatFixed P f)
  else
    let f_list := (CR.PyC01.splitDot fstring)
    if decide (((f_list).length : Int) > 1) then
      return (((← CR.Py.getItem f_list 0) ++ ".") ++ (CR.PyC01.strTake (← CR.Py.getItem f_list 1) (P.d : Int)))
    else
      return (← CR.Py.getItem f_list 0)
