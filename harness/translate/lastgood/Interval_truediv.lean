/-- commonroad/common/util.py: Interval.__truediv__ -/
def Interval_truediv (self : CR.Iv.I) (other : Rat) : Res (CR.Iv.I) := do
  if decide (other > 0) then
    return (← CR.Iv.mk (← CR.Py.div self.lo other) (← CR.Py.div self.hi other))
  else
    return (← CR.Iv.mk (← CR.Py.div self.hi other) (← CR.Py.div self.lo other))
