/-- commonroad/common/writer/file_writer_interface.py: FileWriter._own_decimal_precision — generator-based context manager: `yield` is the with-block, passed as `body` -/
def FileWriter_own_decimal_precision (c : Codec Input Item Node Bytes Date Content) (answer : Answer) (other : String) (date : Date) (self : Nat) (body : M (St Input Node Bytes Date) Unit) : M (St Input Node Bytes Date) (Unit) := do
  let previous_decimals ← PyW.getDecimals
  let t2 ← PyW.ownDecimalPrecision self
  PyW.setDecimals t2
  M.tryFinally (do
    body
    pure ()) (do
    PyW.setDecimals previous_decimals
    pure ())
