@[simp] def Lanelet_interpolate_position.while1 (cv rv lv : List CR.Arc.Pt) (dist : List Rat) (fuel : Nat) (distance : Rat)  :=
  CR.PyC20.mkLoopM (fun idx => do return (!decide ((← CR.Py.getItem dist idx) ≤ distance))) (fun idx => do
    let idx := idx + 1
    return idx)

/-- commonroad/scenario/lanelet.py: Lanelet.interpolate_position — `dist` is `self.distance`; float division by zero (NaN / inf coordinates in numpy) is the error zero-div -/
def Lanelet_interpolate_position (cv rv lv : List CR.Arc.Pt) (dist : List Rat) (fuel : Nat) (distance : Rat) : Res (CR.Arc.Pt × CR.Arc.Pt × CR.Arc.Pt × Int) := do
  CR.Py.assert ((true && decide ((← CR.Py.getItem dist (-1)) ≥ distance) && decide (distance ≥ 0)))
  let idx := ((CR.PyC20.searchsorted dist distance) - 1)
  let idx ← CR.PyC20.whileM (Lanelet_interpolate_position.while1 cv rv lv dist fuel distance).1 (Lanelet_interpolate_position.while1 cv rv lv dist fuel distance).2 fuel idx
  let r := (← CR.Py.div (distance - (← CR.Py.getItem dist idx)) ((← CR.Py.getItem dist (idx + 1)) - (← CR.Py.getItem dist idx)))
  return ((CR.PyC20.vadd (CR.PyC20.smul (1 - r) (← CR.Py.getItem cv idx)) (CR.PyC20.smul r (← CR.Py.getItem cv (idx + 1)))), (CR.PyC20.vadd (CR.PyC20.smul (1 - r) (← CR.Py.getItem rv idx)) (CR.PyC20.smul r (← CR.Py.getItem rv (idx + 1)))), (CR.PyC20.vadd (CR.PyC20.smul (1 - r) (← CR.Py.getItem lv idx)) (CR.PyC20.smul r (← CR.Py.getItem lv (idx + 1)))), idx)
