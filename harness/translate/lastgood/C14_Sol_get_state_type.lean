/-- commonroad/common/solution.py: StateType.get_state_type — a StateFields member is its (name, value) row; the returned StateType member is denoted by the model's TType -/
def Sol_get_state_type (state : CR.Sol.State) (desired_vehicle_model : Option CR.Sol.VModel) : Res (CR.Sol.TType) := do
  let attrs := (CR.Sol.attrsOf state)
  match desired_vehicle_model with
  | some desired_vehicle_model =>
    let state_fields_all := [(← CR.PyS.enumMember Sol_StateFields desired_vehicle_model.name), (← CR.PyS.enumMember Sol_StateFields "Input"), (← CR.PyS.enumMember Sol_StateFields "PMInput")]
    let state_fields_add : List (String × List String) := []
    let state_fields_add ← (Sol_StateFields).foldlM (fun state_fields_add sf => do
        let state_fields_add ← (if (!(CR.PyS.elem sf state_fields_all)) then do
            let state_fields_add := state_fields_add ++ [sf]
            pure state_fields_add
          else do
            pure state_fields_add)
        pure state_fields_add) state_fields_add
    let state_fields_all := state_fields_all ++ state_fields_add
    match (state_fields_all).find? (fun state_fields => decide ((attrs).length ≥ (state_fields.2).length) && ((state_fields.2).all (fun sf => (CR.PyS.elem sf attrs)))) with
    | some state_fields =>
      return (← CR.PyS.memberOf Sol_StateType state_fields.1)
    | none =>
      throw CR.Err.other
  | none =>
    let state_fields_all := Sol_StateFields
    match (state_fields_all).find? (fun state_fields => decide ((attrs).length = (state_fields.2).length) && ((state_fields.2).all (fun sf => (CR.PyS.elem sf attrs)))) with
    | some state_fields =>
      return (← CR.PyS.memberOf Sol_StateType state_fields.1)
    | none =>
      throw CR.Err.other
