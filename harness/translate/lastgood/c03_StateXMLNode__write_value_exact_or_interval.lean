-- StateXMLNode._write_value_exact_or_interval :: b_State_write_value_exact_or_interval
def b_State_write_value_exact_or_interval : CR.SrcW.Builder where
  key := "StateXMLNode._write_value_exact_or_interval"
  kind := .fill
  tag := ""
  xsd := "decimalExactOrInterval"
  path := []
  parent := ""
  attrs := []
  gattrs := []
  text := none
  atoms := ["isinstance(var, (float, int, np.floating, np.integer))", "isinstance(var, Interval)"]
  body :=
    (.ite (.atom 0)
      (.emit "exact" "create_exact_node_float")
      (.ite (.atom 1)
        (.splice "create_interval_node_float")
        .raise))
