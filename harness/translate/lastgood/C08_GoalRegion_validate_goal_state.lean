def GoalRegion_validate_goal_state.loop1 (state : CR.Goal.RawG) (valid_fields : List CR.Goal.Fld) : List (CR.Goal.Fld) → Res (Unit)
  | [] => do
    return ()
  | attr :: rest_ => do
    if (!(CR.PyG.mem attr valid_fields)) then
      throw CR.Err.value
    else
      let () ← (if decide (attr = CR.Goal.Fld.position) then (do
          if (!(CR.PyG.isInst (← CR.PyG.rawGet state attr) CR.Goal.Cls.shape)) then
            throw CR.Err.value
          else
            pure ())
        else (do
          let () ← (if decide (attr = CR.Goal.Fld.orientation) then (do
              if (!(CR.PyG.isInst (← CR.PyG.rawGet state attr) CR.Goal.Cls.angleInterval)) then
                throw CR.Err.value
              else
                pure ())
            else (do
              if (!(CR.PyG.isInst (← CR.PyG.rawGet state attr) CR.Goal.Cls.interval)) then
                throw CR.Err.value
              else
                pure ()))
          pure ()))
      GoalRegion_validate_goal_state.loop1 state valid_fields rest_

/-- commonroad/planning/goal.py: GoalRegion._validate_goal_state — the state is the list of its attributes with the class of each value (None = none) -/
def GoalRegion_validate_goal_state (state : CR.Goal.RawG) : Res (Unit) := do
  if ((← CR.PyG.rawGet state CR.Goal.Fld.time_step)).isNone then
    throw CR.Err.value
  else
    let valid_fields := [CR.Goal.Fld.time_step, CR.Goal.Fld.position, CR.Goal.Fld.velocity, CR.Goal.Fld.orientation]
    GoalRegion_validate_goal_state.loop1 state valid_fields ((CR.PyG.rawUsed state))
