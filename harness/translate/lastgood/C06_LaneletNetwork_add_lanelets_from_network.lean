/-- commonroad/scenario/lanelet.py: LaneletNetwork.add_lanelets_from_network — `lanelet_network.lanelets` is the parameter `lanelets` -/
def LaneletNetwork_add_lanelets_from_network (self : CR.Index.Net) (lanelets : List CR.Index.Lanelet) : CR.Index.Net × Bool :=
  let flag := true
  let a2_ := CR.Py06.lfoldl (lanelets) (self, flag) (fun a2_ x1_ =>
      let self := a2_.1
      let flag := a2_.2
      if flag then
        let r3_ := (LaneletNetwork_add_lanelet self x1_ false)
        let self := r3_.1
        let flag := r3_.2
        (self, flag)
      else
        let flag := flag
        (self, flag))
  let self := a2_.1
  let flag := a2_.2
  let self := (LaneletNetwork_create_strtree self)
  (self, flag)
