/-- commonroad/scenario/obstacle.py: StaticObstacle.translate_rotate -/
def StaticObstacle_translate_rotate (m : CR.Rigid.Mo) (body : CR.Rigid.Shape) (st : CR.Rigid.State) : Res (CR.Rigid.Obstacle) := do
  let mut st := st
  CR.Py.assert (CR.Iv.validOrientation m.τ m.a)
  st := (← CR.Rigid.State.move m st)
  return (CR.Rigid.Obstacle.static body st)
