-- PolygonXMLNode.create_polygon_node :: b_Polygon_create_polygon_node
def b_Polygon_create_polygon_node : CR.SrcW.Builder where
  key := "PolygonXMLNode.create_polygon_node"
  kind := .node
  tag := "polygon"
  xsd := "polygon"
  path := []
  parent := ""
  attrs := []
  gattrs := []
  text := none
  atoms := []
  body :=
    (.each "_.vertices"
      (.emit "point" "Point.create_node"))
