-- IntersectionXMLNode.create_node :: b_Intersection_create_node b_Intersection_create_node_crossing b_Intersection_create_node_crossing_crossingLanelet b_Intersection_create_node_incoming b_Intersection_create_node_incoming_isLeftOf b_Intersection_create_node_incoming_successorsLeft b_Intersection_create_node_incoming_successorsStraight b_Intersection_create_node_incoming_successorsRight b_Intersection_create_node_incoming_incomingLanelet
def b_Intersection_create_node : CR.SrcW.Builder where
  key := "IntersectionXMLNode.create_node"
  kind := .node
  tag := "intersection"
  xsd := "intersection"
  path := []
  parent := ""
  attrs := [("id", (.str "_.intersection_id"))]
  gattrs := []
  text := none
  atoms := []
  body :=
    (.seq
      (.each "_.incomings"
        (.emit "incoming" "IntersectionXMLNode.create_node/incoming"))
      (.ite (.and (.notNone "_.crossings") (.lenPos "_.crossings"))
        (.emit "crossing" "IntersectionXMLNode.create_node/crossing")
        .skip))

def b_Intersection_create_node_crossing : CR.SrcW.Builder where
  key := "IntersectionXMLNode.create_node/crossing"
  kind := .node
  tag := "crossing"
  xsd := "intersection"
  path := ["crossing"]
  parent := "IntersectionXMLNode.create_node"
  attrs := []
  gattrs := []
  text := none
  atoms := []
  body :=
    (.each "_.crossings"
      (.emit "crossingLanelet" "IntersectionXMLNode.create_node/crossing/crossingLanelet"))

def b_Intersection_create_node_crossing_crossingLanelet : CR.SrcW.Builder where
  key := "IntersectionXMLNode.create_node/crossing/crossingLanelet"
  kind := .node
  tag := "crossingLanelet"
  xsd := "intersection"
  path := ["crossing", "crossingLanelet"]
  parent := "IntersectionXMLNode.create_node/crossing"
  attrs := [("ref", (.str "it1"))]
  gattrs := []
  text := none
  atoms := []
  body :=
    .skip

def b_Intersection_create_node_incoming : CR.SrcW.Builder where
  key := "IntersectionXMLNode.create_node/incoming"
  kind := .node
  tag := "incoming"
  xsd := "intersection"
  path := ["incoming"]
  parent := "IntersectionXMLNode.create_node"
  attrs := [("id", (.str "it1.incoming_id"))]
  gattrs := []
  text := none
  atoms := []
  body :=
    (.seq
      (.each "it1.incoming_lanelets"
        (.emit "incomingLanelet" "IntersectionXMLNode.create_node/incoming/incomingLanelet"))
      (.seq
        (.ite (.truthy "it1.successors_right")
          (.each "it1.successors_right"
            (.emit "successorsRight" "IntersectionXMLNode.create_node/incoming/successorsRight"))
          .skip)
        (.seq
          (.ite (.truthy "it1.successors_straight")
            (.each "it1.successors_straight"
              (.emit "successorsStraight" "IntersectionXMLNode.create_node/incoming/successorsStraight"))
            .skip)
          (.seq
            (.ite (.truthy "it1.successors_left")
              (.each "it1.successors_left"
                (.emit "successorsLeft" "IntersectionXMLNode.create_node/incoming/successorsLeft"))
              .skip)
            (.ite (.truthy "it1.left_of")
              (.emit "isLeftOf" "IntersectionXMLNode.create_node/incoming/isLeftOf")
              .skip)))))

def b_Intersection_create_node_incoming_isLeftOf : CR.SrcW.Builder where
  key := "IntersectionXMLNode.create_node/incoming/isLeftOf"
  kind := .node
  tag := "isLeftOf"
  xsd := "intersection"
  path := ["incoming", "isLeftOf"]
  parent := "IntersectionXMLNode.create_node/incoming"
  attrs := [("ref", (.str "it1.left_of"))]
  gattrs := []
  text := none
  atoms := []
  body :=
    .skip

def b_Intersection_create_node_incoming_successorsLeft : CR.SrcW.Builder where
  key := "IntersectionXMLNode.create_node/incoming/successorsLeft"
  kind := .node
  tag := "successorsLeft"
  xsd := "intersection"
  path := ["incoming", "successorsLeft"]
  parent := "IntersectionXMLNode.create_node/incoming"
  attrs := [("ref", (.str "it2"))]
  gattrs := []
  text := none
  atoms := []
  body :=
    .skip

def b_Intersection_create_node_incoming_successorsStraight : CR.SrcW.Builder where
  key := "IntersectionXMLNode.create_node/incoming/successorsStraight"
  kind := .node
  tag := "successorsStraight"
  xsd := "intersection"
  path := ["incoming", "successorsStraight"]
  parent := "IntersectionXMLNode.create_node/incoming"
  attrs := [("ref", (.str "it2"))]
  gattrs := []
  text := none
  atoms := []
  body :=
    .skip

def b_Intersection_create_node_incoming_successorsRight : CR.SrcW.Builder where
  key := "IntersectionXMLNode.create_node/incoming/successorsRight"
  kind := .node
  tag := "successorsRight"
  xsd := "intersection"
  path := ["incoming", "successorsRight"]
  parent := "IntersectionXMLNode.create_node/incoming"
  attrs := [("ref", (.str "it2"))]
  gattrs := []
  text := none
  atoms := []
  body :=
    .skip

def b_Intersection_create_node_incoming_incomingLanelet : CR.SrcW.Builder where
  key := "IntersectionXMLNode.create_node/incoming/incomingLanelet"
  kind := .node
  tag := "incomingLanelet"
  xsd := "intersection"
  path := ["incoming", "incomingLanelet"]
  parent := "IntersectionXMLNode.create_node/incoming"
  attrs := [("ref", (.str "it2"))]
  gattrs := []
  text := none
  atoms := []
  body :=
    .skip
