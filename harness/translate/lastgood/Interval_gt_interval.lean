/-- commonroad/common/util.py: Interval.__gt__ -/
def Interval_gt_interval (self : CR.Iv.I) (other : CR.Iv.I) : Bool := Id.run do
  return (if decide (self.lo > other.hi) then true else false)
