/-- commonroad/geometry/shape.py: ShapeGroup.rotate_translate_local — `s.rotate_translate_local` on a member is the model's dispatch Place.place (its branches are the ties of this file) -/
def ShapeGroup_rotate_translate_local (τ : Rat) (cosf sinf : Rat → Rat) (ss : List CR.Rigid.Shape) (translation : CR.Rigid.Pt) (angle : Rat) : Res (CR.Rigid.Shape) := do
  CR.Py.assert (true)
  CR.Py.assert ((CR.Iv.validOrientation τ angle))
  let new_shapes : List (CR.Rigid.Shape) := []
  let new_shapes := ((ss).foldl (fun new_shapes s => (new_shapes ++ [(CR.Place.place (cosf angle) (sinf angle) angle τ translation s)])) new_shapes)
  return (CR.Rigid.Shape.group new_shapes)
