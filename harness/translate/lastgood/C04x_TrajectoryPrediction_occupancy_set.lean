/-- commonroad/prediction/prediction.py: TrajectoryPrediction.occupancy_set — cached property: its value is what _create_occupancy_set computes -/
def TrajectoryPrediction_occupancy_set (wb : Option (List Rat)) (states : List CR.PyC04.TState) : List (Int × CR.PyC04.Region) := Id.run do
  return (TrajectoryPrediction_create_occupancy_set wb states)
