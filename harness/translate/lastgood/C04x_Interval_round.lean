/-- commonroad/common/util.py: Interval.__round__ — `round(x, n)` is the parameter `rnd n x`; the constructor is the one translated in Gen.Src -/
def Interval_round (rnd : Option Int → Rat → Rat) (self : CR.Iv.I) (n : Option Int) : Res (CR.Iv.I) := do
  return (← Interval_new (rnd n self.lo) (rnd n self.hi))
