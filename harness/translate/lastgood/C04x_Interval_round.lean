/-- commonroad/common/util.py: Interval.__round__ — `round(x, n)` is the parameter rnd; the constructor is the one translated in Gen.Src -/
def Interval_round (rnd : Rat → Rat) (self : CR.Iv.I) (n : Option Int) : Res (CR.Iv.I) := do
  return (← Interval_new (rnd self.lo) (rnd self.hi))
