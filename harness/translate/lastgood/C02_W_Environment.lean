/-- commonroad/common/writer/file_writer_protobuf.py EnvironmentMessage.create_message -/
def W_Environment (e : Envr) : PB :=
  PB.msg [("time", (PB.ofOpt (Option.map (fun x1 => (W_TimeStamp x1)) e.time))), ("time_of_day", (PB.ofOpt (Option.map (fun x2 => (PB.enum "TimeOfDay" x2)) e.time_of_day))), ("weather", (PB.ofOpt (Option.map (fun x3 => (PB.enum "Weather" x3)) e.weather))), ("underground", (PB.ofOpt (Option.map (fun x4 => (PB.enum "Underground" x4)) e.underground)))]
