/-- commonroad/common/writer/file_writer_protobuf.py EnvironmentMessage.create_message -/
def W_Environment (e : Envr) : PB :=
  PB.msg [("time", (PB.ofOpt (Option.map (fun v1 => (W_TimeStamp v1)) e.time))), ("time_of_day", (PB.ofOpt (Option.map (fun v2 => (PB.enum "TimeOfDay" v2)) e.time_of_day))), ("weather", (PB.ofOpt (Option.map (fun v3 => (PB.enum "Weather" v3)) e.weather))), ("underground", (PB.ofOpt (Option.map (fun v4 => (PB.enum "Underground" v4)) e.underground)))]
