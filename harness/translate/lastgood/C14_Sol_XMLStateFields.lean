/-- commonroad/common/solution.py: enum XMLStateFields — (member name, value); a tuple entry is `.pair`, a name `.one` -/
def Sol_XMLStateFields : List (String × List CR.Sol.XName) := [
  ("PM", [.pair "x" "y", .one "xVelocity", .one "yVelocity", .one "time"]),
  ("ST", [.pair "x" "y", .one "steeringAngle", .one "velocity", .one "orientation", .one "yawRate", .one "slipAngle", .one "time"]),
  ("KS", [.pair "x" "y", .one "steeringAngle", .one "velocity", .one "orientation", .one "time"]),
  ("KST", [.pair "x" "y", .one "steeringAngle", .one "velocity", .one "orientation", .one "hitch_angle", .one "time"]),
  ("MB", [.pair "x" "y", .one "steeringAngle", .one "velocity", .one "orientation", .one "yawRate", .one "rollAngle", .one "rollRate", .one "pitchAngle", .one "pitchRate", .one "yVelocity", .one "zPosition", .one "zVelocity", .one "rollAngleFront", .one "rollRateFront", .one "yVelocityFront", .one "zPositionFront", .one "zVelocityFront", .one "rollAngleRear", .one "rollRateRear", .one "yVelocityRear", .one "zPositionRear", .one "zVelocityRear", .one "leftFrontWheelAngularSpeed", .one "rightFrontWheelAngularSpeed", .one "leftRearWheelAngularSpeed", .one "rightRearWheelAngularSpeed", .one "deltaYf", .one "deltaYr", .one "time"]),
  ("Input", [.one "steeringAngleSpeed", .one "acceleration", .one "time"]),
  ("PMInput", [.one "xAcceleration", .one "yAcceleration", .one "time"])]
