-- DynamicObstacleXMLNode.create_node :: b_DynamicObstacle_create_node b_DynamicObstacle_create_node_initialSignalState b_DynamicObstacle_create_node_initialState b_DynamicObstacle_create_node_shape
def b_DynamicObstacle_create_node : CR.SrcW.Builder where
  key := "DynamicObstacleXMLNode.create_node"
  kind := .node
  tag := "?obstacle_role.value + 'Obstacle'"
  xsd := "dynamicObstacle"
  path := []
  parent := ""
  attrs := []
  gattrs := []
  text := none
  atoms := ["isinstance(_.prediction, SetBasedPrediction)", "isinstance(_.prediction, TrajectoryPrediction)"]
  body :=
    (.seq
      (.splice "ObstacleXMLNode.create_obstacle_node_header")
      (.seq
        (.emit "shape" "DynamicObstacleXMLNode.create_node/shape")
        (.seq
          (.emit "initialState" "DynamicObstacleXMLNode.create_node/initialState")
          (.seq
            (.ite (.notNone "_.initial_signal_state")
              (.emit "initialSignalState" "DynamicObstacleXMLNode.create_node/initialSignalState")
              .skip)
            (.seq
              (.ite (.atom 0)
                (.emit "occupancySet" "DynamicObstacleXMLNode.create_occupancy_node")
                (.ite (.atom 1)
                  (.emit "trajectory" "DynamicObstacleXMLNode._create_trajectory_node")
                  .skip))
              (.ite (.and (.notNone "_.signal_series") (.lenPos "_.signal_series"))
                (.emit "signalSeries" "DynamicObstacleXMLNode._create_signal_series_node")
                .skip))))))

def b_DynamicObstacle_create_node_initialSignalState : CR.SrcW.Builder where
  key := "DynamicObstacleXMLNode.create_node/initialSignalState"
  kind := .node
  tag := "initialSignalState"
  xsd := "dynamicObstacle"
  path := ["initialSignalState"]
  parent := "DynamicObstacleXMLNode.create_node"
  attrs := []
  gattrs := []
  text := none
  atoms := []
  body :=
    (.splice "SignalStateXMLNode.create_signal_state_node")

def b_DynamicObstacle_create_node_initialState : CR.SrcW.Builder where
  key := "DynamicObstacleXMLNode.create_node/initialState"
  kind := .node
  tag := "initialState"
  xsd := "dynamicObstacle"
  path := ["initialState"]
  parent := "DynamicObstacleXMLNode.create_node"
  attrs := []
  gattrs := []
  text := none
  atoms := []
  body :=
    (.splice "StateXMLNode.create_state_node")

def b_DynamicObstacle_create_node_shape : CR.SrcW.Builder where
  key := "DynamicObstacleXMLNode.create_node/shape"
  kind := .node
  tag := "shape"
  xsd := "dynamicObstacle"
  path := ["shape"]
  parent := "DynamicObstacleXMLNode.create_node"
  attrs := []
  gattrs := []
  text := none
  atoms := []
  body :=
    (.splice "ShapeXMLNode.create_node")
