/-- commonroad/common/writer/file_writer_protobuf.py: ProtobufFileWriter.write_to_file -/
def ProtobufFileWriter_write_to_file (c : Codec Input Item Node Bytes Date Content) (answer : Answer) (other : String) (date : Date) (self : Nat) (filename : Option String) (overwrite_existing_file : Mode) (check_validity : Bool) : M (St Input Node Bytes Date) (Option (String × Bytes)) := do
  let written : Option (String × Bytes) := none
  let filename ← FileWriter_handle_file_path c answer other date self filename overwrite_existing_file
  if decide (filename = "") then
    pure written
  else
    PyW.newDocument self
    PyW.writeHeader self date
    PyW.addScenarioObjects c self
    PyW.addPlanningProblems c self
    if check_validity then
      PyW.noop
      let t2 ← ProtobufFileWriter_serialize_write_msg c answer other date self filename
      let written := some t2
      pure written
    else
      let t3 ← ProtobufFileWriter_serialize_write_msg c answer other date self filename
      let written := some t3
      pure written
