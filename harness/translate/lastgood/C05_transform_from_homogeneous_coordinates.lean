/-- commonroad/geometry/transform.py: from_homogeneous_coordinates -/
def transform_from_homogeneous_coordinates (points : List CR.PyC05.H) : List CR.Rigid.Pt := Id.run do
  return ((points).map CR.PyC05.fromH)
