/-- commonroad/prediction/prediction.py: SetBasedPrediction.__eq__ / SetBasedPrediction.__hash__ -/
def src_SetBasedPrediction : ClassSrc :=
  { guard := "SetBasedPrediction",
    eqs := [
      ⟨"initial_time_step", [(.eq .id)]⟩,
      ⟨"occupancy_set", [(.eq .id)]⟩],
    hashes := [
      ⟨"initial_time_step", .it⟩,
      ⟨"occupancy_set", (.frozenset .it)⟩] }
