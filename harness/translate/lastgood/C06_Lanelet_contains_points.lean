/-- commonroad/scenario/lanelet.py: Lanelet.contains_points — `self._polygon` is the Polygon built from the lanelet ring (Polygon_set_vertices) -/
def Lanelet_contains_points (ptIn : List CR.Geom.Pt → CR.Geom.Pt → Bool) (self : CR.Index.Lanelet) (point_list : List CR.Geom.Pt) : Res (List Bool) := do
  CR.Py.assert ((CR.Py06.isValidPolyline point_list))
  return (CR.Py06.lmap (point_list) (fun e1_ => (Polygon_contains_point ptIn (Polygon_set_vertices self.poly.ring) e1_)))
