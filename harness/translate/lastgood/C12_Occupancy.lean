/-- commonroad/prediction/prediction.py: Occupancy.__eq__ / Occupancy.__hash__ -/
def src_Occupancy : ClassSrc :=
  { guard := "Occupancy",
    eqs := [
      ⟨"time_step", [(.eq .id)]⟩,
      ⟨"shape", [(.eq .id)]⟩],
    hashes := [
      ⟨"time_step", .it⟩,
      ⟨"shape", .it⟩] }
