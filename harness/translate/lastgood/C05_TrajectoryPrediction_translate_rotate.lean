/-- commonroad/prediction/prediction.py: TrajectoryPrediction.translate_rotate — the body-frame `shape` is not touched; cache invalidation is C11's subject -/
def TrajectoryPrediction_translate_rotate (m : CR.Rigid.Mo) (body : CR.Rigid.Shape) (sts : List CR.Rigid.State) : Res (CR.Rigid.Pred) := do
  let mut sts := sts
  CR.Py.assert (CR.Iv.validOrientation m.τ m.a)
  sts ← Trajectory_translate_rotate m sts
  return (CR.Rigid.Pred.traj body sts)
