/-- commonroad/__init__.py: SCENARIO_VERSION -/
def SCENARIO_VERSION : Str := (['2', '0', '2', '0', 'a'] : Str)

/-- commonroad/__init__.py: SUPPORTED_COMMONROAD_VERSIONS (a set: members in sorted order; only used for `in`) -/
def SUPPORTED_COMMONROAD_VERSIONS : List Str := [(['2', '0', '1', '8', 'b'] : Str), (['2', '0', '2', '0', 'a'] : Str)]
