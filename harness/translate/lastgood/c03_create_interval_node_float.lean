-- create_interval_node_float :: b_create_interval_node_float b_create_interval_node_float_intervalEnd b_create_interval_node_float_intervalStart
def b_create_interval_node_float : CR.SrcW.Builder where
  key := "create_interval_node_float"
  kind := .list
  tag := ""
  xsd := "decimalExactOrInterval"
  path := []
  parent := ""
  attrs := []
  gattrs := []
  text := none
  atoms := []
  body :=
    (.seq
      (.emit "intervalStart" "create_interval_node_float/intervalStart")
      (.emit "intervalEnd" "create_interval_node_float/intervalEnd"))

def b_create_interval_node_float_intervalEnd : CR.SrcW.Builder where
  key := "create_interval_node_float/intervalEnd"
  kind := .node
  tag := "intervalEnd"
  xsd := "decimalExactOrInterval"
  path := ["intervalEnd"]
  parent := "create_interval_node_float"
  attrs := []
  gattrs := []
  text := some (.floatToStr "_.end")
  atoms := []
  body :=
    .skip

def b_create_interval_node_float_intervalStart : CR.SrcW.Builder where
  key := "create_interval_node_float/intervalStart"
  kind := .node
  tag := "intervalStart"
  xsd := "decimalExactOrInterval"
  path := ["intervalStart"]
  parent := "create_interval_node_float"
  attrs := []
  gattrs := []
  text := some (.floatToStr "_.start")
  atoms := []
  body :=
    .skip
