-- DynamicObstacleXMLNode._create_trajectory_node :: b_DynamicObstacle_create_trajectory_node b_DynamicObstacle_create_trajectory_node_state
def b_DynamicObstacle_create_trajectory_node : CR.SrcW.Builder where
  key := "DynamicObstacleXMLNode._create_trajectory_node"
  kind := .node
  tag := "trajectory"
  xsd := "dynamicObstacle/trajectory"
  path := []
  parent := ""
  attrs := []
  gattrs := []
  text := none
  atoms := []
  body :=
    (.each "_.state_list"
      (.emit "state" "DynamicObstacleXMLNode._create_trajectory_node/state"))

def b_DynamicObstacle_create_trajectory_node_state : CR.SrcW.Builder where
  key := "DynamicObstacleXMLNode._create_trajectory_node/state"
  kind := .node
  tag := "state"
  xsd := "dynamicObstacle/trajectory"
  path := ["state"]
  parent := "DynamicObstacleXMLNode._create_trajectory_node"
  attrs := []
  gattrs := []
  text := none
  atoms := []
  body :=
    (.splice "StateXMLNode.create_state_node")
