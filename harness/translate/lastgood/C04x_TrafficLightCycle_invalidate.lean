/-- commonroad/scenario/traffic_light.py: TrafficLightCycle._invalidate_cycle_init_timesteps — drops the memoised table -/
def TrafficLightCycle_invalidate (self : CR.TL.Hist.Obj) : CR.TL.Hist.Obj := Id.run do
  if (self.table).isSome then
    let self := { self with table := none }
    return self
  else
    return self
