-- LaneletStopLineXMLNode.create_node :: b_LaneletStopLine_create_node
def b_LaneletStopLine_create_node : CR.SrcW.Builder where
  key := "LaneletStopLineXMLNode.create_node"
  kind := .node
  tag := "stopLine"
  xsd := "stopLine"
  path := []
  parent := ""
  attrs := []
  gattrs := []
  text := none
  atoms := []
  body :=
    (.seq
      (.ite (.or (.notNone "_.start") (.notNone "_.end"))
        (.seq
          (.emit "point" "Point.create_node")
          (.emit "point" "Point.create_node"))
        .skip)
      (.seq
        (.ite (.truthy "_.line_marking")
          (.emit "lineMarking" "LineMarkingXMLNode.create_node")
          .skip)
        (.seq
          (.ite (.notNone "_.traffic_sign_ref")
            (.each "_.traffic_sign_ref"
              (.emit "trafficSignRef" "TrafficSignXMLNode.create_ref_node"))
            .skip)
          (.ite (.notNone "_.traffic_light_ref")
            (.each "_.traffic_light_ref"
              (.emit "trafficLightRef" "TrafficLightXMLNode.create_ref_node"))
            .skip))))
