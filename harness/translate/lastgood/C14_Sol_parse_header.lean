/-- commonroad/common/solution.py: CommonRoadSolutionReader._parse_header — the root element is its attribute dict -/
def Sol_parse_header (c : CR.Sol.Codec) (root_node : List (String × String)) : Res (Option String × Option CR.Sol.Date × Option CR.Sol.Tok × Option String) := do
  let benchmark_id := (CR.PyS.dictGet root_node "benchmark_id")
  let date := (CR.PyS.dictGet root_node "date")
  let date ← (match date with
    | some date => do
      let date ← CR.PyS.strptime2 c date "%Y-%m-%dT%H:%M:%S" "%Y-%m-%d"
      pure (some date)
    | none => do
      pure none)
  let computation_time := (CR.PyS.dictGet root_node "computation_time")
  let computation_time ← (match computation_time with
    | some computation_time => do
      let computation_time := (← CR.PyS.float c computation_time)
      pure (some computation_time)
    | none => do
      pure none)
  let processor_name := (CR.PyS.dictGet root_node "processor_name")
  return (benchmark_id, date, computation_time, processor_name)
