/-- commonroad/planning/goal.py: GoalRegion._check_value_in_interval — desired_interval is not an interval; `.contains` is the model function tied in T16 -/
def GoalRegion_check_value_in_interval_other (value : Rat) (desired_interval : Rat) : Res (Bool) := do
  throw CR.Err.value
