/-- commonroad/geometry/shape.py: Rectangle.translate_rotate -/
def Rectangle_translate_rotate (m : CR.Rigid.Mo) (l w : Rat) (ctr : CR.Rigid.Pt) (θ : Rat) : Res (CR.Rigid.Shape) := do
  CR.Py.assert (CR.Iv.validOrientation m.τ m.a)
  let mut new_center := (← CR.Py.getItem (transform_translate_rotate m.c m.s m.a [ctr] m.t) 0)
  let mut new_orientation := (CR.Iv.makeValid m.τ (θ + m.a))
  return (CR.Rigid.Shape.rect l w new_center new_orientation)
