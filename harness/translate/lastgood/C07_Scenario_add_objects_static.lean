/-- commonroad/scenario/scenario.py: Scenario.add_objects — argument is a StaticObstacle -/
def Scenario_add_objects_static (E : CR.Assign.Env) (s : CR.Assign.St) (scenario_object : CR.Assign.Id) : Res CR.Assign.St := do
  do
    do
      CR.PyC07.markUsed E s scenario_object
      let s := CR.PyC07.putStatic s scenario_object
      let s ← Scenario_add_static_obstacle_to_lanelets E s scenario_object (s.fwd scenario_object).initShape
      return s
