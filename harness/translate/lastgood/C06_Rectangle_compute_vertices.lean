/-- commonroad/geometry/shape.py: Rectangle._compute_vertices — `orientation` is the pair (cos θ, sin θ) -/
def Rectangle_compute_vertices (length width : Rat) (center : CR.Geom.Pt) (orientation : Rat × Rat) : List CR.Geom.Pt :=
  let vertices := [⟨((-(1 / 2 : Rat)) * length), ((-(1 / 2 : Rat)) * width)⟩, ⟨((-(1 / 2 : Rat)) * length), ((1 / 2 : Rat) * width)⟩, ⟨((1 / 2 : Rat) * length), ((1 / 2 : Rat) * width)⟩, ⟨((1 / 2 : Rat) * length), ((-(1 / 2 : Rat)) * width)⟩, ⟨((-(1 / 2 : Rat)) * length), ((-(1 / 2 : Rat)) * width)⟩]
  (CR.Py06.rotateTranslate vertices center orientation)
