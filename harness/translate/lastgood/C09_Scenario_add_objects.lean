/-- commonroad/scenario/scenario.py: Scenario.add_objects — one object (not a list) -/
def Scenario_add_objects (s : St) (scenario_object : Obj) (lanelet_ids : Option (List Nat)) : St × Out :=
  if PyC09.isinst scenario_object .staticObstacle then (
    PyC09.tryE (Scenario_mark_object_id_as_used s (PyC09.objId scenario_object)) (fun s =>
      let s : St := { s with stat := dictSet s.stat (PyC09.objId scenario_object) }
      PyC09.tryE (Scenario_add_static_obstacle_to_lanelets s (PyC09.objId scenario_object) (PyC09.shapeLaneletIds scenario_object)) (fun s =>
        (s, .ok)) (fun s o_ => (s, o_))) (fun s o_ => (s, o_))) else (
    if PyC09.isinst scenario_object .dynamicObstacle then (
      PyC09.tryE (Scenario_mark_object_id_as_used s (PyC09.objId scenario_object)) (fun s =>
        let s : St := { s with dyn := dictSet s.dyn (PyC09.objId scenario_object) }
        PyC09.tryE (Scenario_add_dynamic_obstacle_to_lanelets s scenario_object) (fun s =>
          (s, .ok)) (fun s o_ => (s, o_))) (fun s o_ => (s, o_))) else (
      if PyC09.isinst scenario_object .laneletNetwork then (
        let replaced_object_ids : List (Nat) := (Scenario_lanelet_network_object_ids s.net)
        PyC09.tryE (Scenario_mark_object_ids_as_used s (Scenario_lanelet_network_object_ids (PyC09.asNet scenario_object))) (fun s =>
          let s : St := { s with idSet := PyC09.setDiffUpdate s.idSet replaced_object_ids }
          let s : St := { s with net := (PyC09.asNet scenario_object) }
          (s, .ok)) (fun s o_ => (s, o_))) else (
        if PyC09.isinst scenario_object .lanelet then (
          PyC09.tryE (Scenario_mark_object_id_as_used s (PyC09.objId scenario_object)) (fun s =>
            let s : St := { s with net := (s.net).addLanelet (PyC09.asLanelet scenario_object) }
            (s, .ok)) (fun s o_ => (s, o_))) else (
          if PyC09.isinst scenario_object .trafficSign then (
            let lanelet_ids : List Nat := (if (lanelet_ids).isNone then ([] : List Nat) else (lanelet_ids.getD []))
            PyC09.tryE (Scenario_mark_object_id_as_used s (PyC09.objId scenario_object)) (fun s =>
              let s : St := { s with net := (s.net).addSign (PyC09.objId scenario_object) lanelet_ids }
              (s, .ok)) (fun s o_ => (s, o_))) else (
            if PyC09.isinst scenario_object .trafficLight then (
              let lanelet_ids : List Nat := (if (lanelet_ids).isNone then ([] : List Nat) else (lanelet_ids.getD []))
              PyC09.tryE (Scenario_mark_object_id_as_used s (PyC09.objId scenario_object)) (fun s =>
                let s : St := { s with net := (s.net).addLight (PyC09.objId scenario_object) lanelet_ids }
                (s, .ok)) (fun s o_ => (s, o_))) else (
              if PyC09.isinst scenario_object .intersection then (
                PyC09.tryE (Scenario_mark_object_ids_as_used s ([(PyC09.objId scenario_object)] ++ (PyC09.asInter scenario_object).incs)) (fun s =>
                  let s : St := { s with net := (s.net).addInter (PyC09.asInter scenario_object) }
                  (s, .ok)) (fun s o_ => (s, o_))) else (
                if PyC09.isinst scenario_object .environmentObstacle then (
                  PyC09.tryE (Scenario_mark_object_id_as_used s (PyC09.objId scenario_object)) (fun s =>
                    let s : St := { s with env := dictSet s.env (PyC09.objId scenario_object) }
                    (s, .ok)) (fun s o_ => (s, o_))) else (
                  if PyC09.isinst scenario_object .phantomObstacle then (
                    PyC09.tryE (Scenario_mark_object_id_as_used s (PyC09.objId scenario_object)) (fun s =>
                      let s : St := { s with phan := dictSet s.phan (PyC09.objId scenario_object) }
                      (s, .ok)) (fun s o_ => (s, o_))) else (
                    (s, .err .value))))))))))
