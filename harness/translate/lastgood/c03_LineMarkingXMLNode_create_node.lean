-- LineMarkingXMLNode.create_node :: b_LineMarking_create_node
def b_LineMarking_create_node : CR.SrcW.Builder where
  key := "LineMarkingXMLNode.create_node"
  kind := .node
  tag := "lineMarking"
  xsd := "lineMarking"
  path := []
  parent := ""
  attrs := []
  gattrs := []
  text := some (.enumLowerName "_")
  atoms := []
  body :=
    .skip
