-- StateXMLNode._write_goal_position :: b_State_write_goal_position b_State_write_goal_position_lanelet_n2 b_State_write_goal_position_lanelet
def b_State_write_goal_position : CR.SrcW.Builder where
  key := "StateXMLNode._write_goal_position"
  kind := .fill
  tag := ""
  xsd := "positionInterval"
  path := []
  parent := ""
  attrs := []
  gattrs := []
  text := none
  atoms := ["isinstance(position, int)", "isinstance(position, Rectangle)", "isinstance(position, Circle)", "isinstance(position, Polygon)", "isinstance(position, ShapeGroup)", "type(position) is list"]
  body :=
    (.ite (.lenPos "goal_lanelet_ids")
      (.each "goal_lanelet_ids"
        (.emit "lanelet" "StateXMLNode._write_goal_position/lanelet"))
      (.ite (.atom 0)
        (.emit "lanelet" "StateXMLNode._write_goal_position/lanelet#2")
        (.ite (.or (.atom 1) (.or (.atom 2) (.atom 3)))
          (.splice "ShapeXMLNode.create_node")
          (.ite (.atom 4)
            (.splice "ShapeXMLNode.create_node")
            (.ite (.atom 5)
              .raise
              .raise)))))

def b_State_write_goal_position_lanelet_n2 : CR.SrcW.Builder where
  key := "StateXMLNode._write_goal_position/lanelet#2"
  kind := .node
  tag := "lanelet"
  xsd := "positionInterval"
  path := ["lanelet"]
  parent := "StateXMLNode._write_goal_position"
  attrs := [("ref", (.str "position"))]
  gattrs := []
  text := none
  atoms := []
  body :=
    .skip

def b_State_write_goal_position_lanelet : CR.SrcW.Builder where
  key := "StateXMLNode._write_goal_position/lanelet"
  kind := .node
  tag := "lanelet"
  xsd := "positionInterval"
  path := ["lanelet"]
  parent := "StateXMLNode._write_goal_position"
  attrs := [("ref", (.str "it1"))]
  gattrs := []
  text := none
  atoms := []
  body :=
    .skip
