-- LocationXMLNode.create_node :: b_Location_create_node b_Location_create_node_gpsLongitude b_Location_create_node_gpsLatitude b_Location_create_node_geoNameId
def b_Location_create_node : CR.SrcW.Builder where
  key := "LocationXMLNode.create_node"
  kind := .node
  tag := "location"
  xsd := "location"
  path := []
  parent := ""
  attrs := []
  gattrs := []
  text := none
  atoms := []
  body :=
    (.seq
      (.emit "geoNameId" "LocationXMLNode.create_node/geoNameId")
      (.seq
        (.emit "gpsLatitude" "LocationXMLNode.create_node/gpsLatitude")
        (.seq
          (.emit "gpsLongitude" "LocationXMLNode.create_node/gpsLongitude")
          (.seq
            (.ite (.notNone "_.geo_transformation")
              (.emit "geoTransformation" "GeoTransformationXMLNode.create_node")
              .skip)
            (.ite (.notNone "_.environment")
              (.emit "environment" "EnvironmentXMLNode.create_node")
              .skip)))))

def b_Location_create_node_gpsLongitude : CR.SrcW.Builder where
  key := "LocationXMLNode.create_node/gpsLongitude"
  kind := .node
  tag := "gpsLongitude"
  xsd := "location"
  path := ["gpsLongitude"]
  parent := "LocationXMLNode.create_node"
  attrs := []
  gattrs := []
  text := some (.decimalToStr "_.gps_longitude")
  atoms := []
  body :=
    .skip

def b_Location_create_node_gpsLatitude : CR.SrcW.Builder where
  key := "LocationXMLNode.create_node/gpsLatitude"
  kind := .node
  tag := "gpsLatitude"
  xsd := "location"
  path := ["gpsLatitude"]
  parent := "LocationXMLNode.create_node"
  attrs := []
  gattrs := []
  text := some (.decimalToStr "_.gps_latitude")
  atoms := []
  body :=
    .skip

def b_Location_create_node_geoNameId : CR.SrcW.Builder where
  key := "LocationXMLNode.create_node/geoNameId"
  kind := .node
  tag := "geoNameId"
  xsd := "location"
  path := ["geoNameId"]
  parent := "LocationXMLNode.create_node"
  attrs := []
  gattrs := []
  text := some (.str "_.geo_name_id")
  atoms := []
  body :=
    .skip
