/-- commonroad/scenario/lanelet.py: LaneletNetwork.__getstate__ — the pickled attribute dict: the object's attributes without `_strtee` -/
def LaneletNetwork_getstate (self : CR.Index.Net) : CR.Index.Net :=
  let state := self
  let state := { state with tree := none }
  state
