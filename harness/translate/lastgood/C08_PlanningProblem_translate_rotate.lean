/-- commonroad/planning/planning_problem.py: PlanningProblem.translate_rotate — structural extraction: (moved part, arguments, enclosing loop, where the result is stored) -/
def PlanningProblem_translate_rotate_moves : List (String × String × String × String) := [("self.initial_state", "translation, angle", "", "self.initial_state"), ("self.goal", "translation, angle", "", "")]
/-- the kinds of the statements of the body, in order -/
def PlanningProblem_translate_rotate_stmts : String := "Assign Expr"
