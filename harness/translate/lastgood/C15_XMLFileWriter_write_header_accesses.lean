/-- commonroad/common/writer/file_writer_xml.py: XMLFileWriter._write_header — ordered state accesses (structural extraction) -/
def XMLFileWriter_write_header_accesses : List CR.PyW.Access :=
  [("set", "self._root_node", "timeStepSize"),
   ("set", "self._root_node", "commonRoadVersion"),
   ("set", "self._root_node", "author"),
   ("set", "self._root_node", "affiliation"),
   ("set", "self._root_node", "source"),
   ("if", "", "self.scenario.scenario_id"),
   ("set", "self._root_node", "benchmarkID"),
   ("else", "", ""),
   ("endif", "", ""),
   ("except", "", "Exception"),
   ("set", "self._root_node", "benchmarkID"),
   ("set-from-clock", "self._root_node", "date")]
