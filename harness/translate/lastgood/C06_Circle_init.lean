/-- commonroad/geometry/shape.py: Circle.__init__ — constructor: `_shapely_circle = None`, the two property setters, then the export is built -/
def Circle_init (radius : Rat) (center : Option CR.Geom.Pt) : CR.ShapeObj.CircObj :=
  let self : CR.ShapeObj.CircObj := ⟨0, ⟨0, 0⟩, none⟩
  let self := { self with shapely := none }
  let self := Circle_set_radius self radius
  let self := Circle_set_center self (center.getD ⟨0, 0⟩)
  let self := (Circle_update_shapely_circle self)
  self
