/-- commonroad/scenario/scenario.py: Scenario.remove_intersection — list form -/
def Scenario_remove_intersection_list (s : St) (intersection : List (Inter)) : St × Out :=
  PyC09.tryE (PyC09.forE (fun s inter =>
      PyC09.tryE (Scenario_remove_intersection s inter) (fun s =>
        (s, .ok)) (fun s o_ => (s, o_))) s (intersection)) (fun s =>
    (s, .ok)) (fun s o_ =>
    (s, o_))
