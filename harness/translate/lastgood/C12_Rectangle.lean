/-- commonroad/geometry/shape.py: Rectangle.__eq__ / Rectangle.__hash__ -/
def src_Rectangle : ClassSrc :=
  { guard := "Rectangle",
    eqs := [
      ⟨"length", [(.eq .id)]⟩,
      ⟨"width", [(.eq .id)]⟩,
      ⟨"center", [(.eq (.rkey 10))]⟩,
      ⟨"orientation", [(.eq .id)]⟩],
    hashes := [
      ⟨"length", .it⟩,
      ⟨"width", .it⟩,
      ⟨"center", (.optNone (.rkey 10))⟩,
      ⟨"orientation", .it⟩] }
