/-- commonroad/geometry/shape.py: in_axis_aligned_bounding_box -/
def Polygon_contains_point.in_axis_aligned_bounding_box (self : CR.ShapeObj.PolyShape) (point : CR.Geom.Pt) : Bool :=
  ((CR.Py06.all (CR.Py06.lessEqual self.min point)) && (CR.Py06.all (CR.Py06.lessEqual point self.max)))

/-- commonroad/geometry/shape.py: Polygon.contains_point — `ptIn ring p` is shapely's polygon.intersects(Point(p)) -/
def Polygon_contains_point (ptIn : List CR.Geom.Pt → CR.Geom.Pt → Bool) (self : CR.ShapeObj.PolyShape) (point : CR.Geom.Pt) : Bool :=
  ((Polygon_contains_point.in_axis_aligned_bounding_box self point) && (ptIn self.ring point))
