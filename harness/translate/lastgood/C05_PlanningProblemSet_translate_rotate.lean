/-- commonroad/planning/planning_problem.py: PlanningProblemSet.translate_rotate -/
def PlanningProblemSet_translate_rotate (m : CR.Rigid.Mo) (l : List CR.Rigid.Problem) : Res (List CR.Rigid.Problem) := do
  let mut l := l
  l ← CR.PyC05.forEach (fun planning_problem => CR.Rigid.Problem.move m planning_problem) l
  return l
