/-- commonroad/planning/planning_problem.py: PlanningProblemSet.translate_rotate — the body of its loop `for planning_problem in ...` on the reference view: `st` = the heap of referenced objects and the local lists of references -/
def PlanningProblemSet_translate_rotate_loop1 (m : CR.Rigid.Mo) (st : List (List CR.Rigid.State) × List Nat) (planning_problem : CR.Rigid.State × Nat) : Res ((CR.Rigid.State × Nat) × (List (List CR.Rigid.State) × List Nat)) := do
  let mut heap := st.1
  let mut moved_goal_regions := st.2
  let mut planning_problem_initial_state := planning_problem.1
  if (moved_goal_regions.any (fun goal_region => decide (planning_problem.2 = goal_region))) then
    planning_problem_initial_state := (← CR.Rigid.State.move m planning_problem_initial_state)
  else
    let o_1 ← CR.Rigid.Problem.move m (⟨planning_problem_initial_state, (CR.Rigid.goalAt heap planning_problem.2)⟩ : CR.Rigid.Problem)
    planning_problem_initial_state := o_1.init
    heap := heap.set planning_problem.2 o_1.goal
    moved_goal_regions := moved_goal_regions ++ [planning_problem.2]
  return ((planning_problem_initial_state, planning_problem.2), (heap, moved_goal_regions))

/-- commonroad/planning/planning_problem.py: PlanningProblemSet.translate_rotate — on the reference view: `ps.goals` = the GoalRegion objects (an index is an identity), a problem = (initial state, index of the goal-region object it holds); `x.translate_rotate` on a problem = PlanningProblem.translate_rotate on the dereferenced record (model Problem.move, tied above), the moved goal region written back to the heap -/
def PlanningProblemSet_translate_rotate (m : CR.Rigid.Mo) (ps : CR.Rigid.ProblemSet) : Res (CR.Rigid.ProblemSet) := do
  let mut l := ps.problems
  let heap := ps.goals
  let moved_goal_regions : List Nat := []
  let r_2 ← CR.PyC05.forEachS (PlanningProblemSet_translate_rotate_loop1 m) (heap, moved_goal_regions) l
  l := r_2.1
  let heap := r_2.2.1
  let moved_goal_regions := r_2.2.2
  return (⟨heap, l⟩ : CR.Rigid.ProblemSet)
