@[simp] def Lanelet_compute_polyline_cumsum_dist.for1 (norm : CR.Arc.Pt → Rat) (polylines : List (List CR.Arc.Pt))  :=
  fun d polyline =>
    let d := d ++ [(CR.PyC20.diff polyline)]
    d

@[simp] def Lanelet_compute_polyline_cumsum_dist.for2 (norm : CR.Arc.Pt → Rat) (polylines : List (List CR.Arc.Pt))  :=
  fun segment_distances (i, d_tmp) =>
    let segment_distances := CR.PyC20.setCol segment_distances i (CR.PyC20.append [0] (CR.PyC20.rowNorms norm d_tmp))
    segment_distances

/-- commonroad/scenario/lanelet.py: Lanelet._compute_polyline_cumsum_dist — `norm` stands for the Euclidean norm of a difference vector; `comparator` is its default np.amin -/
def Lanelet_compute_polyline_cumsum_dist (norm : CR.Arc.Pt → Rat) (polylines : List (List CR.Arc.Pt)) : List Rat :=
  let d := []
  let d := (polylines).foldl (Lanelet_compute_polyline_cumsum_dist.for1 norm polylines) d
  let segment_distances := (CR.PyC20.empty (((CR.PyC20.item polylines 0)).length : Int) ((polylines).length : Int))
  let segment_distances := ((CR.PyC20.enumerate d)).foldl (Lanelet_compute_polyline_cumsum_dist.for2 norm polylines) segment_distances
  (CR.PyC20.cumsum (CR.PyC20.aminRows segment_distances))
