/-- commonroad/geometry/shape.py: Polygon.__eq__ / Polygon.__hash__ -/
def src_Polygon : ClassSrc :=
  { guard := "Polygon",
    eqs := [
      ⟨"vertices", [(.eq (.rkey 10))]⟩],
    hashes := [
      ⟨"vertices", (.rkey 10)⟩] }
