/-- commonroad/scenario/lanelet.py: LaneletNetwork.translate_rotate — the dicts id -> object as lists in insertion order; the spatial index rebuilt at the end is not modelled -/
def LaneletNetwork_translate_rotate (m : CR.Rigid.Mo) (net : List CR.Rigid.Lanelet × List CR.Rigid.Pt × List CR.Rigid.Light × List (List (List CR.Rigid.Pt))) : Res (List CR.Rigid.Lanelet × List CR.Rigid.Pt × List CR.Rigid.Light × List (List (List CR.Rigid.Pt))) := do
  let mut ls := net.1
  let mut sg := net.2.1
  let mut lt := net.2.2.1
  let mut ar := net.2.2.2
  CR.Py.assert (CR.Iv.validOrientation m.τ m.a)
  ls ← CR.PyC05.forEach (fun lanelet => CR.Rigid.Lanelet.move m lanelet) ls
  sg ← CR.PyC05.forEach (fun traffic_sign => CR.Rigid.movePosition m traffic_sign) sg
  lt ← CR.PyC05.forEach (fun traffic_light => CR.Rigid.Light.move m traffic_light) lt
  ar ← CR.PyC05.forEach (fun area => Area_translate_rotate m area) ar
  return (ls, sg, lt, ar)
