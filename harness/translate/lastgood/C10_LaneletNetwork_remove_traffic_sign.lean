/-- commonroad/scenario/lanelet.py: LaneletNetwork.remove_traffic_sign -/
def LaneletNetwork_remove_traffic_sign (self : CR.Refs.Net) (traffic_sign_id : CR.Refs.Id) : CR.Refs.Net :=
  let self :=
    if (CR.PyR.mem traffic_sign_id self.sids) then
      let self := { self with signs := self.signs.filter (fun e => e.1 != traffic_sign_id) }
      let self := (LaneletNetwork_cleanup_traffic_sign_references self)
      self
    else
      self
  self
