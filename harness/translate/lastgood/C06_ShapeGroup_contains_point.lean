/-- commonroad/geometry/shape.py: ShapeGroup.contains_point — `containsPt s p` is the member's own contains_point (dynamic dispatch) -/
def ShapeGroup_contains_point (containsPt : CR.Geom.Prim → CR.Geom.Pt → Bool) (shapes : List CR.Geom.Prim) (point : CR.Geom.Pt) : Bool :=
  match CR.Py06.lfindSome (shapes) (fun x1_ => if (containsPt x1_ point) then some true else none) with
  | some r2_ => r2_
  | none =>
    false
