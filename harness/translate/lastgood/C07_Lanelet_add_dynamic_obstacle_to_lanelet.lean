/-- commonroad/scenario/lanelet.py: Lanelet.add_dynamic_obstacle_to_lanelet — `self` is the lanelet (named by its id) whose registry in `s` is updated -/
def Lanelet_add_dynamic_obstacle_to_lanelet (s : CR.Assign.St) (self : CR.Assign.Id) (obstacle_id : Int) (time_step : Int) : Res CR.Assign.St := do
  let s ← (
    if ((CR.PyC07.ddictGet s self time_step)).isNone then do
      let s := CR.PyC07.ddictSet s self time_step []
      pure s
    else do
      pure s)
  let s ← CR.PyC07.ddictAddAt s self time_step obstacle_id
  return s
