/-- commonroad/common/writer/file_writer_protobuf.py FloatIntervalMessage.create_message -/
def W_FloatInterval (a b : Dbl) : PB :=
  PB.msg [("start", (PB.dbl a)), ("end", (PB.dbl b))]
