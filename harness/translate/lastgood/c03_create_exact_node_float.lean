-- create_exact_node_float :: b_create_exact_node_float
def b_create_exact_node_float : CR.SrcW.Builder where
  key := "create_exact_node_float"
  kind := .node
  tag := "exact"
  xsd := "xs:decimal"
  path := []
  parent := ""
  attrs := []
  gattrs := []
  text := some (.floatToStr "_")
  atoms := []
  body :=
    .skip
