/-- commonroad/scenario/area.py: AreaBorder.translate_rotate -/
def AreaBorder_translate_rotate (m : CR.Rigid.Mo) (vs : List CR.Rigid.Pt) : Res (List CR.Rigid.Pt) := do
  let mut vs := vs
  vs := (transform_translate_rotate m.c m.s m.a vs m.t)
  return vs
