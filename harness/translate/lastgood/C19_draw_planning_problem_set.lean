/-- commonroad/visualization/mp_renderer.py: MPRenderer.draw_planning_problem_set — `obj` = the keys of `planning_problem_dict` in order, the group = its `draw_ids`; emits the ids drawn -/
def draw_planning_problem_set (draw_params : Option (List Int)) (obj : List Int) : List Int := Id.run do
  let mut out : List Int := []
  out := out ++ (obj).flatMap (fun pp_id => Id.run do
      let mut out : List Int := []
      if (draw_params.isNone || (CR.PyC19.optContains draw_params pp_id)) then
        out := out ++ [pp_id]
      return out)
  return out
