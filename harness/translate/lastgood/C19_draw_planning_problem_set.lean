/-- commonroad/visualization/mp_renderer.py: MPRenderer.draw_planning_problem_set — `obj` = the keys of `planning_problem_dict` in order, the group = its `draw_ids`; emits the ids drawn -/
def draw_planning_problem_set (draw_params : Option (List Int)) (obj : List Int) : List Int :=
  let out : List Int := []
  let out := out ++ (obj).flatMap (fun pp_id =>
      let out : List Int := []
      let r1 := if (draw_params.isNone || (CR.PyC19.optContains draw_params pp_id)) then
          let out : List Int := []
          let out := out ++ [pp_id]
          out
        else
          let out : List Int := []
          out
      let out := out ++ r1
      out)
  out
