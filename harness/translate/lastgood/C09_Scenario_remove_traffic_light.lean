/-- commonroad/scenario/scenario.py: Scenario.remove_traffic_light -/
def Scenario_remove_traffic_light (s : St) (traffic_light : Nat) : St × Out :=
  if ((PyC09.findLight s.net traffic_light)).isNone then (
    (s, .err .key)) else (
    let s : St := { s with net := (s.net).removeLight traffic_light }
    PyC09.tryE (PyC09.idSetRemove s traffic_light) (fun s =>
      (s, .ok)) (fun s o_ => (s, o_)))
