/-- commonroad/common/util.py: Interval.contains — argument is a number -/
def Interval_contains_num (self : CR.Iv.I) (other : Rat) : Bool := Id.run do
  return (decide (self.lo ≤ other) && decide (other ≤ self.hi))
