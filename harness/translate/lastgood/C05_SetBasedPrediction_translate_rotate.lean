/-- commonroad/prediction/prediction.py: SetBasedPrediction.translate_rotate -/
def SetBasedPrediction_translate_rotate (m : CR.Rigid.Mo) (shs : List CR.Rigid.Shape) : Res (List CR.Rigid.Shape) := do
  let mut shs := shs
  CR.Py.assert (CR.Iv.validOrientation m.τ m.a)
  shs ← CR.PyC05.forEach (fun occ => Occupancy_translate_rotate m occ) shs
  return shs
