-- TrafficSignXMLNode.create_node :: b_TrafficSign_create_node b_TrafficSign_create_node_virtual b_TrafficSign_create_node_position b_TrafficSign_create_node_trafficSignElement b_TrafficSign_create_node_trafficSignElement_additionalValue b_TrafficSign_create_node_trafficSignElement_trafficSignID
def b_TrafficSign_create_node : CR.SrcW.Builder where
  key := "TrafficSignXMLNode.create_node"
  kind := .node
  tag := "trafficSign"
  xsd := "trafficSign"
  path := []
  parent := ""
  attrs := [("id", (.str "_.traffic_sign_id"))]
  gattrs := []
  text := none
  atoms := ["str(it1.traffic_sign_element_id.value) == ''"]
  body :=
    (.seq
      (.each "_.traffic_sign_elements"
        (.emit "trafficSignElement" "TrafficSignXMLNode.create_node/trafficSignElement"))
      (.seq
        (.ite (.notNone "_.position")
          (.emit "position" "TrafficSignXMLNode.create_node/position")
          .skip)
        (.ite (.notNone "_.virtual")
          (.emit "virtual" "TrafficSignXMLNode.create_node/virtual")
          .skip)))

def b_TrafficSign_create_node_virtual : CR.SrcW.Builder where
  key := "TrafficSignXMLNode.create_node/virtual"
  kind := .node
  tag := "virtual"
  xsd := "trafficSign"
  path := ["virtual"]
  parent := "TrafficSignXMLNode.create_node"
  attrs := []
  gattrs := []
  text := some (.strLower "_.virtual")
  atoms := []
  body :=
    .skip

def b_TrafficSign_create_node_position : CR.SrcW.Builder where
  key := "TrafficSignXMLNode.create_node/position"
  kind := .node
  tag := "position"
  xsd := "trafficSign"
  path := ["position"]
  parent := "TrafficSignXMLNode.create_node"
  attrs := []
  gattrs := []
  text := none
  atoms := []
  body :=
    (.emit "point" "Point.create_node")

def b_TrafficSign_create_node_trafficSignElement : CR.SrcW.Builder where
  key := "TrafficSignXMLNode.create_node/trafficSignElement"
  kind := .node
  tag := "trafficSignElement"
  xsd := "trafficSign"
  path := ["trafficSignElement"]
  parent := "TrafficSignXMLNode.create_node"
  attrs := []
  gattrs := []
  text := none
  atoms := []
  body :=
    (.seq
      (.emit "trafficSignID" "TrafficSignXMLNode.create_node/trafficSignElement/trafficSignID")
      (.each "it1.additional_values"
        (.emit "additionalValue" "TrafficSignXMLNode.create_node/trafficSignElement/additionalValue")))

def b_TrafficSign_create_node_trafficSignElement_additionalValue : CR.SrcW.Builder where
  key := "TrafficSignXMLNode.create_node/trafficSignElement/additionalValue"
  kind := .node
  tag := "additionalValue"
  xsd := "trafficSign"
  path := ["trafficSignElement", "additionalValue"]
  parent := "TrafficSignXMLNode.create_node/trafficSignElement"
  attrs := []
  gattrs := []
  text := some (.str "it2")
  atoms := []
  body :=
    .skip

def b_TrafficSign_create_node_trafficSignElement_trafficSignID : CR.SrcW.Builder where
  key := "TrafficSignXMLNode.create_node/trafficSignElement/trafficSignID"
  kind := .node
  tag := "trafficSignID"
  xsd := "trafficSign"
  path := ["trafficSignElement", "trafficSignID"]
  parent := "TrafficSignXMLNode.create_node/trafficSignElement"
  attrs := []
  gattrs := []
  text := some (.enumValue "it1.traffic_sign_element_id")
  atoms := []
  body :=
    .skip
