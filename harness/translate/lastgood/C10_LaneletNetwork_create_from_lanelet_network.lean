/-- commonroad/scenario/lanelet.py: LaneletNetwork.create_from_lanelet_network — the whole function = prefix up to the first loop (cut_select), the loop over the old intersections (its body is cut_intersection, `add_intersection` the call-table entry PyR.addInter), the tail (cut_assemble); the translator checks that these three pieces are consecutive and exhaust the body -/
def LaneletNetwork_create_from_lanelet_network (lanelet_network : CR.Refs.Net) (keep : CR.Refs.Id → Bool) (cleanup_ids : Bool) : CR.Res CR.Refs.Net :=
  let sel := LaneletNetwork_cut_select lanelet_network keep
  let new_lanelet_network := lanelet_network.inters.foldl (fun new_lanelet_network (old_intersection : CR.Refs.Intersection) =>
      CR.PyR.addInterO new_lanelet_network (LaneletNetwork_cut_intersection sel.1 old_intersection)) CR.PyR.emptyNet
  LaneletNetwork_cut_assemble lanelet_network new_lanelet_network sel.1 sel.2.1 sel.2.2 cleanup_ids
