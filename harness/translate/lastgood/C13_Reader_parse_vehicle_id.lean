/-- commonroad/common/solution.py: CommonRoadSolutionReader._parse_vehicle_id -/
def Reader_parse_vehicle_id (vehicle_id : Str) : Res ((CR.BenchId.VModel) × (CR.BenchId.VType)) := do
  if ((!decide ((((vehicle_id).length : Nat) : Int) = (3 : Int))) && (!decide ((((vehicle_id).length : Nat) : Int) = (4 : Int)))) then
    throw CR.Err.other
  else
    if (!((((CR.BenchId.VModel.all).map (fun vmodel => (vmodel).name))).contains (vehicle_id).dropLast)) then
      throw CR.Err.other
    else
      if (!((((CR.BenchId.VType.all).map (fun vtype => (((vtype).value : Nat) : Int)))).contains (← CR.PyC13.pyInt [(← CR.Py.getItem vehicle_id (-(1 : Int)))]))) then
        throw CR.Err.other
      else
        return ((← CR.PyC13.enumByName CR.BenchId.VModel.all CR.BenchId.VModel.name (vehicle_id).dropLast), (← CR.PyC13.enumByValue CR.BenchId.VType.all (fun m => ((m.value : Nat) : Int)) (← CR.PyC13.pyInt [(← CR.Py.getItem vehicle_id (-(1 : Int)))])))
