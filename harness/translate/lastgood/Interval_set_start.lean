/-- commonroad/common/util.py: Interval.start — property setter on a partially initialised object (start?, end?) -/
def Interval_set_start (self : Option Rat × Option Rat) (start : Rat) : Res (Option Rat × Option Rat) := do
  if (self.2).isSome then
    CR.Py.assert (decide (start ≤ (self.2.getD 0)))
    let self := ((some start), self.2)
    return self
  else
    let self := ((some start), self.2)
    return self
