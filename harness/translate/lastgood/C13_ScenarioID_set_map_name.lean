/-- commonroad/scenario/scenario.py: ScenarioID.map_name — property setter: the value `_map_name` is left with -/
def ScenarioID_set_map_name (map_name : Str) : Str := Id.run do
  let pattern : Str := (['[', '^', 'a', '-', 'z', 'A', '-', 'Z', '0', '-', '9', ']'] : Str)
  let cleaned_map_name : Str := (CR.PyC13.delClass true [('a', 'z'), ('A', 'Z'), ('0', '9')] map_name)
  let self__map_name : Str := cleaned_map_name
  return self__map_name
