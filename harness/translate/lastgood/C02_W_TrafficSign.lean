/-- commonroad/common/writer/file_writer_protobuf.py TrafficSignMessage.create_message -/
def W_TrafficSign (s : Sign) : PB :=
  PB.msg [("traffic_sign_id", (PB.u32 s.id)), ("traffic_sign_elements", PB.rep (List.map (fun x1 => (W_TrafficSignElement x1)) s.elements)), ("first_occurrences", PB.rep (List.map (fun x2 => (PB.u32 x2)) s.first)), ("position", (PB.ofOpt (Option.map (fun x3 => (W_Point x3)) s.pos))), ("virtual", (PB.ofOpt (Option.map (fun x4 => (PB.bool x4)) s.virtual)))]
