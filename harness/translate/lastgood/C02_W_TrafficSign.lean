/-- commonroad/common/writer/file_writer_protobuf.py TrafficSignMessage.create_message -/
def W_TrafficSign (s : Sign) : PB :=
  PB.msg [("traffic_sign_id", (PB.u32 s.id)), ("traffic_sign_elements", PB.rep (List.map (fun v1 => (W_TrafficSignElement v1)) s.elements)), ("first_occurrences", PB.rep (List.map (fun v2 => (PB.u32 v2)) s.first)), ("position", (PB.ofOpt (Option.map (fun v3 => (W_Point v3)) s.pos))), ("virtual", (PB.ofOpt (Option.map (fun v4 => (PB.bool v4)) s.virtual)))]
