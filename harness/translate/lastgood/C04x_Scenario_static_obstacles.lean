/-- commonroad/scenario/scenario.py: Scenario.static_obstacles -/
def Scenario_static_obstacles (s : CR.Occ.Scn) : List (Nat × CR.Occ.Obst) := Id.run do
  return (CR.PyC04.values s.st)
