/-- commonroad/scenario/lanelet.py: LaneletNetwork.find_lanelet_by_position — `within tol ring p` is shapely's dwithin(polygon, point, tol); the pairs (input index, tree index) of STRtree.query are CR.Py06.strQueryDwithin -/
def LaneletNetwork_find_lanelet_by_position (within : Rat → List CR.Geom.Pt → CR.Geom.Pt → Bool) (self : CR.Index.Net) (point_list : List CR.Geom.Pt) : Res (List (List Int)) := do
  if decide (((point_list).length : Int) = 0) then
    return []
  else
    let shapely_points := (CR.Py06.lmap (point_list) (fun e1_ => e1_))
    let tolerance := (1 / 1000000000000000 : Rat)
    let geometry_ids := (← CR.Py06.strQueryDwithin within self.tree shapely_points tolerance)
    let lanelet_ids : List (Int × List Int) := []
    let lanelet_ids ← CR.Py06.lfoldlM (geometry_ids) lanelet_ids (fun lanelet_ids x2_ => do
        let lanelet_shapely_polygon := (← CR.Py06.treeGeom self.tree x2_.2)
        let lanelet_id := (← LaneletNetwork_get_lanelet_id_by_shapely_polygon self lanelet_shapely_polygon)
        let lanelet_ids := CR.Py06.ddAppend lanelet_ids x2_.1 lanelet_id
        return lanelet_ids)
    let res := (CR.Py06.lmap ((CR.Py06.enumerate point_list)) (fun e4_ => (CR.Py06.ddGet lanelet_ids e4_.1)))
    return res
