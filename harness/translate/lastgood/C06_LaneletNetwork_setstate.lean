/-- commonroad/scenario/lanelet.py: LaneletNetwork.__setstate__ — `self.__dict__.update(state)` on a fresh object: the object's attributes are those of `state` -/
def LaneletNetwork_setstate (state : CR.Index.Net) : CR.Index.Net :=
  let self := state
  let self := (LaneletNetwork_create_strtree self)
  self
