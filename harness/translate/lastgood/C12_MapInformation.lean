/-- commonroad/scenario/lanelet.py: MapInformation.__eq__ / MapInformation.__hash__ -/
def src_MapInformation : ClassSrc :=
  { guard := "MapInformation",
    eqs := [
      ⟨"commonroad_version", [(.eq .id)]⟩,
      ⟨"map_id", [(.eq .id)]⟩,
      ⟨"date", [(.eq .id)]⟩,
      ⟨"author", [(.eq .id)]⟩,
      ⟨"affiliation", [(.eq .id)]⟩,
      ⟨"source", [(.eq .id)]⟩,
      ⟨"licence_name", [(.eq .id)]⟩,
      ⟨"licence_text", [(.eq .id)]⟩],
    hashes := [
      ⟨"commonroad_version", .it⟩,
      ⟨"map_id", .it⟩,
      ⟨"date", .it⟩,
      ⟨"author", .it⟩,
      ⟨"affiliation", .it⟩,
      ⟨"source", .it⟩,
      ⟨"licence_name", .it⟩,
      ⟨"licence_text", .it⟩] }
