-- XMLFileWriter._add_all_planning_problems_from_planning_problem_set :: b_XMLFileWriter_add_all_planning_problems_from_planning_problem_set
def b_XMLFileWriter_add_all_planning_problems_from_planning_problem_set : CR.SrcW.Builder where
  key := "XMLFileWriter._add_all_planning_problems_from_planning_problem_set"
  kind := .fill
  tag := ""
  xsd := "/commonRoad"
  path := []
  parent := ""
  attrs := []
  gattrs := []
  text := none
  atoms := []
  body :=
    (.each "_.planning_problem_set.planning_problem_dict.values()"
      (.emit "planningProblem" "PlanningProblemXMLNode.create_node"))
