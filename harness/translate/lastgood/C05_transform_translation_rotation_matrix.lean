/-- commonroad/geometry/transform.py: translation_rotation_matrix — c = math.cos(angle), s = math.sin(angle), a = angle -/
def transform_translation_rotation_matrix (c s a : Rat) (translation : CR.Rigid.Pt) : CR.PyC05.M3 := Id.run do
  let mut translation_matrix := (CR.PyC05.M3.mk 1 0 translation.x 0 1 translation.y 0 0 1)
  let mut cos_angle := c
  let mut sin_angle := s
  let mut rotation_matrix := (CR.PyC05.M3.mk cos_angle (-sin_angle) 0 sin_angle cos_angle 0 0 0 1)
  return (CR.PyC05.M3.dot rotation_matrix translation_matrix)
