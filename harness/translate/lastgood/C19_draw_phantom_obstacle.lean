/-- commonroad/visualization/mp_renderer.py: MPRenderer.draw_phantom_obstacle -/
def draw_phantom_obstacle (draw_params : CR.Draw.PhFlags) (obj : CR.Draw.Obst) : List Item := Id.run do
  let mut out : List Item := []
  let mut occ : Option CR.PyC19.OccH := none
  let mut occ_time_begin : Int := 0
  let mut time_begin : Int := draw_params.tb
  let mut time_end : Int := draw_params.te
  if draw_params.drawShape then
    occ := (CR.PyC19.occupancyAt obj time_begin)
    if occ.isSome then
      out := out ++ [Item.occ (occ.getD default).t]
  if draw_params.drawOccupancies then
    if draw_params.drawShape then
      occ_time_begin := (time_begin + 1)
    else
      occ_time_begin := time_begin
    out := out ++ ((CR.Draw.pyRange occ_time_begin time_end)).flatMap (fun time_step => Id.run do
        let mut out : List Item := []
        let mut occ : Option CR.PyC19.OccH := (CR.PyC19.occupancyAt obj time_step)
        if occ.isSome then
          out := out ++ [Item.occ (occ.getD default).t]
        return out)
  return out
