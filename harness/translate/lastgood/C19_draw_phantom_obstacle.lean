/-- commonroad/visualization/mp_renderer.py: MPRenderer.draw_phantom_obstacle -/
def draw_phantom_obstacle (draw_params : CR.Draw.PhFlags) (obj : CR.Draw.Obst) : List Item :=
  let out : List Item := []
  let time_begin : Int := draw_params.tb
  let time_end : Int := draw_params.te
  let occ : Option CR.PyC19.OccH := none
  let r2 := if draw_params.drawShape then
      let out : List Item := []
      let occ : Option CR.PyC19.OccH := (CR.PyC19.occupancyAt obj time_begin)
      let r1 := if occ.isSome then
          let out : List Item := []
          let out := out ++ [Item.occ (occ.getD default).t]
          out
        else
          let out : List Item := []
          out
      let out := out ++ r1
      (out, occ)
    else
      let out : List Item := []
      (out, occ)
  let out := out ++ r2.1
  let occ := r2.2
  let occ_time_begin : Int := 0
  let r5 := if draw_params.drawOccupancies then
      let out : List Item := []
      let occ_time_begin : Int := 0
      let r3 := if draw_params.drawShape then
          let out : List Item := []
          let occ_time_begin : Int := (time_begin + 1)
          (out, occ_time_begin)
        else
          let out : List Item := []
          let occ_time_begin : Int := time_begin
          (out, occ_time_begin)
      let out := out ++ r3.1
      let occ_time_begin := r3.2
      let out := out ++ ((CR.Draw.pyRange occ_time_begin time_end)).flatMap (fun time_step =>
          let out : List Item := []
          let occ : Option CR.PyC19.OccH := (CR.PyC19.occupancyAt obj time_step)
          let r4 := if occ.isSome then
              let out : List Item := []
              let out := out ++ [Item.occ (occ.getD default).t]
              out
            else
              let out : List Item := []
              out
          let out := out ++ r4
          out)
      (out, occ_time_begin)
    else
      let out : List Item := []
      (out, occ_time_begin)
  let out := out ++ r5.1
  let occ_time_begin := r5.2
  out
