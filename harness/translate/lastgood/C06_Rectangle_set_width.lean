/-- commonroad/geometry/shape.py: Rectangle.width — the validity asserts on the argument are outside the model (well-typed arguments) -/
def Rectangle_set_width (self : CR.ShapeObj.RectObj) (width : Rat) : CR.ShapeObj.RectObj :=
  let self := { self with width := width }
  let self := (Rectangle_invalidate_vertices self)
  self
