/-- commonroad/common/solution.py: CommonRoadSolutionReader._parse_sub_element — a state node is the list of its children; the float / int result is an FVal -/
def Sol_parse_sub_element (c : CR.Sol.Codec) (state_node : List CR.Sol.Leaf) (name : String) (as_float : Bool) : Res (CR.Sol.FVal) := do
  let elem := (CR.Sol.findLeaf name state_node)
  match elem with
  | some elem =>
    let value := (← (if as_float then do pure (CR.Sol.FVal.num (← CR.PyS.float c elem.text)) else do pure (CR.Sol.FVal.time (← CR.PyS.int c elem.text))))
    return value
  | none =>
    throw CR.Err.other
