/-- commonroad/scenario/scenario.py: Scenario._mark_object_id_as_used -/
def Scenario_mark_object_id_as_used (s : St) (object_id : Nat) : St × Out :=
  let s := if (s.counter).isNone then (
    let s : St := { s with counter := some object_id }
    s) else (
    s)
  if (Scenario_is_object_id_used s object_id) then (
    (s, .err .value)) else (
    let s : St := { s with idSet := PyC09.setAdd s.idSet object_id }
    (s, .ok))
