/-- commonroad/geometry/shape.py: Polygon.vertices — the vertices setter (run by the constructor): bounding box and shapely polygon; `_vertices` (the re-oriented export) is not read by the containment test -/
def Polygon_set_vertices (vertices : List CR.Geom.Pt) : CR.ShapeObj.PolyShape :=
  let self : CR.ShapeObj.PolyShape := ⟨⟨0, 0⟩, ⟨0, 0⟩, []⟩
  let self := { self with min := (CR.ShapeObj.colMin vertices) }
  let self := { self with max := (CR.ShapeObj.colMax vertices) }
  let self := { self with ring := vertices }
  self
