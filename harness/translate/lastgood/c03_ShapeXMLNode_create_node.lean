-- ShapeXMLNode.create_node :: b_Shape_create_node
def b_Shape_create_node : CR.SrcW.Builder where
  key := "ShapeXMLNode.create_node"
  kind := .list
  tag := ""
  xsd := "shape"
  path := []
  parent := ""
  attrs := []
  gattrs := []
  text := none
  atoms := ["isinstance(_, ShapeGroup)"]
  body :=
    (.ite (.atom 0)
      (.each "_.shapes"
        (.splice "ShapeXMLNode._create_single_element"))
      (.splice "ShapeXMLNode._create_single_element"))
