/-- commonroad/common/solution.py: CommonRoadSolutionWriter._create_sub_element -/
def Sol_create_sub_element (c : CR.Sol.Codec) (name : String) (value : CR.Sol.FVal) : Res (CR.Sol.Leaf) := do
  let element := (CR.Sol.Leaf.mk name "")
  let element := { element with text := (← CR.PyS.str c (if (CR.PyS.isFloat value) then (CR.PyS.npFloat64 value) else value)) }
  return element
