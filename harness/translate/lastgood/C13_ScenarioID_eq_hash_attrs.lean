/-- scenario/scenario.py: ScenarioID.__eq__ — the attributes compared (one conjunction of `self.a == other.a`) -/
def ScenarioID_eq_attrs : List String := ["cooperative", "country_id", "map_name", "map_id", "configuration_id", "obstacle_behavior", "prediction_id", "scenario_version"]

/-- scenario/scenario.py: ScenarioID.__hash__ — the attributes in the hashed tuple -/
def ScenarioID_hash_attrs : List String := ["cooperative", "country_id", "map_name", "map_id", "configuration_id", "obstacle_behavior", "prediction_id", "scenario_version"]
