-- TrafficLightCycleElementXMLNode.create_node :: b_TrafficLightCycleElement_create_node b_TrafficLightCycleElement_create_node_color b_TrafficLightCycleElement_create_node_duration
def b_TrafficLightCycleElement_create_node : CR.SrcW.Builder where
  key := "TrafficLightCycleElementXMLNode.create_node"
  kind := .node
  tag := "cycleElement"
  xsd := "trafficCycleElement"
  path := []
  parent := ""
  attrs := []
  gattrs := []
  text := none
  atoms := []
  body :=
    (.seq
      (.emit "duration" "TrafficLightCycleElementXMLNode.create_node/duration")
      (.emit "color" "TrafficLightCycleElementXMLNode.create_node/color"))

def b_TrafficLightCycleElement_create_node_color : CR.SrcW.Builder where
  key := "TrafficLightCycleElementXMLNode.create_node/color"
  kind := .node
  tag := "color"
  xsd := "trafficCycleElement"
  path := ["color"]
  parent := "TrafficLightCycleElementXMLNode.create_node"
  attrs := []
  gattrs := []
  text := some (.enumValue "_.state")
  atoms := []
  body :=
    .skip

def b_TrafficLightCycleElement_create_node_duration : CR.SrcW.Builder where
  key := "TrafficLightCycleElementXMLNode.create_node/duration"
  kind := .node
  tag := "duration"
  xsd := "trafficCycleElement"
  path := ["duration"]
  parent := "TrafficLightCycleElementXMLNode.create_node"
  attrs := []
  gattrs := []
  text := some (.str "_.duration")
  atoms := []
  body :=
    .skip
