/-- commonroad/scenario/state.py: MetaInformationState.__eq__ / MetaInformationState.__hash__ -/
def src_MetaInformationState : ClassSrc :=
  { guard := "MetaInformationState",
    eqs := [
      ⟨"meta_data_str", [(.eq .id)]⟩,
      ⟨"meta_data_int", [(.eq .id)]⟩,
      ⟨"meta_data_float", [(.eq .id)]⟩,
      ⟨"meta_data_bool", [(.eq .id)]⟩],
    hashes := [
      ⟨"meta_data_str", (.optNone (.frozensetItems .it))⟩,
      ⟨"meta_data_int", (.optNone (.frozensetItems .it))⟩,
      ⟨"meta_data_float", (.optNone (.frozensetItems .it))⟩,
      ⟨"meta_data_bool", (.optNone (.frozensetItems .it))⟩] }
