/-- commonroad/common/util.py: Interval.__add__ — Interval.__add__ run on an AngleInterval: `type(self)` is the AngleInterval constructor translated in Gen.Src -/
def AngleInterval_add (τ : Rat) (fuel : Nat) (self : CR.Iv.I) (other : Rat) : Res (CR.Iv.I) := do
  return (← AngleInterval_new τ fuel (self.lo + other) (self.hi + other))
