/-- commonroad/planning/goal.py: GoalRegion.translate_rotate — structural extraction: (moved part, arguments, enclosing loop, where the result is stored) -/
def GoalRegion_translate_rotate_moves : List (String × String × String × String) := [("v1", "translation, angle", "enumerate(self.state_list)", "self.state_list[v0]")]
/-- the kinds of the statements of the body, in order -/
def GoalRegion_translate_rotate_stmts : String := "For Assign"
