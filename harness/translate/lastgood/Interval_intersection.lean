/-- commonroad/common/util.py: Interval.intersection -/
def Interval_intersection (self : CR.Iv.I) (other : CR.Iv.I) : Res (Option CR.Iv.I) := do
  if (!(Interval_overlaps self other)) then
    return none
  else
    return some (← CR.Iv.mk (max self.lo other.lo) (min self.hi other.hi))
