/-- commonroad/scenario/obstacle.py: DynamicObstacle.occupancy_at_time — Occupancy(t, initial occupancy shape) is the symbolic `Occ.init` -/
def DynamicObstacle_occupancy_at_time (tInit : Int) (p : CR.Occ.Pred) (time_step : Int) : Option CR.Occ.Occ := Id.run do
  let occupancy := none
  if decide (time_step = tInit) then
    let occupancy := (some CR.Occ.Occ.init)
    return occupancy
  else
    if (decide (time_step > tInit) && (p).isSome) then
      let occupancy := (CR.Occ.predOccAt p time_step)
      return occupancy
    else
      return occupancy
