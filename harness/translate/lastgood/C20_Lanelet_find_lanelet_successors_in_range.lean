@[simp] def Lanelet_find_lanelet_successors_in_range.for3 (succ pred : Nat → List Nat) (len : Nat → Rat) (selfId : Nat) (fuel : Nat) (max_length : Rat) (p : _) (le : _) :=
  fun (paths_final, paths_next, lengths_next) s =>
    if (decide (s ∈ p) || decide (s = selfId) || decide (le ≥ max_length)) then
      let paths_final := paths_final ++ [p]
      (paths_final, paths_next, lengths_next)
    else
      let l_next := (le + (len s))
      let (paths_next, lengths_next, paths_final) := (
        if decide (l_next < max_length) then
          let paths_next := paths_next ++ [(p ++ [s])]
          let lengths_next := lengths_next ++ [l_next]
          (paths_next, lengths_next, paths_final)
        else
          let paths_final := paths_final ++ [(p ++ [s])]
          (paths_next, lengths_next, paths_final))
      (paths_final, paths_next, lengths_next)

@[simp] def Lanelet_find_lanelet_successors_in_range.for2 (succ pred : Nat → List Nat) (len : Nat → Rat) (selfId : Nat) (fuel : Nat) (max_length : Rat)  :=
  fun (paths_final, paths_next, lengths_next) (p, le) =>
    let successors := (CR.PyC20.nbrOpt succ (CR.pyGet? p (-1)))
    if (!(CR.PyC20.truthy successors)) then
      let paths_final := paths_final ++ [p]
      (paths_final, paths_next, lengths_next)
    else
      let (paths_final, paths_next, lengths_next) := (successors).foldl (Lanelet_find_lanelet_successors_in_range.for3 succ pred len selfId fuel max_length p le) (paths_final, paths_next, lengths_next)
      (paths_final, paths_next, lengths_next)

@[simp] def Lanelet_find_lanelet_successors_in_range.while1 (succ pred : Nat → List Nat) (len : Nat → Rat) (selfId : Nat) (fuel : Nat) (max_length : Rat)  :=
  CR.PyC20.mkLoop (fun (paths_final, paths, lengths) => (CR.PyC20.truthy paths)) (fun (paths_final, paths, lengths) =>
    let paths_next := []
    let lengths_next := []
    let (paths_final, paths_next, lengths_next) := ((List.zip paths lengths)).foldl (Lanelet_find_lanelet_successors_in_range.for2 succ pred len selfId fuel max_length) (paths_final, paths_next, lengths_next)
    let paths := paths_next
    let lengths := lengths_next
    (paths_final, paths, lengths))

/-- commonroad/scenario/lanelet.py: Lanelet.find_lanelet_successors_in_range — `succ` / `pred` / `len` stand for `lanelet_network.find_lanelet_by_id(i).successor` / `.predecessor` / `.distance[-1]`; `none` = the fuel of the while loop ran out -/
def Lanelet_find_lanelet_successors_in_range (succ pred : Nat → List Nat) (len : Nat → Rat) (selfId : Nat) (fuel : Nat) (max_length : Rat) : Option (List (List Nat)) :=
  let paths := (((succ selfId)).map (fun s => [s]))
  let paths_final := []
  let lengths := (((succ selfId)).map (fun s => (len s)))
  Option.bind (CR.PyC20.whileLoop (Lanelet_find_lanelet_successors_in_range.while1 succ pred len selfId fuel max_length).1 (Lanelet_find_lanelet_successors_in_range.while1 succ pred len selfId fuel max_length).2 fuel (paths_final, paths, lengths)) (fun (paths_final, paths, lengths) =>
    some paths_final)
