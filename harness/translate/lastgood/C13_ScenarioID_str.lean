/-- commonroad/scenario/scenario.py: ScenarioID.__str__ -/
def ScenarioID_str (self : CR.BenchId.Id) : Res (Str) := do
  match self.beh with
  | some self_obstacle_behavior' =>
    let prediction_id : CR.PyC13.PV := (CR.PyC13.predToPV self.pred)
    if (!(CR.PyC13.PV.isList (CR.PyC13.predToPV self.pred))) then
      let prediction_id : CR.PyC13.PV := (CR.PyC13.PV.list1 prediction_id)
      let prediction : Str := (CR.PyC13.joinS (['-'] : Str) ([self_obstacle_behavior'] ++ (((← CR.PyC13.PV.iter prediction_id)).map (fun s => (CR.PyC13.Sc.pyStr s)))))
      let map_ : Str := (self.mapName ++ (['-'] : Str) ++ (CR.BenchId.intRepr self.mapId))
      let parts : List (CR.PyC13.Sc) := [(CR.PyC13.Sc.str self.country), (CR.PyC13.Sc.str map_), (CR.PyC13.Sc.ofOptInt self.config), (CR.PyC13.Sc.str prediction)]
      let scenario_id : Str := (CR.PyC13.joinS (['_'] : Str) (((parts).filter (fun p => (!CR.PyC13.Sc.isNone p))).map (fun p => (CR.PyC13.Sc.pyStr p))))
      if self.coop then
        let scenario_id : Str := ((['C', '-'] : Str) ++ scenario_id)
        return scenario_id
      else
        return scenario_id
    else
      let prediction : Str := (CR.PyC13.joinS (['-'] : Str) ([self_obstacle_behavior'] ++ (((← CR.PyC13.PV.iter prediction_id)).map (fun s => (CR.PyC13.Sc.pyStr s)))))
      let map_ : Str := (self.mapName ++ (['-'] : Str) ++ (CR.BenchId.intRepr self.mapId))
      let parts : List (CR.PyC13.Sc) := [(CR.PyC13.Sc.str self.country), (CR.PyC13.Sc.str map_), (CR.PyC13.Sc.ofOptInt self.config), (CR.PyC13.Sc.str prediction)]
      let scenario_id : Str := (CR.PyC13.joinS (['_'] : Str) (((parts).filter (fun p => (!CR.PyC13.Sc.isNone p))).map (fun p => (CR.PyC13.Sc.pyStr p))))
      if self.coop then
        let scenario_id : Str := ((['C', '-'] : Str) ++ scenario_id)
        return scenario_id
      else
        return scenario_id
  | none =>
    let map_ : Str := (self.mapName ++ (['-'] : Str) ++ (CR.BenchId.intRepr self.mapId))
    let parts : List (CR.PyC13.Sc) := [(CR.PyC13.Sc.str self.country), (CR.PyC13.Sc.str map_), (CR.PyC13.Sc.ofOptInt self.config), CR.PyC13.Sc.none]
    let scenario_id : Str := (CR.PyC13.joinS (['_'] : Str) (((parts).filter (fun p => (!CR.PyC13.Sc.isNone p))).map (fun p => (CR.PyC13.Sc.pyStr p))))
    if self.coop then
      let scenario_id : Str := ((['C', '-'] : Str) ++ scenario_id)
      return scenario_id
    else
      return scenario_id
