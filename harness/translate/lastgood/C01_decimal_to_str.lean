/-- commonroad/common/writer/file_writer_xml.py: decimal_to_str — the argument is `str(value)`; `np.format_float_positional(value, trim='0')` is the table `P.pos` -/
def decimal_to_str (P : CR.X.Params) (value : String) : Res (String) := do
  let string := value
  if ((CR.PyC01.strIn "e" string) || (CR.PyC01.strIn "E" string)) then
    return (CR.PyC01.formatPositional P value)
  else
    return string
