/-- commonroad/scenario/scenario.py: Scenario._remove_static_obstacle_from_lanelets -/
def Scenario_remove_static_obstacle_from_lanelets (E : CR.Assign.Env) (s : CR.Assign.St) (obstacle_id : Int) (lanelet_ids : Option (List CR.Assign.Id)) : Res CR.Assign.St := do
  let obs : Option CR.Assign.Id := (CR.PyC07.obstacleById s obstacle_id)
  let s ← ((((lanelet_ids).getD []) ++ (((s.fwd (← CR.PyC07.deref obs)).initCenter).getD []))).foldlM (fun s l_id => do
    let lanelet : Option CR.Assign.Id := (CR.PyC07.findLanelet E l_id)
    let s ← (
      if (!(lanelet).isNone) then do
        let s := CR.PyC07.ssetDiscard s (← CR.PyC07.deref lanelet) obstacle_id
        pure s
      else do
        pure s)
    pure s) s
  return s
