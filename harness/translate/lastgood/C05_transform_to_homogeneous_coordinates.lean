/-- commonroad/geometry/transform.py: to_homogeneous_coordinates -/
def transform_to_homogeneous_coordinates (points : List CR.Rigid.Pt) : List CR.PyC05.H := Id.run do
  return ((points).map CR.PyC05.toH)
