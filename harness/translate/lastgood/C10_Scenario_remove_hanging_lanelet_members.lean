/-- commonroad/scenario/scenario.py: Scenario.remove_hanging_lanelet_members — the WHOLE function, including the two final removal calls (list forms of remove_traffic_sign / remove_traffic_light); `find_*_by_id(t.id)` of an element `t` of the network is the call-table entry PyR.found* -/
def Scenario_remove_hanging_lanelet_members (self : CR.Refs.Scn) (remove_lanelet : List (CR.Refs.RmArg)) : CR.Refs.Scn × Option CR.Err :=
  let all_lanelets := self.net.lanelets
  let remove_lanelet_ids := (remove_lanelet.map (fun (la : CR.Refs.RmArg) => la.id))
  let remaining_lanelets := (all_lanelets.filter (fun (la : CR.Refs.Lanelet) => (!(CR.PyR.mem la.id remove_lanelet_ids))))
  let traffic_signs_to_delete := (CR.PyR.unionAll (remove_lanelet.map (fun (la : CR.Refs.RmArg) => la.signs)))
  let traffic_lights_to_delete := (CR.PyR.unionAll (remove_lanelet.map (fun (la : CR.Refs.RmArg) => la.lights)))
  let traffic_signs_to_save := (CR.PyR.unionAll (remaining_lanelets.map (fun (la : CR.Refs.Lanelet) => la.signs)))
  let traffic_lights_to_save := (CR.PyR.unionAll (remaining_lanelets.map (fun (la : CR.Refs.Lanelet) => la.lights)))
  let remove_traffic_signs : List (CR.Refs.Elem) := []
  let remove_traffic_lights : List (CR.Refs.Elem) := []
  let remove_traffic_signs := self.net.signs.foldl (fun remove_traffic_signs (t : CR.Refs.Elem) =>
      let remove_traffic_signs :=
        if (CR.PyR.mem t.1 (CR.PyR.diff traffic_signs_to_delete traffic_signs_to_save)) then
          let remove_traffic_signs := remove_traffic_signs ++ [(CR.PyR.foundSign self.net t.1)]
          remove_traffic_signs
        else
          remove_traffic_signs
      remove_traffic_signs) remove_traffic_signs
  let remove_traffic_lights := self.net.lights.foldl (fun remove_traffic_lights (t : CR.Refs.Elem) =>
      let remove_traffic_lights :=
        if (CR.PyR.mem t.1 (CR.PyR.diff traffic_lights_to_delete traffic_lights_to_save)) then
          let remove_traffic_lights := remove_traffic_lights ++ [(CR.PyR.foundLight self.net t.1)]
          remove_traffic_lights
        else
          remove_traffic_lights
      remove_traffic_lights) remove_traffic_lights
  CR.PyR.andThen (Scenario_remove_traffic_sign_list self remove_traffic_signs) (fun self =>
    CR.PyR.andThen (Scenario_remove_traffic_light_list self remove_traffic_lights) (fun self =>
      (self, none)))
