/-- commonroad/common/solution.py: Solution.vehicle_ids — `self.planning_problem_solutions` is the parameter pps -/
def Solution_vehicle_ids (pps : List (CR.BenchId.Pps)) : List (Str) := Id.run do
  return ((pps).map (fun pp_solution => (PlanningProblemSolution_vehicle_id (pp_solution).model (pp_solution).vtype)))
