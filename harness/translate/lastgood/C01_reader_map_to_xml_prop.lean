/-- commonroad/common/reader/file_reader_xml.py: StateFactory._map_to_xml_prop -/
def reader_map_to_xml_prop (prop : String) : String := Id.run do
  if (prop == "time_step") then
    let xml_prop := "time"
    return xml_prop
  else
    if (prop == "delta_y_f") then
      let xml_prop := "deltaYFront"
      return xml_prop
    else
      if (prop == "delta_y_r") then
        let xml_prop := "deltaYRear"
        return xml_prop
      else
        if (prop == "curvature_rate") then
          let xml_prop := "curvatureChange"
          return xml_prop
        else
          let xml_prop := (CR.PyC01.reCamel prop)
          return xml_prop
