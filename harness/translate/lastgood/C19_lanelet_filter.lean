/-- commonroad/visualization/mp_renderer.py: MPRenderer.draw_lanelet_network — the test of the `continue` that opens the loop over the lanelets (the only jump of that loop) -/
def lanelet_skipped (draw_ids : Option (List Int)) (lanelet_id : Int) : Bool :=
  (draw_ids.isSome && (!(CR.PyC19.optContains draw_ids lanelet_id)))

/-- the lanelets that enter the loop body -/
def lanelets_drawn (ids : List Int) (draw_ids : Option (List Int)) : List Int :=
  ids.filter (fun lanelet_id => !lanelet_skipped draw_ids lanelet_id)
