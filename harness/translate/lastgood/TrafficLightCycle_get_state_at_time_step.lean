/-- commonroad/scenario/traffic_light.py: TrafficLightCycle.get_state_at_time_step — returns the state ordinal of the selected element -/
def TrafficLightCycle_get_state_at_time_step (es : List CR.TL.Elem) (off : Int) (time_step : Int) : Res (Nat) := do
  let time_step_mod := ((← CR.Py.imod (time_step - off) ((← CR.Py.getItem (TrafficLightCycle_cycle_init_timesteps es off) (-1)) - off)) + off)
  let i_cycle := ((CR.Py.argmaxLt time_step_mod (TrafficLightCycle_cycle_init_timesteps es off)) - 1)
  return ((← CR.Py.getItem es i_cycle)).1
