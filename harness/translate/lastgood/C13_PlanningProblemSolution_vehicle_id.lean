/-- commonroad/common/solution.py: PlanningProblemSolution.vehicle_id -/
def PlanningProblemSolution_vehicle_id (vehicle_model : CR.BenchId.VModel) (vehicle_type : CR.BenchId.VType) : Str := Id.run do
  return ((vehicle_model).name ++ (CR.BenchId.intRepr (((vehicle_type).value : Nat) : Int)))
