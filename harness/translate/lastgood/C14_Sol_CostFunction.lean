/-- commonroad/common/solution.py: enum CostFunction — (member name, value) in definition order -/
def Sol_CostFunction : List (String × Int) := [("JB1", 0), ("SA1", 1), ("WX1", 2), ("SM1", 3), ("SM2", 4), ("SM3", 5), ("MW1", 6), ("TR1", 7)]
