/-- commonroad/geometry/shape.py: Polygon.rotate_translate_local — cosf / sinf stand for cos / sin; shapely's rotation is CR.PyC04.shapelyRotate -/
def Polygon_rotate_translate_local (τ : Rat) (cosf sinf : Rat → Rat) (vs : List CR.Rigid.Pt) (translation : CR.Rigid.Pt) (angle : Rat) : Res (CR.Rigid.Shape) := do
  CR.Py.assert (true)
  CR.Py.assert ((CR.Iv.validOrientation τ angle))
  let rotated_shapely_polygon := (CR.PyC04.shapelyRotate cosf sinf vs angle "centroid" true)
  let new_vertices := (CR.PyC04.addAll rotated_shapely_polygon translation)
  return (CR.Rigid.Shape.poly new_vertices)
