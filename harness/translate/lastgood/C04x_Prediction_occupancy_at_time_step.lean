/-- commonroad/prediction/prediction.py: Prediction.occupancy_at_time_step — the stored occupancies are given by their time stamps; the returned occupancy by its position in the list; `Interval.contains` is the function translated in Gen.Src -/
def Prediction_occupancy_at_time_step (occs : List CR.Occ.TS) (time_step : Int) : Res (Option Nat) := do
  CR.Py.assert (true)
  match CR.PyC04.firstIdx (fun occ => (if (CR.PyC04.tsIsInterval occ) then (if (Interval_contains_num (CR.PyC04.tsInterval occ) ((time_step : Int) : Rat)) then true else false) else (if (CR.PyC04.tsIsInt occ) then (if decide ((CR.PyC04.tsInt occ) = time_step) then true else false) else false))) (occs) with
  | some i_ => return some i_
  | none =>
    return none
