/-- commonroad/common/writer/file_writer_protobuf.py StaticObstacleMessage.create_message — signal_series None is the empty list of the snapshot -/
def W_StaticObstacle (o : StaticObs) : PB :=
  PB.msg [("static_obstacle_id", (PB.u32 o.id)), ("obstacle_type", (PB.enum "ObstacleType" o.type)), ("shape", (CR.PBF.encShape o.shape)), ("initial_state", (CR.PBF.encState o.init)), ("initial_signal_state", (PB.ofOpt (Option.map (fun v1 => (W_SignalState v1)) o.sig0))), ("signal_series", PB.rep (List.map (fun v2 => (W_SignalState v2)) o.series))]
