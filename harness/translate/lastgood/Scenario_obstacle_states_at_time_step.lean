/-- commonroad/scenario/scenario.py: Scenario.obstacle_states_at_time_step — the dict id -> state as an association list in insertion order; `self.dynamic_obstacles` / `self.static_obstacles` are the obstacles of that role in scenario order -/
def Scenario_obstacle_states_at_time_step (obs : List (Nat × CR.Occ.Obst)) (time_step : Int) : Res (List (Nat × Option CR.Occ.StRef)) := do
  CR.Py.assert ((CR.Py.isNat time_step))
  let obstacle_states : List (Nat × Option CR.Occ.StRef) := []
  let obstacle_states := ((obs.filter (fun o => decide (o.2.role = .dynamic)))).foldl (fun obstacle_states obstacle => (if ((CR.Occ.stateAt obstacle.2 time_step)).isSome then (obstacle_states ++ [(obstacle.1, (CR.Occ.stateAt obstacle.2 time_step))]) else obstacle_states)) obstacle_states
  let obstacle_states := ((obs.filter (fun o => decide (o.2.role = .static)))).foldl (fun obstacle_states obstacle => (obstacle_states ++ [(obstacle.1, (some CR.Occ.StRef.init))])) obstacle_states
  return obstacle_states
