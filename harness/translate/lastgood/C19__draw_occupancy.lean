/-- commonroad/visualization/mp_renderer.py: MPRenderer._draw_occupancy — the parameter group only carries style -/
def _draw_occupancy (occ : Option CR.PyC19.OccH) (state : Option CR.PyC19.StH) : List Item := Id.run do
  let mut out : List Item := []
  if occ.isSome then
    out := out ++ [Item.occ (occ.getD default).t]
  if (state.isSome && (state.getD default).info.uncPos) then
    out := out ++ (CR.PyC19.drawUncOcc (CR.PyC19.PosV.ofState (state.getD default)))
  return out
