/-- commonroad/visualization/mp_renderer.py: MPRenderer._draw_occupancy — the parameter group only carries style -/
def _draw_occupancy (occ : Option CR.PyC19.OccH) (state : Option CR.PyC19.StH) : List Item :=
  let out : List Item := []
  let r1 := if occ.isSome then
      let out : List Item := []
      let out := out ++ [Item.occ (occ.getD default).t]
      out
    else
      let out : List Item := []
      out
  let out := out ++ r1
  let r2 := if (state.isSome && (state.getD default).info.uncPos) then
      let out : List Item := []
      let out := out ++ (CR.PyC19.drawUncOcc (CR.PyC19.PosV.ofState (state.getD default)))
      out
    else
      let out : List Item := []
      out
  let out := out ++ r2
  out
