/-- commonroad/common/solution.py: enum VehicleType — (member name, value) in definition order -/
def Sol_VehicleType : List (String × Int) := [("FORD_ESCORT", 1), ("BMW_320i", 2), ("VW_VANAGON", 3), ("TRUCK", 4)]
