/-- commonroad/scenario/scenario.py: Scenario.add_objects — argument is a DynamicObstacle -/
def Scenario_add_objects_dynamic (E : CR.Assign.Env) (s : CR.Assign.St) (scenario_object : CR.Assign.Id) : Res CR.Assign.St := do
  do
    do
      do
        CR.PyC07.markUsed E s scenario_object
        let s := CR.PyC07.putDynamic s scenario_object
        let s ← Scenario_add_dynamic_obstacle_to_lanelets E s scenario_object
        return s
