/-- commonroad/common/writer/file_writer_protobuf.py: ProtobufFileWriter._add_all_planning_problems_from_planning_problem_set — ordered state accesses (structural extraction) -/
def ProtobufFileWriter_add_all_planning_problems_accesses : List CR.PyW.Access :=
  [("append", "self._commonroad_msg.planning_problems", "PlanningProblemMessage.create_message(each self.planning_problem_set.planning_problem_dict.values())")]
