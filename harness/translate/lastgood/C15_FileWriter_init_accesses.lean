/-- commonroad/common/writer/file_writer_interface.py: FileWriter.__init__ — ordered state accesses (structural extraction) -/
def FileWriter_init_accesses : List CR.PyW.Access :=
  [("assert", "", "not (author is None and scenario.author is None)"),
   ("assert", "", "not (affiliation is None and scenario.affiliation is None)"),
   ("assert", "", "not (source is None and scenario.source is None)"),
   ("assert", "", "not (tags is None and scenario.tags is None)"),
   ("assign", "self.scenario", "scenario"),
   ("assign", "self.planning_problem_set", "planning_problem_set"),
   ("assign", "self.author", "author ?? scenario.author"),
   ("assign", "self.affiliation", "affiliation ?? scenario.affiliation"),
   ("assign", "self.source", "source ?? scenario.source"),
   ("assign", "self.location", "location ?? scenario.location"),
   ("assign", "self.tags", "tags ?? scenario.tags"),
   ("assign", "self._decimal_precision", "decimal_precision"),
   ("assign", "precision.decimals", "decimal_precision")]
