/-- commonroad/scenario/lanelet.py: LaneletNetwork.__eq__ / LaneletNetwork.__hash__ -/
def src_LaneletNetwork : ClassSrc :=
  { guard := "LaneletNetwork",
    eqs := [
      ⟨"information", [(.eq .id)]⟩,
      ⟨"lanelets", [(.lenEq .id), (.keysIn .id), (.valsEq .id)]⟩,
      ⟨"intersections", [(.lenEq .id), (.keysIn .id), (.valsEq .id)]⟩,
      ⟨"traffic_signs", [(.lenEq .id), (.keysIn .id), (.valsEq .id)]⟩,
      ⟨"traffic_lights", [(.lenEq .id), (.keysIn .id), (.valsEq .id)]⟩,
      ⟨"areas", [(.lenEq .id), (.keysIn .id), (.valsEq .id)]⟩],
    hashes := [
      ⟨"information", .it⟩,
      ⟨"lanelets", (.frozensetItems .it)⟩,
      ⟨"intersections", (.frozensetItems .it)⟩,
      ⟨"traffic_signs", (.frozensetItems .it)⟩,
      ⟨"traffic_lights", (.frozensetItems .it)⟩,
      ⟨"areas", (.frozensetItems .it)⟩] }
