/-- commonroad/scenario/area.py: Area.translate_rotate -/
def Area_translate_rotate (m : CR.Rigid.Mo) (bs : List (List CR.Rigid.Pt)) : Res (List (List CR.Rigid.Pt)) := do
  let mut bs := bs
  bs ← CR.PyC05.forEach (fun border => AreaBorder_translate_rotate m border) bs
  return bs
