/-- commonroad/scenario/scenario.py: Scenario.remove_intersection — argument is a list -/
def Scenario_remove_intersection_list (self : CR.Refs.Scn) (intersection : List (CR.Refs.Intersection)) : CR.Refs.Scn × Option CR.Err :=
  CR.PyR.andThen (CR.PyR.forEach (fun self (inter : CR.Refs.Intersection) =>
      CR.PyR.andThen (Scenario_remove_intersection_one self inter) (fun self =>
        (self, none))) self intersection) (fun self =>
    (self, none))
