/-- commonroad/scenario/obstacle.py: EnvironmentObstacle.translate_rotate -/
def EnvironmentObstacle_translate_rotate (m : CR.Rigid.Mo) (sh : CR.Rigid.Shape) : Res (CR.Rigid.Obstacle) := do
  let mut sh := sh
  CR.Py.assert (CR.Iv.validOrientation m.τ m.a)
  sh := (← CR.Rigid.Shape.move m sh)
  return (CR.Rigid.Obstacle.env sh)
