/-- commonroad/scenario/obstacle.py: DynamicObstacle.translate_rotate — prediction.translate_rotate is the model's dispatch Pred.move (branches tied above) -/
def DynamicObstacle_translate_rotate (m : CR.Rigid.Mo) (body : CR.Rigid.Shape) (st : CR.Rigid.State) (pred : CR.Rigid.Pred) (hist : List CR.Rigid.State) : Res (CR.Rigid.Obstacle) := do
  let mut st := st
  let mut pred := pred
  let mut hist := hist
  CR.Py.assert (CR.Iv.validOrientation m.τ m.a)
  if (CR.PyC05.predIsSome pred) then
    pred ← CR.Rigid.Pred.move m pred
  st := (← CR.Rigid.State.move m st)
  hist := (← CR.PyC05.forEach (fun state => do
        return (← CR.Rigid.State.move m state)) hist)
  return (CR.Rigid.Obstacle.dynamic body st pred hist)
