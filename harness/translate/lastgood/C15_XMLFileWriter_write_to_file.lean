/-- commonroad/common/writer/file_writer_xml.py: XMLFileWriter.write_to_file -/
def XMLFileWriter_write_to_file (c : Codec Input Item Node Bytes Date Content) (answer : Answer) (other : String) (date : Date) (self : Nat) (filename : Option String) (overwrite_existing_file : Mode) (check_validity : Bool) : M (St Input Node Bytes Date) (Option (String × Bytes)) := do
  let written : Option (String × Bytes) := none
  let filename ← FileWriter_handle_file_path c answer other date self filename overwrite_existing_file
  if decide (filename = "") then
    pure written
  else
    PyW.newDocument self
    FileWriter_own_decimal_precision c answer other date self (do
      PyW.writeHeader self date
      PyW.addScenarioObjects c self
      PyW.addPlanningProblems c self
      pure ())
    if check_validity then
      PyW.noop
      let tree ← PyW.elementTree self
      let t3 ← PyW.treeWrite c tree filename
      let written := some t3
      pure written
    else
      let tree ← PyW.elementTree self
      let t5 ← PyW.treeWrite c tree filename
      let written := some t5
      pure written
