/-- commonroad/scenario/area.py: AreaBorder.__eq__ / AreaBorder.__hash__ -/
def src_AreaBorder : ClassSrc :=
  { guard := "AreaBorder",
    eqs := [
      ⟨"area_border_id", [(.eq .id)]⟩,
      ⟨"border_vertices", [(.eq (.rkey 10))]⟩,
      ⟨"adjacent", [(.eq .id)]⟩,
      ⟨"line_marking", [(.eq .id)]⟩],
    hashes := [
      ⟨"area_border_id", .it⟩,
      ⟨"border_vertices", (.rkey 10)⟩,
      ⟨"adjacent", (.optNone (.tuple .it))⟩,
      ⟨"line_marking", .it⟩] }
