/-- commonroad/common/writer/file_writer_xml.py: XMLFileWriter._add_all_planning_problems_from_planning_problem_set — ordered state accesses (structural extraction) -/
def XMLFileWriter_add_all_planning_problems_accesses : List CR.PyW.Access :=
  [("append", "self._root_node", "PlanningProblemXMLNode.create_node(each self.planning_problem_set.planning_problem_dict.values())")]
