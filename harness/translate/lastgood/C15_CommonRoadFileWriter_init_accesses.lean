/-- commonroad/common/file_writer.py: CommonRoadFileWriter.__init__ — ordered state accesses (structural extraction) -/
def CommonRoadFileWriter_init_accesses : List CR.PyW.Access :=
  [("assign", "self._file_format", "file_format"),
   ("assign", "self._file_writer", "None"),
   ("if", "", "file_format == FileFormat.XML"),
   ("assign", "self._file_writer", "XMLFileWriter(scenario, planning_problem_set, author, affiliation, source, tags, location, decimal_precision)"),
   ("else", "", ""),
   ("if", "", "file_format == FileFormat.PROTOBUF"),
   ("assign", "self._file_writer", "ProtobufFileWriter(scenario, planning_problem_set, author, affiliation, source, tags, location, decimal_precision)"),
   ("else", "", ""),
   ("endif", "", ""),
   ("endif", "", "")]
