/-- commonroad/common/writer/file_writer_protobuf.py BoundMessage.create_message -/
def W_Bound (vertices : List Pt) (line_marking : Option String) : PB :=
  PB.msg [("points", PB.rep (List.map (fun v1 => (W_Point v1)) vertices)), ("line_marking", (PB.ofOpt (Option.map (fun v2 => (PB.enum "LineMarking" v2)) line_marking)))]
