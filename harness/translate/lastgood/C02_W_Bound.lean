/-- commonroad/common/writer/file_writer_protobuf.py BoundMessage.create_message -/
def W_Bound (vertices : List Pt) (line_marking : Option String) : PB :=
  PB.msg [("points", PB.rep (List.map (fun x1 => (W_Point x1)) vertices)), ("line_marking", (PB.ofOpt (Option.map (fun x2 => (PB.enum "LineMarking" x2)) line_marking)))]
