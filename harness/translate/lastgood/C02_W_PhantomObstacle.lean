/-- commonroad/common/writer/file_writer_protobuf.py PhantomObstacleMessage.create_message -/
def W_PhantomObstacle (o : Phantom) : PB :=
  PB.msg [("obstacle_id", (PB.u32 o.id)), ("prediction", (PB.ofOpt (Option.map (fun v1 => (W_SetBasedPrediction v1)) o.pred)))]
