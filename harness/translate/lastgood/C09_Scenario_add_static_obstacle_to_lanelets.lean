/-- commonroad/scenario/scenario.py: Scenario._add_static_obstacle_to_lanelets -/
def Scenario_add_static_obstacle_to_lanelets (s : St) (obstacle_id : Nat) (lanelet_ids : Option (List Nat)) : St × Out :=
  if ((lanelet_ids).isNone || decide ((s.net.lanelets).length = 0)) then (
    (s, .ok)) else (
    PyC09.tryE (PyC09.forE (fun s l_id =>
        PyC09.requireLanelet s (s.net) (l_id) (
          (s, .ok))) s ((lanelet_ids.getD []))) (fun s =>
      (s, .ok)) (fun s o_ =>
      (s, o_)))
