/-- commonroad/common/solution.py: CommonRoadSolutionWriter._create_root_node — (tag, attribute dict in `set` order); `cls._get_processor_name()` is the parameter `auto` -/
def Sol_create_root_node (c : CR.Sol.Codec) (auto : Option String) (solution : CR.Sol.Solution) : Res (String × List (String × String)) := do
  let root_node := (("CommonRoadSolution" : String), ([] : List (String × String)))
  let root_node := (root_node.1, CR.PyS.setAttr root_node.2 "benchmark_id" (CR.Sol.benchString (CR.Sol.benchOf solution)))
  let root_node ← (match solution.ct with
    | some computation_time_ => do
      let root_node := (root_node.1, CR.PyS.setAttr root_node.2 "computation_time" (c.fmtNum computation_time_))
      pure root_node
    | none => do
      pure root_node)
  let root_node ← (match solution.date with
    | some date_ => do
      let root_node := (root_node.1, CR.PyS.setAttr root_node.2 "date" (CR.PyS.strftime c date_ "%Y-%m-%dT%H:%M:%S"))
      pure root_node
    | none => do
      pure root_node)
  let processor_name := (if decide (solution.proc = (some "auto")) then auto else solution.proc)
  let root_node ← (match processor_name with
    | some processor_name => do
      let root_node := (root_node.1, CR.PyS.setAttr root_node.2 "processor_name" processor_name)
      pure root_node
    | none => do
      pure root_node)
  return root_node
