/-- commonroad/scenario/scenario.py: Scenario.remove_traffic_sign -/
def Scenario_remove_traffic_sign (s : St) (traffic_sign : Nat) : St × Out :=
  if ((PyC09.findSign s.net traffic_sign)).isNone then (
    (s, .err .key)) else (
    let s : St := { s with net := (s.net).removeSign traffic_sign }
    PyC09.tryE (PyC09.idSetRemove s traffic_sign) (fun s =>
      (s, .ok)) (fun s o_ => (s, o_)))
