/-- commonroad/scenario/obstacle.py: PhantomObstacle.occupancy_at_time -/
def PhantomObstacle_occupancy_at_time (p : Option (List CR.Occ.TS)) (time_step : Int) : Option CR.Occ.Occ := Id.run do
  let occupancy := none
  if ((p).isSome && ((CR.Occ.predOccAt (.setBased (p.getD [])) time_step)).isSome) then
    let occupancy := (CR.Occ.predOccAt (.setBased (p.getD [])) time_step)
    return occupancy
  else
    return occupancy
