/-- scenario/scenario.py: ScenarioID.__init__ — the default values of its eight parameters, in order -/
def ScenarioID_init_defaults : CR.PyC13.Args :=
  { coop := false, country := (some (['Z', 'A', 'M'] : Str)), mapName := (['T', 'e', 's', 't'] : Str), mapId := (1 : Int), config := none, beh := none, pred := (CR.PyC13.PV.sc CR.PyC13.Sc.none), version := SCENARIO_VERSION }
