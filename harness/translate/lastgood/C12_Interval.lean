/-- commonroad/common/util.py: Interval.__eq__ / Interval.__hash__ -/
def src_Interval : ClassSrc :=
  { guard := "Interval",
    eqs := [
      ⟨"start", [(.eq .id)]⟩,
      ⟨"end", [(.eq .id)]⟩],
    hashes := [
      ⟨"start", .it⟩,
      ⟨"end", .it⟩] }
