/-- commonroad/scenario/scenario.py: Scenario.dynamic_obstacles -/
def Scenario_dynamic_obstacles (s : CR.Occ.Scn) : List (Nat × CR.Occ.Obst) := Id.run do
  return (CR.PyC04.values s.dy)
