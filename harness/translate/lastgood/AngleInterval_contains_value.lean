/-- commonroad/common/util.py: AngleInterval.__contains__ -/
def AngleInterval_contains_value (τ ε : Rat) (self : CR.Iv.I) (value : Rat) : Bool := Id.run do
  let diff := (CR.Py.fmod (value - self.lo) τ)
  if decide (diff < 0) then
    let diff := diff + τ
    return (decide (diff ≤ ((self.hi - self.lo) + ε)) || decide (diff ≥ (τ - ε)))
  else
    return (decide (diff ≤ ((self.hi - self.lo) + ε)) || decide (diff ≥ (τ - ε)))
