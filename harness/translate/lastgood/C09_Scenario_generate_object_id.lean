/-- commonroad/scenario/scenario.py: Scenario.generate_object_id -/
def Scenario_generate_object_id (s : St) : St × Out :=
  let s := if (s.counter).isNone then (
    let s : St := { s with counter := some 0 }
    s) else (
    s)
  if decide ((s.idSet).length > 0) then (
    let max_id_used : Nat := (PyC09.setMax s.idSet)
    PyC09.withNum s (s.counter) (fun c1 =>
      let s : St := { s with counter := some (max c1 max_id_used) }
      PyC09.withNum s (s.counter) (fun c2 =>
        let s : St := { s with counter := some (c2 + 1) }
        PyC09.withNum s (s.counter) (fun c3 =>
          (s, .id c3))))) else (
    PyC09.withNum s (s.counter) (fun c4 =>
      let s : St := { s with counter := some (c4 + 1) }
      PyC09.withNum s (s.counter) (fun c5 =>
        (s, .id c5))))
