/-- commonroad/scenario/scenario.py: Scenario._is_object_id_used -/
def Scenario_is_object_id_used (s : St) (object_id : Nat) : Bool :=
  decide (object_id ∈ s.idSet)
