/-- commonroad/visualization/mp_renderer.py: MPRenderer.draw_scenario — one list of items per obstacle, in the order of `Scenario.obstacles` -/
def draw_scenario (draw_params : CR.Draw.Flags) (obj : List CR.Draw.Obst) : List (List Item) := Id.run do
  let mut out : List (List Item) := []
  let mut obs : List CR.Draw.Obst := obj
  out := out ++ (obs).map (fun o => Id.run do
      let mut out : List Item := []
      if decide (o.role = CR.Draw.Role.dynamic) then
        out := out ++ (Gen.draw_dynamic_obstacle draw_params.dyn o)
      else
        if decide (o.role = CR.Draw.Role.static) then
          out := out ++ (Gen.draw_static_obstacle draw_params.tbStatic o)
        else
          if decide (o.role = CR.Draw.Role.env) then
            out := out ++ (Gen.draw_environment_obstacle draw_params.tbEnv o)
          else
            out := out ++ (Gen.draw_phantom_obstacle draw_params.ph o)
      return out)
  return out
