/-- commonroad/visualization/mp_renderer.py: MPRenderer.draw_scenario — one list of items per obstacle, in the order of `Scenario.obstacles` -/
def draw_scenario (draw_params : CR.Draw.Flags) (obj : List CR.Draw.Obst) : List (List Item) :=
  let out : List (List Item) := []
  let obs : List CR.Draw.Obst := obj
  let out := out ++ (obs).map (fun o =>
      let out : List Item := []
      let r3 := if decide (o.role = CR.Draw.Role.dynamic) then
          let out : List Item := []
          let out := out ++ (Gen.draw_dynamic_obstacle draw_params.dyn o)
          out
        else
          let out : List Item := []
          let r2 := if decide (o.role = CR.Draw.Role.static) then
              let out : List Item := []
              let out := out ++ (Gen.draw_static_obstacle draw_params.tbStatic o)
              out
            else
              let out : List Item := []
              let r1 := if decide (o.role = CR.Draw.Role.env) then
                  let out : List Item := []
                  let out := out ++ (Gen.draw_environment_obstacle draw_params.tbEnv o)
                  out
                else
                  let out : List Item := []
                  let out := out ++ (Gen.draw_phantom_obstacle draw_params.ph o)
                  out
              let out := out ++ r1
              out
          let out := out ++ r2
          out
      let out := out ++ r3
      out)
  out
