/-- commonroad/common/util.py: FileFormat.XML.value -/
def FileFormat_XML_value : String := ".xml"
/-- commonroad/common/util.py: FileFormat.PROTOBUF.value -/
def FileFormat_PROTOBUF_value : String := ".pb"
/-- commonroad/common/writer/file_writer_interface.py: OverwriteExistingFile (member, value) in source order -/
def OverwriteExistingFile_members : List (String × Int) := [("ASK_USER_INPUT", 0), ("ALWAYS", 1), ("SKIP", 2)]
