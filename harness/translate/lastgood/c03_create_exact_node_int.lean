-- create_exact_node_int :: b_create_exact_node_int
def b_create_exact_node_int : CR.SrcW.Builder where
  key := "create_exact_node_int"
  kind := .node
  tag := "exact"
  xsd := "xs:positiveInteger"
  path := []
  parent := ""
  attrs := []
  gattrs := []
  text := some (.str "_")
  atoms := []
  body :=
    .skip
