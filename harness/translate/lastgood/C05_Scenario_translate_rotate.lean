/-- commonroad/scenario/scenario.py: Scenario.translate_rotate — `self.obstacles` (all roles, scenario order) is the model's obstacle list -/
def Scenario_translate_rotate (m : CR.Rigid.Mo) (sc : CR.Rigid.Scenario) : Res (CR.Rigid.Scenario) := do
  let mut net := (sc.lanelets, sc.signs, sc.lights, sc.areas)
  let mut obs := sc.obstacles
  CR.Py.assert (CR.Iv.validOrientation m.τ m.a)
  net ← LaneletNetwork_translate_rotate m net
  obs ← CR.PyC05.forEach (fun obstacle => CR.Rigid.Obstacle.move m obstacle) obs
  return (⟨net.1, net.2.1, net.2.2.1, obs, net.2.2.2⟩ : CR.Rigid.Scenario)
