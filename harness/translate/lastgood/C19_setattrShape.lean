/-- commonroad/visualization/draw_params.py: BaseParam.__setattr__ — what its syntax tree says about the own store and the visit of the nested groups -/
def setattrShape : CR.PyC19.SetattrShape :=
  { storeIfDeclared := true, storeSameArgs := true, storeFirst := true,
    visitIfInitialized := true, visitAllDictItems := true, visitIffBaseParam := true,
    visitSameArgs := true }
