/-- commonroad/scenario/obstacle.py: EnvironmentObstacle.occupancy_at_time — `self._obstacle_shape` is the symbolic `Occ.shape` -/
def EnvironmentObstacle_occupancy_at_time (time_step : Int) : Option (Int × CR.Occ.Occ) := Id.run do
  return some (CR.PyC04.occupancy time_step CR.Occ.Occ.shape)
