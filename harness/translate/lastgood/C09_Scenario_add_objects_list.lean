/-- commonroad/scenario/scenario.py: Scenario.add_objects — list form -/
def Scenario_add_objects_list (s : St) (scenario_object : List (Obj)) (lanelet_ids : Option (List Nat)) : St × Out :=
  PyC09.tryE (PyC09.forE (fun s obj =>
      PyC09.tryE (Scenario_add_objects s obj lanelet_ids) (fun s =>
        (s, .ok)) (fun s o_ => (s, o_))) s (scenario_object)) (fun s =>
    (s, .ok)) (fun s o_ =>
    (s, o_))
