/-- commonroad/scenario/lanelet.py: LaneletNetwork.remove_lanelet — cleanup_lanelet_references() edits references between lanelets only, not the index -/
def LaneletNetwork_remove_lanelet (self : CR.Index.Net) (lanelet_id : Int) (rtree : Bool) : Res (CR.Index.Net) := do
  if (CR.Py06.lanHas self.lanelets lanelet_id) then
    let self := { self with lanelets := (← CR.Py06.lanDel self.lanelets lanelet_id) }
    let self := { self with buffered := (← CR.Py06.dictDel self.buffered lanelet_id) }
    if rtree then
      let self := (LaneletNetwork_create_strtree self)
      return self
    else
      return self
  else
    if rtree then
      let self := (LaneletNetwork_create_strtree self)
      return self
    else
      return self
