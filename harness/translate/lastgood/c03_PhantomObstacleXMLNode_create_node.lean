-- PhantomObstacleXMLNode.create_node :: b_PhantomObstacle_create_node
def b_PhantomObstacle_create_node : CR.SrcW.Builder where
  key := "PhantomObstacleXMLNode.create_node"
  kind := .node
  tag := "?obstacle_role.value + 'Obstacle'"
  xsd := "phantomObstacle"
  path := []
  parent := ""
  attrs := []
  gattrs := []
  text := none
  atoms := ["isinstance(_.prediction, SetBasedPrediction)"]
  body :=
    (.seq
      (.splice "PhantomObstacleXMLNode.create_obstacle_node_header")
      (.ite (.atom 0)
        (.emit "occupancySet" "DynamicObstacleXMLNode.create_occupancy_node")
        .skip))
