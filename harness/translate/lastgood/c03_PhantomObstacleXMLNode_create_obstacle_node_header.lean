-- PhantomObstacleXMLNode.create_obstacle_node_header :: b_PhantomObstacle_create_obstacle_node_header
def b_PhantomObstacle_create_obstacle_node_header : CR.SrcW.Builder where
  key := "PhantomObstacleXMLNode.create_obstacle_node_header"
  kind := .node
  tag := "?obstacle_role.value + 'Obstacle'"
  xsd := "phantomObstacle"
  path := []
  parent := ""
  attrs := [("id", (.str "_"))]
  gattrs := []
  text := none
  atoms := []
  body :=
    .skip
