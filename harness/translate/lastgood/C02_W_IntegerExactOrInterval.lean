/-- commonroad/common/writer/file_writer_protobuf.py IntegerExactOrIntervalMessage.create_message -/
def W_IntegerExactOrInterval (value : IntEOI) : PB :=
  match value with
  | .exact i => PB.msg [("exact", (PB.i32 i))]
  | .interval a b => PB.msg [("interval", (W_IntegerInterval a b))]
