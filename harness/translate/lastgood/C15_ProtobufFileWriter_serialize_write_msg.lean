/-- commonroad/common/writer/file_writer_protobuf.py: ProtobufFileWriter._serialize_write_msg -/
def ProtobufFileWriter_serialize_write_msg (c : Codec Input Item Node Bytes Date Content) (answer : Answer) (other : String) (date : Date) (self : Nat) (filename : String) : M (St Input Node Bytes Date) (String × Bytes) := do
  let t1 ← PyW.treeWrite c self filename
  pure t1
