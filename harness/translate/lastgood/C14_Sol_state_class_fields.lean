/-- commonroad/scenario/state.py: dataclass fields (base classes first) of the state classes the solution reader instantiates -/
def Sol_state_class_fields : List (String × List String) := [
  ("MBState", ["time_step", "position", "steering_angle", "velocity", "orientation", "yaw_rate", "roll_angle", "roll_rate", "pitch_angle", "pitch_rate", "velocity_y", "position_z", "velocity_z", "roll_angle_front", "roll_rate_front", "velocity_y_front", "position_z_front", "velocity_z_front", "roll_angle_rear", "roll_rate_rear", "velocity_y_rear", "position_z_rear", "velocity_z_rear", "left_front_wheel_angular_speed", "right_front_wheel_angular_speed", "left_rear_wheel_angular_speed", "right_rear_wheel_angular_speed", "delta_y_f", "delta_y_r"]),
  ("KSState", ["time_step", "position", "steering_angle", "velocity", "orientation"]),
  ("KSTState", ["time_step", "position", "steering_angle", "velocity", "orientation", "hitch_angle"]),
  ("PMState", ["time_step", "position", "velocity", "velocity_y"]),
  ("STState", ["time_step", "position", "steering_angle", "velocity", "orientation", "slip_angle", "yaw_rate"]),
  ("InputState", ["time_step", "steering_angle_speed", "acceleration"]),
  ("PMInputState", ["time_step", "acceleration", "acceleration_y"])]
