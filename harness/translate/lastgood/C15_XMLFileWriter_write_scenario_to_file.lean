/-- commonroad/common/writer/file_writer_xml.py: XMLFileWriter.write_scenario_to_file -/
def XMLFileWriter_write_scenario_to_file (c : Codec Input Item Node Bytes Date Content) (answer : Answer) (other : String) (date : Date) (self : Nat) (filename : Option String) (overwrite_existing_file : Mode) : M (St Input Node Bytes Date) (Option (String × Bytes)) := do
  let written : Option (String × Bytes) := none
  let filename ← PyW.orElse filename (do
    let t1 ← PyW.scenarioIdStr c self
    pure t1)
  let t2 ← PyW.isFile filename
  if t2 then
    if decide (overwrite_existing_file = Mode.ask) then
      let overwrite ← PyW.input answer other
      if decide (overwrite = "n") then
        PyW.noop
        pure written
      else
        PyW.noop
        PyW.newDocument self
        FileWriter_own_decimal_precision c answer other date self (do
          PyW.writeHeader self date
          PyW.addScenarioObjects c self
          pure ())
        let tree ← PyW.elementTree self
        let t5 ← PyW.treeWrite c tree filename
        let written := some t5
        pure written
    else
      if decide (overwrite_existing_file = Mode.skip) then
        let overwrite := "n"
        if decide (overwrite = "n") then
          PyW.noop
          pure written
        else
          PyW.noop
          PyW.newDocument self
          FileWriter_own_decimal_precision c answer other date self (do
            PyW.writeHeader self date
            PyW.addScenarioObjects c self
            pure ())
          let tree ← PyW.elementTree self
          let t7 ← PyW.treeWrite c tree filename
          let written := some t7
          pure written
      else
        let overwrite := "y"
        if decide (overwrite = "n") then
          PyW.noop
          pure written
        else
          PyW.noop
          PyW.newDocument self
          FileWriter_own_decimal_precision c answer other date self (do
            PyW.writeHeader self date
            PyW.addScenarioObjects c self
            pure ())
          let tree ← PyW.elementTree self
          let t9 ← PyW.treeWrite c tree filename
          let written := some t9
          pure written
  else
    PyW.newDocument self
    FileWriter_own_decimal_precision c answer other date self (do
      PyW.writeHeader self date
      PyW.addScenarioObjects c self
      pure ())
    let tree ← PyW.elementTree self
    let t11 ← PyW.treeWrite c tree filename
    let written := some t11
    pure written
