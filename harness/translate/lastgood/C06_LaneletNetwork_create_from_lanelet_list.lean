/-- commonroad/scenario/lanelet.py: LaneletNetwork.create_from_lanelet_list — `cls()` is LaneletNetwork(); `copy.deepcopy(la)` relabels the polygon object (f); the cleanup_* calls edit references only -/
def LaneletNetwork_create_from_lanelet_list (f : Nat → Nat) (lanelets : List CR.Index.Lanelet) (cleanup_ids : Bool) : CR.Index.Net :=
  let lanelet_network := LaneletNetwork_init
  let lanelet_network := CR.Py06.lfoldl (lanelets) lanelet_network (fun lanelet_network x2_ =>
      let lanelet_network := (LaneletNetwork_add_lanelet lanelet_network (CR.Index.relabelL f x2_) false).1
      lanelet_network)
  if cleanup_ids then
    let lanelet_network := (LaneletNetwork_create_strtree lanelet_network)
    lanelet_network
  else
    let lanelet_network := (LaneletNetwork_create_strtree lanelet_network)
    lanelet_network
