-- XMLFileWriter._add_all_objects_from_scenario :: b_XMLFileWriter_add_all_objects_from_scenario
def b_XMLFileWriter_add_all_objects_from_scenario : CR.SrcW.Builder where
  key := "XMLFileWriter._add_all_objects_from_scenario"
  kind := .fill
  tag := ""
  xsd := "/commonRoad"
  path := []
  parent := ""
  attrs := []
  gattrs := []
  text := none
  atoms := []
  body :=
    (.seq
      (.ite (.notNone "_.location")
        (.emit "location" "LocationXMLNode.create_node")
        (.emit "location" "LocationXMLNode.create_node"))
      (.seq
        (.emit "scenarioTags" "TagXMLNode.create_node")
        (.seq
          (.each "_.scenario.lanelet_network.lanelets"
            (.emit "lanelet" "LaneletXMLNode.create_node"))
          (.seq
            (.each "_.scenario.lanelet_network.traffic_signs"
              (.emit "trafficSign" "TrafficSignXMLNode.create_node"))
            (.seq
              (.each "_.scenario.lanelet_network.traffic_lights"
                (.emit "trafficLight" "TrafficLightXMLNode.create_node"))
              (.seq
                (.each "_.scenario.lanelet_network.intersections"
                  (.emit "intersection" "IntersectionXMLNode.create_node"))
                (.each "_.scenario.obstacles"
                  (.splice "ObstacleXMLNode.create_node"))))))))
