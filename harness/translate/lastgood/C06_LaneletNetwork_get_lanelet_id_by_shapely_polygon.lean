/-- commonroad/scenario/lanelet.py: LaneletNetwork._get_lanelet_id_by_shapely_polygon -/
def LaneletNetwork_get_lanelet_id_by_shapely_polygon (self : CR.Index.Net) (polygon : CR.Index.PolyObj) : Res (Int) := do
  return (← CR.Py06.dictIdx self.idOf (polygon).addr)
