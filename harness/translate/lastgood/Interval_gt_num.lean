/-- commonroad/common/util.py: Interval.__gt__ -/
def Interval_gt_num (self : CR.Iv.I) (other : Rat) : Bool := Id.run do
  return (if decide (self.lo > other) then true else false)
