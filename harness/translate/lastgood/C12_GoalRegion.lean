/-- commonroad/planning/goal.py: GoalRegion.__eq__ / GoalRegion.__hash__ -/
def src_GoalRegion : ClassSrc :=
  { guard := "GoalRegion",
    eqs := [
      ⟨"state_list", [(.eq .id)]⟩,
      ⟨"lanelets_of_goal_position", [(.eq .noneItems)]⟩],
    hashes := [
      ⟨"state_list", (.tuple .it)⟩,
      ⟨"lanelets_of_goal_position", (.optNone (.frozensetItems (.tuple .it)))⟩] }
