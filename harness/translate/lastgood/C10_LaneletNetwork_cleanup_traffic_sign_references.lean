/-- commonroad/scenario/lanelet.py: LaneletNetwork.cleanup_traffic_sign_references -/
def LaneletNetwork_cleanup_traffic_sign_references (self : CR.Refs.Net) : CR.Refs.Net :=
  let existing_ids := self.sids
  let self := { self with lanelets := self.lanelets.map (fun (la : CR.Refs.Lanelet) =>
      let la := { la with signs := (CR.PyR.inter la.signs existing_ids) }
      let la :=
        if (la.stop.isSome && (la.stop.bind (·.signRef)).isSome) then
          let la := { la with stop := la.stop.map (fun (st : CR.Refs.StopLine) => { st with signRef := (some (CR.PyR.inter ((la.stop.bind (·.signRef)).getD []) existing_ids)) }) }
          la
        else
          la
      la) }
  self
