/-- commonroad/common/util.py: Interval.contains — argument is an Interval -/
def Interval_contains_interval (self : CR.Iv.I) (other : CR.Iv.I) : Bool := Id.run do
  return (decide (self.lo ≤ other.lo) && decide (other.hi ≤ self.hi))
