-- EnvironmentXMLNode.create_node :: b_Environment_create_node b_Environment_create_node_underground b_Environment_create_node_weather b_Environment_create_node_timeOfDay b_Environment_create_node_time
def b_Environment_create_node : CR.SrcW.Builder where
  key := "EnvironmentXMLNode.create_node"
  kind := .node
  tag := "environment"
  xsd := "environment"
  path := []
  parent := ""
  attrs := []
  gattrs := []
  text := none
  atoms := ["_.time_of_day.value is not TimeOfDay.UNKNOWN", "_.weather.value is not Weather.UNKNOWN", "_.underground.value is not Underground.UNKNOWN"]
  body :=
    (.seq
      (.ite (.atom 0)
        (.seq
          (.emit "time" "EnvironmentXMLNode.create_node/time")
          (.emit "timeOfDay" "EnvironmentXMLNode.create_node/timeOfDay"))
        .skip)
      (.seq
        (.ite (.atom 1)
          (.emit "weather" "EnvironmentXMLNode.create_node/weather")
          .skip)
        (.ite (.atom 2)
          (.emit "underground" "EnvironmentXMLNode.create_node/underground")
          .skip)))

def b_Environment_create_node_underground : CR.SrcW.Builder where
  key := "EnvironmentXMLNode.create_node/underground"
  kind := .node
  tag := "underground"
  xsd := "environment"
  path := ["underground"]
  parent := "EnvironmentXMLNode.create_node"
  attrs := []
  gattrs := []
  text := some (.enumValue "_.underground")
  atoms := []
  body :=
    .skip

def b_Environment_create_node_weather : CR.SrcW.Builder where
  key := "EnvironmentXMLNode.create_node/weather"
  kind := .node
  tag := "weather"
  xsd := "environment"
  path := ["weather"]
  parent := "EnvironmentXMLNode.create_node"
  attrs := []
  gattrs := []
  text := some (.enumValue "_.weather")
  atoms := []
  body :=
    .skip

def b_Environment_create_node_timeOfDay : CR.SrcW.Builder where
  key := "EnvironmentXMLNode.create_node/timeOfDay"
  kind := .node
  tag := "timeOfDay"
  xsd := "environment"
  path := ["timeOfDay"]
  parent := "EnvironmentXMLNode.create_node"
  attrs := []
  gattrs := []
  text := some (.enumValue "_.time_of_day")
  atoms := []
  body :=
    .skip

def b_Environment_create_node_time : CR.SrcW.Builder where
  key := "EnvironmentXMLNode.create_node/time"
  kind := .node
  tag := "time"
  xsd := "environment"
  path := ["time"]
  parent := "EnvironmentXMLNode.create_node"
  attrs := []
  gattrs := []
  text := some (.other "f'{_.time.hours:02d}:{_.time.minutes:02d}:00'")
  atoms := []
  body :=
    .skip
