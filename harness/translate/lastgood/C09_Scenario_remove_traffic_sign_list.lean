/-- commonroad/scenario/scenario.py: Scenario.remove_traffic_sign — list form -/
def Scenario_remove_traffic_sign_list (s : St) (traffic_sign : List (Nat)) : St × Out :=
  PyC09.tryE (PyC09.forE (fun s sign =>
      PyC09.tryE (Scenario_remove_traffic_sign s sign) (fun s =>
        (s, .ok)) (fun s o_ => (s, o_))) s (traffic_sign)) (fun s =>
    (s, .ok)) (fun s o_ =>
    (s, o_))
