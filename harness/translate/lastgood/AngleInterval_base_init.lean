/-- commonroad/common/util.py: Interval.__init__ — Interval.__init__ run on an AngleInterval object: the property setters are AngleInterval's -/
def AngleInterval_base_init (τ : Rat) (start : Rat) (end_ : Rat) : Res (Option Rat × Option Rat) := do
  let self : Option Rat × Option Rat := (none, none)
  let self := (none, self.2)
  let self := (self.1, none)
  let self ← AngleInterval_set_start τ self start
  let self ← AngleInterval_set_end τ self end_
  return self
