/-- commonroad/scenario/scenario.py: Scenario.remove_lanelet — one lanelet -/
def Scenario_remove_lanelet (s : St) (lanelet : Lanelet) (referenced_elements : Bool) : St × Out :=
  let lanelet : List (Lanelet) := [lanelet]
  if referenced_elements then (
    PyC09.tryE (Scenario_remove_hanging_lanelet_members s lanelet) (fun s =>
      PyC09.tryE (PyC09.forE (fun s la =>
          if ((PyC09.findLanelet s.net la.id)).isNone then (
            (s, .err .key)) else (
            let s : St := { s with net := (s.net).removeLanelet la.id }
            PyC09.tryE (PyC09.idSetRemove s la.id) (fun s =>
              (s, .ok)) (fun s o_ => (s, o_)))) s (lanelet)) (fun s =>
        (s, .ok)) (fun s o_ =>
        (s, o_))) (fun s o_ => (s, o_))) else (
    PyC09.tryE (PyC09.forE (fun s la =>
        if ((PyC09.findLanelet s.net la.id)).isNone then (
          (s, .err .key)) else (
          let s : St := { s with net := (s.net).removeLanelet la.id }
          PyC09.tryE (PyC09.idSetRemove s la.id) (fun s =>
            (s, .ok)) (fun s o_ => (s, o_)))) s (lanelet)) (fun s =>
      (s, .ok)) (fun s o_ =>
      (s, o_)))
