/-- commonroad/planning/planning_problem.py: PlanningProblem.__eq__ / PlanningProblem.__hash__ -/
def src_PlanningProblem : ClassSrc :=
  { guard := "PlanningProblem",
    eqs := [
      ⟨"planning_problem_id", [(.eq .id)]⟩,
      ⟨"initial_state", [(.eq .id)]⟩,
      ⟨"goal", [(.eq .id)]⟩],
    hashes := [
      ⟨"planning_problem_id", .it⟩,
      ⟨"initial_state", .it⟩,
      ⟨"goal", .it⟩] }
