/-- commonroad/prediction/prediction.py: TrajectoryPrediction.__eq__ / TrajectoryPrediction.__hash__ -/
def src_TrajectoryPrediction : ClassSrc :=
  { guard := "TrajectoryPrediction",
    eqs := [
      ⟨"shape", [(.eq .id)]⟩,
      ⟨"trajectory", [(.eq .id)]⟩,
      ⟨"center_lanelet_assignment", [(.eq .id)]⟩,
      ⟨"shape_lanelet_assignment", [(.eq .id)]⟩],
    hashes := [
      ⟨"trajectory", .it⟩,
      ⟨"shape", .it⟩,
      ⟨"center_lanelet_assignment", (.optNone (.frozensetItems (.frozenset .it)))⟩,
      ⟨"shape_lanelet_assignment", (.optNone (.frozensetItems (.frozenset .it)))⟩] }
