/-- commonroad/common/util.py: Interval.__add__ -/
def Interval_add (self : CR.Iv.I) (other : Rat) : Res (CR.Iv.I) := do
  return (← CR.Iv.mk (self.lo + other) (self.hi + other))
