/-- commonroad/prediction/prediction.py: SetBasedPrediction.occupancy_set -/
def SetBasedPrediction_occupancy_set (occs : List CR.Occ.TS) : List CR.Occ.TS := Id.run do
  return occs
