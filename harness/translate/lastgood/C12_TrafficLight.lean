/-- commonroad/scenario/traffic_light.py: TrafficLight.__eq__ / TrafficLight.__hash__ -/
def src_TrafficLight : ClassSrc :=
  { guard := "TrafficLight",
    eqs := [
      ⟨"traffic_light_id", [(.eq .id)]⟩,
      ⟨"position", [(.eq (.rkey 10))]⟩,
      ⟨"color", [(.eq .id)]⟩,
      ⟨"direction", [(.eq .id)]⟩,
      ⟨"traffic_light_cycle", [(.eq .id)]⟩,
      ⟨"active", [(.eq .id)]⟩,
      ⟨"shape", [(.eq .id)]⟩],
    hashes := [
      ⟨"traffic_light_id", .it⟩,
      ⟨"position", (.rkey 10)⟩,
      ⟨"traffic_light_cycle", .it⟩,
      ⟨"color", (.frozenset .it)⟩,
      ⟨"active", .it⟩,
      ⟨"direction", .it⟩,
      ⟨"shape", .it⟩] }
