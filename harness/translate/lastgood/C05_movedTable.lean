/-- structural extraction: per class, the attributes of `self` (leading `_` dropped) that `translate_rotate` of the CURRENT
    source assigns, calls `translate_rotate` on, or walks in a loop whose body moves the element -/
def C05_movedTable : List (String × List String) := [
  ("StopLine", ["end", "start"]),
  ("Lanelet", ["center_vertices", "left_vertices", "polygon", "right_vertices", "stop_line"]),
  ("LaneletNetwork", ["areas", "buffered_polygons", "lanelets", "traffic_lights", "traffic_signs"]),
  ("TrafficSign", ["position"]),
  ("TrafficLight", ["position"]),
  ("AreaBorder", ["border_vertices"]),
  ("Area", ["border"]),
  ("Trajectory", ["state_list"]),
  ("Occupancy", ["shape"]),
  ("SetBasedPrediction", ["occupancy_set"]),
  ("TrajectoryPrediction", ["trajectory"]),
  ("StaticObstacle", ["initial_state"]),
  ("DynamicObstacle", ["history", "initial_state", "prediction"]),
  ("PhantomObstacle", ["prediction"]),
  ("EnvironmentObstacle", ["obstacle_shape"]),
  ("Scenario", ["lanelet_network", "obstacles"]),
  ("GoalRegion", ["state_list"]),
  ("PlanningProblem", ["goal", "initial_state"]),
  ("PlanningProblemSet", ["planning_problem_dict"])]
