/-- commonroad/scenario/scenario.py: ScenarioID.country_id — property setter: the value `_country_id` is left with; `iso3166.countries_by_alpha3` is the parameter cs -/
def ScenarioID_set_country_id (cs : List Str) (country_id : Option (Str)) : Res (Str) := do
  match country_id with
  | some country_id' =>
    if (((cs).contains country_id') || decide (country_id' = (['Z', 'A', 'M'] : Str))) then
      let self__country_id : Str := country_id'
      return self__country_id
    else
      throw CR.Err.value
  | none =>
    let self__country_id : Str := (['Z', 'A', 'M'] : Str)
    return self__country_id
