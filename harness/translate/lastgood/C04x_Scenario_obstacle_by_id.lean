/-- commonroad/scenario/scenario.py: Scenario.obstacle_by_id — the dictionaries are looked up in the order static, dynamic, phantom, environment -/
def Scenario_obstacle_by_id (s : CR.Occ.Scn) (obstacle_id : Nat) : Res (Option (Nat × CR.Occ.Obst)) := do
  CR.Py.assert (true)
  let obstacle := none
  if (CR.PyC04.hasKey s.st obstacle_id) then
    let obstacle := (CR.PyC04.getKey s.st obstacle_id)
    return obstacle
  else
    if (CR.PyC04.hasKey s.dy obstacle_id) then
      let obstacle := (CR.PyC04.getKey s.dy obstacle_id)
      return obstacle
    else
      if (CR.PyC04.hasKey s.ph obstacle_id) then
        let obstacle := (CR.PyC04.getKey s.ph obstacle_id)
        return obstacle
      else
        if (CR.PyC04.hasKey s.en obstacle_id) then
          let obstacle := (CR.PyC04.getKey s.en obstacle_id)
          return obstacle
        else
          return obstacle
