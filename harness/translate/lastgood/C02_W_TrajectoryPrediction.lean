/-- commonroad/common/writer/file_writer_protobuf.py TrajectoryPredictionMessage.create_message -/
def W_TrajectoryPrediction (t0 : Int) (states : List St) (shape : Shape) : PB :=
  PB.msg [("trajectory", (W_Trajectory t0 states)), ("shape", (CR.PBF.encShape shape))]
