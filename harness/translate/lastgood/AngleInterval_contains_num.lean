/-- commonroad/common/util.py: AngleInterval.contains -/
def AngleInterval_contains_num (τ ε : Rat) (self : CR.Iv.I) (other : Rat) : Bool := Id.run do
  return (AngleInterval_contains_value τ ε self other)
