-- Point.create_node :: b_Point_create_node b_Point_create_node_z b_Point_create_node_y b_Point_create_node_x
def b_Point_create_node : CR.SrcW.Builder where
  key := "Point.create_node"
  kind := .node
  tag := "point"
  xsd := "point"
  path := []
  parent := ""
  attrs := []
  gattrs := []
  text := none
  atoms := []
  body :=
    (.seq
      (.emit "x" "Point.create_node/x")
      (.seq
        (.emit "y" "Point.create_node/y")
        (.ite (.notNone "_.z")
          (.emit "z" "Point.create_node/z")
          .skip)))

def b_Point_create_node_z : CR.SrcW.Builder where
  key := "Point.create_node/z"
  kind := .node
  tag := "z"
  xsd := "point"
  path := ["z"]
  parent := "Point.create_node"
  attrs := []
  gattrs := []
  text := some (.floatToStr "_.z")
  atoms := []
  body :=
    .skip

def b_Point_create_node_y : CR.SrcW.Builder where
  key := "Point.create_node/y"
  kind := .node
  tag := "y"
  xsd := "point"
  path := ["y"]
  parent := "Point.create_node"
  attrs := []
  gattrs := []
  text := some (.floatToStr "_.y")
  atoms := []
  body :=
    .skip

def b_Point_create_node_x : CR.SrcW.Builder where
  key := "Point.create_node/x"
  kind := .node
  tag := "x"
  xsd := "point"
  path := ["x"]
  parent := "Point.create_node"
  attrs := []
  gattrs := []
  text := some (.floatToStr "_.x")
  atoms := []
  body :=
    .skip
