/-- commonroad/scenario/scenario.py: Scenario.remove_obstacle — list form -/
def Scenario_remove_obstacle_list (s : St) (obstacle : List (Nat)) : St × Out :=
  PyC09.tryE (PyC09.forE (fun s obs =>
      PyC09.tryE (Scenario_remove_obstacle s obs) (fun s =>
        (s, .ok)) (fun s o_ => (s, o_))) s (obstacle)) (fun s =>
    (s, .ok)) (fun s o_ =>
    (s, o_))
