/-- commonroad/geometry/shape.py: Polygon.translate_rotate — Polygon(...) is the model constructor polyMk (ring closed, oriented clockwise) -/
def Polygon_translate_rotate (m : CR.Rigid.Mo) (vs : List CR.Rigid.Pt) : Res (CR.Rigid.Shape) := do
  CR.Py.assert (CR.Iv.validOrientation m.τ m.a)
  return (CR.Rigid.Shape.poly (← CR.Rigid.polyMk (transform_translate_rotate m.c m.s m.a vs m.t)))
