/-- commonroad/scenario/intersection.py: Intersection.__eq__ / Intersection.__hash__ -/
def src_Intersection : ClassSrc :=
  { guard := "Intersection",
    eqs := [
      ⟨"incomings", [(.valsEq (.keyedBy "incoming_id")), (.lenEq (.keyedBy "incoming_id")), (.keysIn (.keyedBy "incoming_id"))]⟩,
      ⟨"intersection_id", [(.eq .id)]⟩,
      ⟨"crossings", [(.eq .id)]⟩],
    hashes := [
      ⟨"intersection_id", .it⟩,
      ⟨"incomings", (.frozenset .it)⟩,
      ⟨"crossings", (.frozenset .it)⟩] }
