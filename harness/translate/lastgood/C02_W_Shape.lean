/-- commonroad/common/writer/file_writer_protobuf.py ShapeMessage.create_message — one layer of the recursion ShapeMessage -> ShapeGroupMessage -> ShapeMessage -/
def W_Shape (rec : Shape → PB) (shape : Shape) : PB :=
  match shape with
  | .rect l w c o => PB.msg [("rectangle", (W_Rectangle l w c o))]
  | .circ r c => PB.msg [("circle", (W_Circle r c))]
  | .poly v => PB.msg [("polygon", (W_Polygon v))]
  | .group s => PB.msg [("shape_group", (W_ShapeGroup rec s))]
