-- StateXMLNode.create_goal_state_node :: b_State_create_goal_state_node b_State_create_goal_state_node_camel_it1 b_State_create_goal_state_node_time b_State_create_goal_state_node_position
def b_State_create_goal_state_node : CR.SrcW.Builder where
  key := "StateXMLNode.create_goal_state_node"
  kind := .node
  tag := "goalState"
  xsd := "goalState"
  path := []
  parent := ""
  attrs := []
  gattrs := []
  text := none
  atoms := ["it1 == 'position'", "it1 == 'time_step'"]
  body :=
    (.each "_.used_attributes"
      (.ite (.atom 0)
        (.emit "position" "StateXMLNode.create_goal_state_node/position")
        (.ite (.atom 1)
          (.emit "time" "StateXMLNode.create_goal_state_node/time")
          (.ite (.notNone "getattr(_, it1)")
            (.emit "?camel(it1)" "StateXMLNode.create_goal_state_node/?camel(it1)")
            .skip))))

def b_State_create_goal_state_node_camel_it1 : CR.SrcW.Builder where
  key := "StateXMLNode.create_goal_state_node/?camel(it1)"
  kind := .node
  tag := "?camel(it1)"
  xsd := "goalState"
  path := ["?camel(it1)"]
  parent := "StateXMLNode.create_goal_state_node"
  attrs := []
  gattrs := []
  text := none
  atoms := []
  body :=
    (.splice "StateXMLNode._write_value_exact_or_interval")

def b_State_create_goal_state_node_time : CR.SrcW.Builder where
  key := "StateXMLNode.create_goal_state_node/time"
  kind := .node
  tag := "time"
  xsd := "goalState"
  path := ["time"]
  parent := "StateXMLNode.create_goal_state_node"
  attrs := []
  gattrs := []
  text := none
  atoms := []
  body :=
    (.splice "StateXMLNode._write_goal_time_exact_or_interval")

def b_State_create_goal_state_node_position : CR.SrcW.Builder where
  key := "StateXMLNode.create_goal_state_node/position"
  kind := .node
  tag := "position"
  xsd := "goalState"
  path := ["position"]
  parent := "StateXMLNode.create_goal_state_node"
  attrs := []
  gattrs := []
  text := none
  atoms := []
  body :=
    (.splice "StateXMLNode._write_goal_position")
