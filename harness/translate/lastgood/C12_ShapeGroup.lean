/-- commonroad/geometry/shape.py: ShapeGroup.__eq__ / ShapeGroup.__hash__ -/
def src_ShapeGroup : ClassSrc :=
  { guard := "ShapeGroup",
    eqs := [
      ⟨"shapes", [(.eq .id)]⟩],
    hashes := [
      ⟨"shapes", (.frozenset .it)⟩] }
