/-- commonroad/common/solution.py: TrajectoryType.state_type — property -/
def Sol_TrajectoryType_state_type (self : CR.Sol.TType) : Res (CR.Sol.TType) := do
  return (← CR.PyS.memberOf Sol_StateType self.name)
