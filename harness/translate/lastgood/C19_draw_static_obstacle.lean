/-- commonroad/visualization/mp_renderer.py: MPRenderer.draw_static_obstacle — the group is represented by its `time_begin` -/
def draw_static_obstacle (draw_params : Int) (obj : CR.Draw.Obst) : List Item :=
  let out : List Item := []
  let time_begin : Int := draw_params
  let occ : Option CR.PyC19.OccH := (CR.PyC19.occupancyAt obj time_begin)
  let out := out ++ (Gen._draw_occupancy occ (some (CR.PyC19.initialState obj)))
  out
