/-- commonroad/visualization/mp_renderer.py: MPRenderer.draw_static_obstacle — the group is represented by its `time_begin` -/
def draw_static_obstacle (draw_params : Int) (obj : CR.Draw.Obst) : List Item := Id.run do
  let mut out : List Item := []
  let mut time_begin : Int := draw_params
  let mut occ : Option CR.PyC19.OccH := (CR.PyC19.occupancyAt obj time_begin)
  out := out ++ (Gen._draw_occupancy occ (some (CR.PyC19.initialState obj)))
  return out
