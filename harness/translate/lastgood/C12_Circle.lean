/-- commonroad/geometry/shape.py: Circle.__eq__ / Circle.__hash__ -/
def src_Circle : ClassSrc :=
  { guard := "Circle",
    eqs := [
      ⟨"radius", [(.eq .id)]⟩,
      ⟨"center", [(.eq (.rkey 10))]⟩],
    hashes := [
      ⟨"radius", .it⟩,
      ⟨"center", (.optNone (.rkey 10))⟩] }
