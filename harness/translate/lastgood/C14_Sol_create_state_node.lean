/-- commonroad/common/solution.py: CommonRoadSolutionWriter._create_state_node -/
def Sol_create_state_node (c : CR.Sol.Codec) (state_type : CR.Sol.TType) (state : CR.Sol.State) : Res (CR.Sol.StateNode) := do
  let state_node := (CR.Sol.StateNode.mk (← CR.PyS.enumGet Sol_StateType state_type.name) [])
  let state_node ← ((List.zip (← Sol_StateType_xml_fields state_type) (← Sol_StateType_fields state_type))).foldlM (fun state_node mapping => do
      let xml_name := mapping.1
      let state_val := (← CR.PyS.getattr state mapping.2)
      let state_node ← (if (CR.PyS.isTuple xml_name) then do
          let state_node ← ((List.zipIdx (CR.PyS.tupleNames xml_name)).map (fun p => (p.2, p.1))).foldlM (fun state_node (idx, name) => do
              let state_node := { state_node with leaves := state_node.leaves ++ [(← Sol_create_sub_element c name (← CR.PyS.index state_val idx))] }
              pure state_node) state_node
          pure state_node
        else do
          let state_node := { state_node with leaves := state_node.leaves ++ [(← Sol_create_sub_element c (← CR.PyS.nameOf xml_name) state_val)] }
          pure state_node)
      pure state_node) state_node
  return state_node
