/-- commonroad/geometry/shape.py: occupancy_shape_from_state — exact state (position a point, orientation a number): the uncertain branches are statically dead; `shape.rotate_translate_local` is the dispatch placeChk whose four branches are the ties above -/
def occupancy_shape_from_state_exact (τ : Rat) (cosf sinf : Rat → Rat) (shape : CR.Rigid.Shape) (pos : CR.Rigid.Pt) (ori : Rat) : Res (CR.Rigid.Shape) := do
  let occupied_region := (← CR.Place.placeChk (cosf ori) (sinf ori) ori τ pos shape)
  return occupied_region
