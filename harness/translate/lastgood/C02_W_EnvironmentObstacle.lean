/-- commonroad/common/writer/file_writer_protobuf.py EnvironmentObstacleMessage.create_message -/
def W_EnvironmentObstacle (o : EnvObs) : PB :=
  PB.msg [("environment_obstacle_id", (PB.u32 o.id)), ("obstacle_type", (PB.enum "ObstacleType" o.type)), ("obstacle_shape", (CR.PBF.encShape o.shape))]
