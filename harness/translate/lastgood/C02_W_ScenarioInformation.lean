/-- commonroad/common/writer/file_writer_protobuf.py ScenarioInformationMessage.create_message — the date stamp (today) is not content and is left out -/
def W_ScenarioInformation (version benchmark_id author affiliation source : String) (dt : Dbl) : PB :=
  PB.msg [("common_road_version", (PB.str version)), ("benchmark_id", (PB.str benchmark_id)), ("author", (PB.str author)), ("affiliation", (PB.str affiliation)), ("source", (PB.str source)), ("time_step_size", (PB.dbl dt))]
