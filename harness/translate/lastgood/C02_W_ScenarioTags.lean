/-- commonroad/common/writer/file_writer_protobuf.py ScenarioTagsMessage.create_message -/
def W_ScenarioTags (tags : List String) : PB :=
  PB.msg [("tags", PB.rep (List.map (fun v1 => (PB.enum "Tag" v1)) tags))]
