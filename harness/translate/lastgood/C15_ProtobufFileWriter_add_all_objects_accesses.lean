/-- commonroad/common/writer/file_writer_protobuf.py: ProtobufFileWriter._add_all_objects_from_scenario — ordered state accesses (structural extraction) -/
def ProtobufFileWriter_add_all_objects_accesses : List CR.PyW.Access :=
  [("CopyFrom", "self._commonroad_msg.scenario_tags", "ScenarioTagsMessage.create_message(list(self.tags))"),
   ("if", "", "self.location is not None"),
   ("bind", "location_msg", "LocationMessage.create_message(self.location)"),
   ("else", "", ""),
   ("bind", "location_msg", "LocationMessage.create_message(Location())"),
   ("endif", "", ""),
   ("CopyFrom", "self._commonroad_msg.location", "location_msg"),
   ("append", "self._commonroad_msg.lanelets", "LaneletMessage.create_message(each self.scenario.lanelet_network.lanelets)"),
   ("append", "self._commonroad_msg.traffic_signs", "TrafficSignMessage.create_message(each self.scenario.lanelet_network.traffic_signs)"),
   ("append", "self._commonroad_msg.traffic_lights", "TrafficLightMessage.create_message(each self.scenario.lanelet_network.traffic_lights)"),
   ("append", "self._commonroad_msg.intersections", "IntersectionMessage.create_message(each self.scenario.lanelet_network.intersections)"),
   ("append", "self._commonroad_msg.static_obstacles", "StaticObstacleMessage.create_message(each self.scenario.static_obstacles)"),
   ("append", "self._commonroad_msg.dynamic_obstacles", "DynamicObstacleMessage.create_message(each self.scenario.dynamic_obstacles)"),
   ("append", "self._commonroad_msg.environment_obstacles", "EnvironmentObstacleMessage.create_message(each self.scenario.environment_obstacle)"),
   ("append", "self._commonroad_msg.phantom_obstacles", "PhantomObstacleMessage.create_message(each self.scenario.phantom_obstacle)")]
