-- CircleXMLNode.create_circle_node :: b_Circle_create_circle_node b_Circle_create_circle_node_center b_Circle_create_circle_node_center_y b_Circle_create_circle_node_center_x b_Circle_create_circle_node_radius
def b_Circle_create_circle_node : CR.SrcW.Builder where
  key := "CircleXMLNode.create_circle_node"
  kind := .node
  tag := "circle"
  xsd := "circle"
  path := []
  parent := ""
  attrs := []
  gattrs := []
  text := none
  atoms := ["np.any(np.asarray(_.center) != 0.0)"]
  body :=
    (.seq
      (.emit "radius" "CircleXMLNode.create_circle_node/radius")
      (.ite (.or (.not (.truthy "dynamic_obstacle_shape")) (.atom 0))
        (.emit "center" "CircleXMLNode.create_circle_node/center")
        .skip))

def b_Circle_create_circle_node_center : CR.SrcW.Builder where
  key := "CircleXMLNode.create_circle_node/center"
  kind := .node
  tag := "center"
  xsd := "circle"
  path := ["center"]
  parent := "CircleXMLNode.create_circle_node"
  attrs := []
  gattrs := []
  text := none
  atoms := []
  body :=
    (.seq
      (.emit "x" "CircleXMLNode.create_circle_node/center/x")
      (.emit "y" "CircleXMLNode.create_circle_node/center/y"))

def b_Circle_create_circle_node_center_y : CR.SrcW.Builder where
  key := "CircleXMLNode.create_circle_node/center/y"
  kind := .node
  tag := "y"
  xsd := "circle"
  path := ["center", "y"]
  parent := "CircleXMLNode.create_circle_node/center"
  attrs := []
  gattrs := []
  text := some (.floatToStr "_.center[1]")
  atoms := []
  body :=
    .skip

def b_Circle_create_circle_node_center_x : CR.SrcW.Builder where
  key := "CircleXMLNode.create_circle_node/center/x"
  kind := .node
  tag := "x"
  xsd := "circle"
  path := ["center", "x"]
  parent := "CircleXMLNode.create_circle_node/center"
  attrs := []
  gattrs := []
  text := some (.floatToStr "_.center[0]")
  atoms := []
  body :=
    .skip

def b_Circle_create_circle_node_radius : CR.SrcW.Builder where
  key := "CircleXMLNode.create_circle_node/radius"
  kind := .node
  tag := "radius"
  xsd := "circle"
  path := ["radius"]
  parent := "CircleXMLNode.create_circle_node"
  attrs := []
  gattrs := []
  text := some (.decimalToStr "_.radius")
  atoms := []
  body :=
    .skip
