-- TrafficLightXMLNode.create_node :: b_TrafficLight_create_node b_TrafficLight_create_node_active b_TrafficLight_create_node_direction b_TrafficLight_create_node_position
def b_TrafficLight_create_node : CR.SrcW.Builder where
  key := "TrafficLightXMLNode.create_node"
  kind := .node
  tag := "trafficLight"
  xsd := "trafficLight"
  path := []
  parent := ""
  attrs := [("id", (.str "_.traffic_light_id"))]
  gattrs := []
  text := none
  atoms := ["_.direction is not TrafficLightDirection.ALL"]
  body :=
    (.seq
      (.ite (.notNone "_.traffic_light_cycle")
        (.emit "cycle" "TrafficLightCycleXMLNode.create_node")
        .skip)
      (.seq
        (.ite (.notNone "_.position")
          (.emit "position" "TrafficLightXMLNode.create_node/position")
          .skip)
        (.seq
          (.ite (.atom 0)
            (.emit "direction" "TrafficLightXMLNode.create_node/direction")
            .skip)
          (.ite (.notNone "_.active")
            (.emit "active" "TrafficLightXMLNode.create_node/active")
            .skip))))

def b_TrafficLight_create_node_active : CR.SrcW.Builder where
  key := "TrafficLightXMLNode.create_node/active"
  kind := .node
  tag := "active"
  xsd := "trafficLight"
  path := ["active"]
  parent := "TrafficLightXMLNode.create_node"
  attrs := []
  gattrs := []
  text := some (.strLower "_.active")
  atoms := []
  body :=
    .skip

def b_TrafficLight_create_node_direction : CR.SrcW.Builder where
  key := "TrafficLightXMLNode.create_node/direction"
  kind := .node
  tag := "direction"
  xsd := "trafficLight"
  path := ["direction"]
  parent := "TrafficLightXMLNode.create_node"
  attrs := []
  gattrs := []
  text := some (.enumValue "_.direction")
  atoms := []
  body :=
    .skip

def b_TrafficLight_create_node_position : CR.SrcW.Builder where
  key := "TrafficLightXMLNode.create_node/position"
  kind := .node
  tag := "position"
  xsd := "trafficLight"
  path := ["position"]
  parent := "TrafficLightXMLNode.create_node"
  attrs := []
  gattrs := []
  text := none
  atoms := []
  body :=
    (.emit "point" "Point.create_node")
