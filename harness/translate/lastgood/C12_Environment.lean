/-- commonroad/scenario/scenario.py: Environment.__eq__ / Environment.__hash__ -/
def src_Environment : ClassSrc :=
  { guard := "Environment",
    eqs := [
      ⟨"time", [(.eq .id)]⟩,
      ⟨"time_of_day", [(.eq .id)]⟩,
      ⟨"weather", [(.eq .id)]⟩,
      ⟨"underground", [(.eq .id)]⟩],
    hashes := [
      ⟨"time", .it⟩,
      ⟨"time_of_day", .it⟩,
      ⟨"weather", .it⟩,
      ⟨"underground", .it⟩] }
