/-- commonroad/common/writer/file_writer_xml.py: XMLFileWriter.__init__ — ordered state accesses (structural extraction) -/
def XMLFileWriter_init_accesses : List CR.PyW.Access :=
  [("super", "__init__", "scenario, planning_problem_set, author, affiliation, source, tags, location, decimal_precision"),
   ("assign", "self._root_node", "etree.Element('commonRoad')")]
