/-- commonroad/common/writer/file_writer_protobuf.py FloatExactOrIntervalMessage.create_message — an exact value is a python float or int (both tests needed) -/
def W_FloatExactOrInterval (value : FloatEOI) : PB :=
  match value with
  | .exact d => PB.msg [("exact", (PB.dbl d))]
  | .interval a b => PB.msg [("interval", (W_FloatInterval a b))]
