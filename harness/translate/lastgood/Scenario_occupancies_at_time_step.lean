/-- commonroad/scenario/scenario.py: Scenario.occupancies_at_time_step — `self.obstacles` is the parameter obs; an Occupancy object is truthy, None is not -/
def Scenario_occupancies_at_time_step (obs : List (Nat × CR.Occ.Obst)) (time_step : Int) (obstacle_role : Option CR.Occ.Role) : Res (List (Option CR.Occ.Occ)) := do
  CR.Py.assert ((CR.Py.isNat time_step))
  CR.Py.assert (true)
  let occupancies : List (Option CR.Occ.Occ) := []
  let occupancies := (obs).foldl (fun occupancies obstacle => (if (((obstacle_role).isNone || decide ((some obstacle.2.role) = obstacle_role)) && ((CR.Occ.occupancyAt obstacle.2 time_step)).isSome) then (occupancies ++ [(CR.Occ.occupancyAt obstacle.2 time_step)]) else occupancies)) occupancies
  return occupancies
