/-- the parameter table of harness/translate/src_c19.py (which attribute path of `MPDrawParams` is which field of `CR.Draw.Flags`) as a function on parameter trees -/
def flagsOf (g : CR.Params.Grp) : Option CR.Draw.Flags := do
  let dyn : CR.Draw.DynFlags := {
    tb := ← CR.Draw.atomInt g ["dynamic_obstacle", "time_begin"],
    te := ← CR.Draw.atomInt g ["dynamic_obstacle", "time_end"],
    drawShape := ← CR.Draw.atomBool g ["dynamic_obstacle", "draw_shape"],
    drawIcon := ← CR.Draw.atomBool g ["dynamic_obstacle", "draw_icon"],
    drawDirection := ← CR.Draw.atomBool g ["dynamic_obstacle", "draw_direction"],
    drawSignals := ← CR.Draw.atomBool g ["dynamic_obstacle", "draw_signals"],
    drawOccupancies := ← CR.Draw.atomBool g ["dynamic_obstacle", "occupancy", "draw_occupancies"],
    drawTrajectory := ← CR.Draw.atomBool g ["dynamic_obstacle", "trajectory", "draw_trajectory"],
    drawHistory := ← CR.Draw.atomBool g ["dynamic_obstacle", "history", "draw_history"],
    histSteps := ← CR.Draw.atomInt g ["dynamic_obstacle", "history", "steps"],
    histStepSize := ← CR.Draw.atomInt g ["dynamic_obstacle", "history", "step_size"],
    drawInitialState := ← CR.Draw.atomBool g ["dynamic_obstacle", "draw_initial_state"],
    showLabel := ← CR.Draw.atomBool g ["dynamic_obstacle", "show_label"],
    stateArrow := ← CR.Draw.atomBool g ["dynamic_obstacle", "state", "draw_arrow"],
    trajTb := ← CR.Draw.atomInt g ["dynamic_obstacle", "trajectory", "time_begin"],
    trajTe := ← CR.Draw.atomInt g ["dynamic_obstacle", "trajectory", "time_end"],
    trajContinuous := ← CR.Draw.atomBool g ["dynamic_obstacle", "trajectory", "draw_continuous"] }
  let ph : CR.Draw.PhFlags := {
    tb := ← CR.Draw.atomInt g ["phantom_obstacle", "time_begin"],
    te := ← CR.Draw.atomInt g ["phantom_obstacle", "time_end"],
    drawShape := ← CR.Draw.atomBool g ["phantom_obstacle", "draw_shape"],
    drawOccupancies := ← CR.Draw.atomBool g ["phantom_obstacle", "occupancy", "draw_occupancies"] }
  pure { dyn := dyn, ph := ph, tbStatic := ← CR.Draw.atomInt g ["static_obstacle", "time_begin"], tbEnv := ← CR.Draw.atomInt g ["environment_obstacle", "time_begin"] }
