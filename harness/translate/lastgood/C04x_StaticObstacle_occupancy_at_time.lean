/-- commonroad/scenario/obstacle.py: StaticObstacle.occupancy_at_time — `self._initial_occupancy_shape` is the symbolic `Occ.init` -/
def StaticObstacle_occupancy_at_time (time_step : Int) : Option (Int × CR.Occ.Occ) := Id.run do
  return some (CR.PyC04.occupancy time_step CR.Occ.Occ.init)
