/-- commonroad/common/writer/file_writer_protobuf.py: ProtobufFileWriter._get_suffix -/
def ProtobufFileWriter_get_suffix : String := FileFormat_PROTOBUF_value
