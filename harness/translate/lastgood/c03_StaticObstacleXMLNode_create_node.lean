-- StaticObstacleXMLNode.create_node :: b_StaticObstacle_create_node b_StaticObstacle_create_node_initialState b_StaticObstacle_create_node_shape
def b_StaticObstacle_create_node : CR.SrcW.Builder where
  key := "StaticObstacleXMLNode.create_node"
  kind := .node
  tag := "?obstacle_role.value + 'Obstacle'"
  xsd := "staticObstacle"
  path := []
  parent := ""
  attrs := []
  gattrs := []
  text := none
  atoms := []
  body :=
    (.seq
      (.splice "ObstacleXMLNode.create_obstacle_node_header")
      (.seq
        (.emit "shape" "StaticObstacleXMLNode.create_node/shape")
        (.emit "initialState" "StaticObstacleXMLNode.create_node/initialState")))

def b_StaticObstacle_create_node_initialState : CR.SrcW.Builder where
  key := "StaticObstacleXMLNode.create_node/initialState"
  kind := .node
  tag := "initialState"
  xsd := "staticObstacle"
  path := ["initialState"]
  parent := "StaticObstacleXMLNode.create_node"
  attrs := []
  gattrs := []
  text := none
  atoms := []
  body :=
    (.splice "StateXMLNode.create_state_node")

def b_StaticObstacle_create_node_shape : CR.SrcW.Builder where
  key := "StaticObstacleXMLNode.create_node/shape"
  kind := .node
  tag := "shape"
  xsd := "staticObstacle"
  path := ["shape"]
  parent := "StaticObstacleXMLNode.create_node"
  attrs := []
  gattrs := []
  text := none
  atoms := []
  body :=
    (.splice "ShapeXMLNode.create_node")
