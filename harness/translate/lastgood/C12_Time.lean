/-- commonroad/common/util.py: Time.__eq__ / Time.__hash__ -/
def src_Time : ClassSrc :=
  { guard := "Time",
    eqs := [
      ⟨"hours", [(.eq .id)]⟩,
      ⟨"minutes", [(.eq .id)]⟩,
      ⟨"day", [(.eq .id)]⟩,
      ⟨"month", [(.eq .id)]⟩,
      ⟨"year", [(.eq .id)]⟩],
    hashes := [
      ⟨"hours", .it⟩,
      ⟨"minutes", .it⟩,
      ⟨"day", .it⟩,
      ⟨"month", .it⟩,
      ⟨"year", .it⟩] }
