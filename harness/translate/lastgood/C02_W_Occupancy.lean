/-- commonroad/common/writer/file_writer_protobuf.py OccupancyMessage.create_message -/
def W_Occupancy (o : Occ) : PB :=
  PB.msg [("time_step", (W_IntegerExactOrInterval o.t)), ("shape", (CR.PBF.encShape o.shape))]
