/-- commonroad/geometry/shape.py: Rectangle.rotate_translate_local — `make_valid_orientation` is the model's makeValid (tied in T16) -/
def Rectangle_rotate_translate_local (τ : Rat) (l w : Rat) (ctr : CR.Rigid.Pt) (θ : Rat) (translation : CR.Rigid.Pt) (angle : Rat) : CR.Rigid.Shape := Id.run do
  let new_center := (CR.Place.Pt.add ctr translation)
  let new_orientation := (CR.Iv.makeValid τ (θ + angle))
  return (CR.Rigid.Shape.rect l w new_center new_orientation)
