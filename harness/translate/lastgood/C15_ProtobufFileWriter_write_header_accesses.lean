/-- commonroad/common/writer/file_writer_protobuf.py: ProtobufFileWriter._write_header — ordered state accesses (structural extraction) -/
def ProtobufFileWriter_write_header_accesses : List CR.PyW.Access :=
  [("CopyFrom", "self._commonroad_msg.information", "ScenarioInformationMessage.create_message(self.scenario.scenario_id.scenario_version, str(self.scenario.scenario_id), self._author, self._affiliation, self._source, self.scenario.dt)")]
