/-- commonroad/scenario/scenario.py: Scenario._mark_object_ids_as_used -/
def Scenario_mark_object_ids_as_used (s : St) (object_ids : List (Nat)) : St × Out :=
  let checked_ids : List Nat := ([] : List Nat)
  PyC09.tryE (PyC09.forE (fun checked_ids object_id =>
      if ((Scenario_is_object_id_used s object_id) || decide (object_id ∈ checked_ids)) then (
        (checked_ids, .err .value)) else (
        let checked_ids : List Nat := PyC09.setAdd checked_ids object_id
        (checked_ids, .ok))) checked_ids (object_ids)) (fun checked_ids =>
    PyC09.tryE (PyC09.forE (fun s object_id =>
        PyC09.tryE (Scenario_mark_object_id_as_used s object_id) (fun s =>
          (s, .ok)) (fun s o_ => (s, o_))) s (object_ids)) (fun s =>
      (s, .ok)) (fun s o_ =>
      (s, o_))) (fun checked_ids o_ =>
    (s, o_))
