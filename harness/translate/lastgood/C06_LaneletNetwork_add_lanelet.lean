/-- commonroad/scenario/lanelet.py: LaneletNetwork.add_lanelet -/
def LaneletNetwork_add_lanelet (self : CR.Index.Net) (lanelet : CR.Index.Lanelet) (rtree : Bool) : CR.Index.Net × Bool :=
  if (CR.Py06.lanHas self.lanelets lanelet.id) then
    (self, false)
  else
    let self := { self with lanelets := CR.Py06.lanSet self.lanelets lanelet }
    let self := { self with buffered := CR.Index.dictSet self.buffered lanelet.id lanelet.poly }
    if rtree then
      let self := (LaneletNetwork_create_strtree self)
      (self, true)
    else
      (self, true)
