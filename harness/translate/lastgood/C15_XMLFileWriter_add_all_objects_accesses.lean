/-- commonroad/common/writer/file_writer_xml.py: XMLFileWriter._add_all_objects_from_scenario — ordered state accesses (structural extraction) -/
def XMLFileWriter_add_all_objects_accesses : List CR.PyW.Access :=
  [("if", "", "self.location is not None"),
   ("append", "self._root_node", "LocationXMLNode.create_node(self.location)"),
   ("else", "", ""),
   ("append", "self._root_node", "LocationXMLNode.create_node(Location())"),
   ("endif", "", ""),
   ("append", "self._root_node", "TagXMLNode.create_node(self.tags)"),
   ("append", "self._root_node", "LaneletXMLNode.create_node(each self.scenario.lanelet_network.lanelets)"),
   ("append", "self._root_node", "TrafficSignXMLNode.create_node(each self.scenario.lanelet_network.traffic_signs)"),
   ("append", "self._root_node", "TrafficLightXMLNode.create_node(each self.scenario.lanelet_network.traffic_lights)"),
   ("append", "self._root_node", "IntersectionXMLNode.create_node(each self.scenario.lanelet_network.intersections)"),
   ("append", "self._root_node", "ObstacleXMLNode.create_node(each self.scenario.obstacles)")]
