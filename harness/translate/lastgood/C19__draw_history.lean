/-- commonroad/visualization/mp_renderer.py: MPRenderer._draw_history — an occupancy drawn with the faded copy of the parameters is a `hist` item -/
def _draw_history (draw_params : CR.Draw.DynFlags) (dyn_obs : CR.Draw.Obst) : List Item :=
  let out : List Item := []
  let time_begin : Int := draw_params.tb
  let history_steps : Int := draw_params.histSteps
  let history_step_size : Int := draw_params.histStepSize
  let out := out ++ ((CR.PyC19.pyRangeDown history_steps 0)).flatMap (fun history_idx =>
      let out : List Item := []
      let time_step : Int := (time_begin - (history_idx * history_step_size))
      let occ : Option CR.PyC19.OccH := (CR.PyC19.occupancyAt dyn_obs time_step)
      let r1 := if occ.isSome then
          let out : List Item := []
          let out := out ++ [Item.hist (occ.getD default).t]
          out
        else
          let out : List Item := []
          out
      let out := out ++ r1
      out)
  out
