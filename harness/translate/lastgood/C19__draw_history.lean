/-- commonroad/visualization/mp_renderer.py: MPRenderer._draw_history — an occupancy drawn with the faded copy of the parameters is a `hist` item -/
def _draw_history (draw_params : CR.Draw.DynFlags) (dyn_obs : CR.Draw.Obst) : List Item := Id.run do
  let mut out : List Item := []
  let mut time_begin : Int := draw_params.tb
  let mut history_steps : Int := draw_params.histSteps
  let mut history_step_size : Int := draw_params.histStepSize
  out := out ++ ((CR.PyC19.pyRangeDown history_steps 0)).flatMap (fun history_idx => Id.run do
      let mut out : List Item := []
      let mut time_step : Int := (time_begin - (history_idx * history_step_size))
      let mut occ : Option CR.PyC19.OccH := (CR.PyC19.occupancyAt dyn_obs time_step)
      if occ.isSome then
        out := out ++ [Item.hist (occ.getD default).t]
      return out)
  return out
