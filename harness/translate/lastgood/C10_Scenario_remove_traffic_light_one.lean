/-- commonroad/scenario/scenario.py: Scenario.remove_traffic_light — argument is one TrafficLight -/
def Scenario_remove_traffic_light_one (self : CR.Refs.Scn) (traffic_light : CR.Refs.Elem) : CR.Refs.Scn × Option CR.Err :=
  if (CR.PyR.findLight self.net traffic_light.1).isNone then
    (self, some .key)
  else
    let self := { self with net := (LaneletNetwork_remove_traffic_light self.net traffic_light.1) }
    CR.PyR.andThen (CR.PyR.idSetRemove self traffic_light.1) (fun self =>
      (self, none))
