/-- commonroad/scenario/traffic_sign.py: TrafficSignElement.__eq__ / TrafficSignElement.__hash__ -/
def src_TrafficSignElement : ClassSrc :=
  { guard := "TrafficSignElement",
    eqs := [
      ⟨"traffic_sign_element_id", [(.eq .id)]⟩,
      ⟨"additional_values", [(.eq .set)]⟩],
    hashes := [
      ⟨"traffic_sign_element_id", .it⟩,
      ⟨"additional_values", (.frozenset .it)⟩] }
