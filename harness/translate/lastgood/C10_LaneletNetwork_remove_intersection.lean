/-- commonroad/scenario/lanelet.py: LaneletNetwork.remove_intersection -/
def LaneletNetwork_remove_intersection (self : CR.Refs.Net) (intersection_id : CR.Refs.Id) : CR.Refs.Net :=
  let self :=
    if (CR.PyR.mem intersection_id self.iids) then
      let self := { self with inters := self.inters.filter (fun e => e.id != intersection_id) }
      self
    else
      self
  self
