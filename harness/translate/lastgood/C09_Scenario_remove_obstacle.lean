/-- commonroad/scenario/scenario.py: Scenario.remove_obstacle — one obstacle (reduced to its id) -/
def Scenario_remove_obstacle (s : St) (obstacle : Nat) : St × Out :=
  if decide (obstacle ∈ s.stat) then (
    PyC09.tryE (PyC09.delStat s obstacle) (fun s =>
      PyC09.tryE (PyC09.idSetRemove s obstacle) (fun s =>
        (s, .ok)) (fun s o_ => (s, o_))) (fun s o_ => (s, o_))) else (
    if decide (obstacle ∈ s.dyn) then (
      PyC09.tryE (PyC09.delDyn s obstacle) (fun s =>
        PyC09.tryE (PyC09.idSetRemove s obstacle) (fun s =>
          (s, .ok)) (fun s o_ => (s, o_))) (fun s o_ => (s, o_))) else (
      if decide (obstacle ∈ s.env) then (
        PyC09.tryE (PyC09.delEnv s obstacle) (fun s =>
          PyC09.tryE (PyC09.idSetRemove s obstacle) (fun s =>
            (s, .ok)) (fun s o_ => (s, o_))) (fun s o_ => (s, o_))) else (
        if decide (obstacle ∈ s.phan) then (
          PyC09.tryE (PyC09.delPhan s obstacle) (fun s =>
            PyC09.tryE (PyC09.idSetRemove s obstacle) (fun s =>
              (s, .ok)) (fun s o_ => (s, o_))) (fun s o_ => (s, o_))) else (
          (s, .ok)))))
