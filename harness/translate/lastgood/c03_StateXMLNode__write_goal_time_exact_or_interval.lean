-- StateXMLNode._write_goal_time_exact_or_interval :: b_State_write_goal_time_exact_or_interval
def b_State_write_goal_time_exact_or_interval : CR.SrcW.Builder where
  key := "StateXMLNode._write_goal_time_exact_or_interval"
  kind := .fill
  tag := ""
  xsd := "integerIntervalGreaterZero"
  path := []
  parent := ""
  attrs := []
  gattrs := []
  text := none
  atoms := ["isinstance(time_step, (int, np.integer))", "isinstance(time_step, Interval)"]
  body :=
    (.ite (.atom 0)
      (.emit "exact" "create_exact_node_int")
      (.ite (.atom 1)
        (.splice "create_interval_node_int")
        .raise))
