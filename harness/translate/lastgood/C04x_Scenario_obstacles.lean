/-- commonroad/scenario/scenario.py: Scenario.obstacles — the four dictionaries in the order static, dynamic, phantom, environment -/
def Scenario_obstacles (s : CR.Occ.Scn) : List (Nat × CR.Occ.Obst) := Id.run do
  return (CR.PyC04.chain4 (CR.PyC04.values s.st) (CR.PyC04.values s.dy) (CR.PyC04.values s.ph) (CR.PyC04.values s.en))
