-- XMLFileWriter._write_header :: b_XMLFileWriter_write_header
def b_XMLFileWriter_write_header : CR.SrcW.Builder where
  key := "XMLFileWriter._write_header"
  kind := .fill
  tag := ""
  xsd := "/commonRoad"
  path := []
  parent := ""
  attrs := [("timeStepSize", (.decimalToStr "_.scenario.dt")), ("commonRoadVersion", (.raw "SCENARIO_VERSION")), ("author", (.raw "_.author")), ("affiliation", (.raw "_.affiliation")), ("source", (.raw "_.source")), ("date", (.other "datetime.datetime.today().strftime('%Y-%m-%d')"))]
  gattrs := [("benchmarkID", (.str "_.scenario.scenario_id")), ("benchmarkID", (.const "-1"))]
  text := none
  atoms := ["except Exception"]
  body :=
    .skip
