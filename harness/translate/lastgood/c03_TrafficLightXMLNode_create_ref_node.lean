-- TrafficLightXMLNode.create_ref_node :: b_TrafficLight_create_ref_node
def b_TrafficLight_create_ref_node : CR.SrcW.Builder where
  key := "TrafficLightXMLNode.create_ref_node"
  kind := .node
  tag := "trafficLightRef"
  xsd := "trafficLightRef"
  path := []
  parent := ""
  attrs := [("ref", (.str "_"))]
  gattrs := []
  text := none
  atoms := []
  body :=
    .skip
