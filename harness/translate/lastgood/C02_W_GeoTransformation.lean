/-- commonroad/common/writer/file_writer_protobuf.py GeoTransformationMessage.create_message -/
def W_GeoTransformation (g : Geo) : PB :=
  PB.msg [("geo_reference", (PB.str g.ref)), ("x_translation", (PB.dbl g.x)), ("y_translation", (PB.dbl g.y)), ("z_rotation", (PB.dbl g.rot)), ("scaling", (PB.dbl g.scaling))]
