/-- commonroad/scenario/lanelet.py: LaneletNetwork.find_lanelet_by_shape — argument is a Circle / Polygon / Rectangle; `env` is the envelope test of STRtree.query, `isects ring shape` is `polygon.intersects(shape.shapely_object)` -/
def LaneletNetwork_find_lanelet_by_shape_prim (env isects : List CR.Geom.Pt → CR.Geom.Prim → Bool) (self : CR.Index.Net) (shape : CR.Geom.Prim) : Res (List Int) := do
  let res : List Int := []
  let res ← CR.Py06.lfoldlM ((← CR.Py06.strQuery env self.tree shape)) res (fun res x1_ => do
      let lanelet_shapely_polygon := (← CR.Py06.treeGeom self.tree x1_)
      if (isects (lanelet_shapely_polygon).ring shape) then
        let res := res ++ [(← LaneletNetwork_get_lanelet_id_by_shapely_polygon self lanelet_shapely_polygon)]
        return res
      else
        return res)
  return res
