/-- commonroad/scenario/lanelet.py: LaneletNetwork.__init__ — the four attributes of the spatial index; the object starts without any attribute (tree = none) -/
def LaneletNetwork_init  : CR.Index.Net :=
  let self : CR.Index.Net := ⟨[], [], none, []⟩
  let self := { self with lanelets := [] }
  let self := { self with buffered := [] }
  let self := { self with tree := (CR.Py06.strtree []) }
  let self := { self with idOf := [] }
  self
