/-- commonroad/scenario/scenario.py: Scenario.remove_intersection -/
def Scenario_remove_intersection (s : St) (intersection : Inter) : St × Out :=
  let contained_intersection : Option (Inter) := (PyC09.findInter s.net intersection.id)
  if (contained_intersection).isNone then (
    (s, .err .key)) else (
    let s : St := { s with net := (s.net).removeInter intersection.id }
    PyC09.tryE (PyC09.idSetRemove s intersection.id) (fun s =>
      PyC09.tryE (PyC09.forE (fun s inc =>
          PyC09.tryE (PyC09.idSetRemove s inc) (fun s =>
            (s, .ok)) (fun s o_ => (s, o_))) s ((contained_intersection.getD default).incs)) (fun s =>
        (s, .ok)) (fun s o_ =>
        (s, o_))) (fun s o_ => (s, o_)))
