/-- commonroad/scenario/scenario.py: GeoTransformation.__eq__ / GeoTransformation.__hash__ -/
def src_GeoTransformation : ClassSrc :=
  { guard := "GeoTransformation",
    eqs := [
      ⟨"geo_reference", [(.eq .id)]⟩,
      ⟨"x_translation", [(.eq .id)]⟩,
      ⟨"y_translation", [(.eq .id)]⟩,
      ⟨"z_rotation", [(.eq .id)]⟩,
      ⟨"scaling", [(.eq .id)]⟩],
    hashes := [
      ⟨"geo_reference", .it⟩,
      ⟨"x_translation", .it⟩,
      ⟨"y_translation", .it⟩,
      ⟨"z_rotation", .it⟩,
      ⟨"scaling", .it⟩] }
