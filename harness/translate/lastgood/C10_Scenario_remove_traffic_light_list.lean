/-- commonroad/scenario/scenario.py: Scenario.remove_traffic_light — argument is a list -/
def Scenario_remove_traffic_light_list (self : CR.Refs.Scn) (traffic_light : List (CR.Refs.Elem)) : CR.Refs.Scn × Option CR.Err :=
  CR.PyR.andThen (CR.PyR.forEach (fun self (light : CR.Refs.Elem) =>
      CR.PyR.andThen (Scenario_remove_traffic_light_one self light) (fun self =>
        (self, none))) self traffic_light) (fun self =>
    (self, none))
