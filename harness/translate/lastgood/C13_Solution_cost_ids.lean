/-- commonroad/common/solution.py: Solution.cost_ids -/
def Solution_cost_ids (pps : List (CR.BenchId.Pps)) : List (Str) := Id.run do
  return ((pps).map (fun pp_solution => (PlanningProblemSolution_cost_id (pp_solution).cost)))
