/-- commonroad/common/solution.py: enum StateType — (member name, value) in definition order -/
def Sol_StateType : List (String × String) := [("MB", "mbState"), ("ST", "stState"), ("KS", "ksState"), ("KST", "kstState"), ("PM", "pmState"), ("Input", "input"), ("PMInput", "pmInput")]
