/-- commonroad/scenario/lanelet.py: LaneletNetwork.remove_lanelet — the spatial index (`rtree`, `_buffered_polygons`) is not modelled -/
def LaneletNetwork_remove_lanelet (self : CR.Refs.Net) (lanelet_id : CR.Refs.Id) : CR.Refs.Net :=
  let self :=
    if (CR.PyR.mem lanelet_id self.lids) then
      let self := { self with lanelets := self.lanelets.filter (fun e => e.id != lanelet_id) }
      let self := (LaneletNetwork_cleanup_lanelet_references self)
      self
    else
      self
  self
