/-- commonroad/scenario/obstacle.py: EnvironmentObstacle.__eq__ / EnvironmentObstacle.__hash__ -/
def src_EnvironmentObstacle : ClassSrc :=
  { guard := "EnvironmentObstacle",
    eqs := [
      ⟨"obstacle_id", [(.eq .id)]⟩,
      ⟨"obstacle_role", [(.eq .id)]⟩,
      ⟨"obstacle_type", [(.eq .id)]⟩,
      ⟨"obstacle_shape", [(.eq .id)]⟩],
    hashes := [
      ⟨"obstacle_id", .it⟩,
      ⟨"obstacle_role", .it⟩,
      ⟨"obstacle_type", .it⟩,
      ⟨"obstacle_shape", .it⟩] }
