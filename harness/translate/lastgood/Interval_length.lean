/-- commonroad/common/util.py: Interval.length -/
def Interval_length (self : CR.Iv.I) : Rat := Id.run do
  return (self.hi - self.lo)
