-- ShapeXMLNode._create_single_element :: b_Shape_create_single_element
def b_Shape_create_single_element : CR.SrcW.Builder where
  key := "ShapeXMLNode._create_single_element"
  kind := .list
  tag := ""
  xsd := "shape"
  path := []
  parent := ""
  attrs := []
  gattrs := []
  text := none
  atoms := ["isinstance(_, Rectangle)", "isinstance(_, Circle)", "isinstance(_, Polygon)"]
  body :=
    (.ite (.atom 0)
      (.emit "rectangle" "RectangleXMLNode.create_rectangle_node")
      (.ite (.atom 1)
        (.emit "circle" "CircleXMLNode.create_circle_node")
        (.ite (.atom 2)
          (.emit "polygon" "PolygonXMLNode.create_polygon_node")
          .raise)))
