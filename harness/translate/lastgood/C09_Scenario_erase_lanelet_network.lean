/-- commonroad/scenario/scenario.py: Scenario.erase_lanelet_network -/
def Scenario_erase_lanelet_network (s : St) : St × Out :=
  PyC09.tryE (PyC09.forE (fun s k_ => PyC09.withLanelet s k_ (fun lanelet =>
        PyC09.tryE (Scenario_remove_lanelet s lanelet true) (fun s =>
          (s, .ok)) (fun s o_ => (s, o_)))) s ((s.net.lanelets).map (·.id))) (fun s =>
    PyC09.tryE (PyC09.forE (fun s traffic_sign =>
        PyC09.tryE (Scenario_remove_traffic_sign s traffic_sign) (fun s =>
          (s, .ok)) (fun s o_ => (s, o_))) s (s.net.signs)) (fun s =>
      PyC09.tryE (PyC09.forE (fun s traffic_light =>
          PyC09.tryE (Scenario_remove_traffic_light s traffic_light) (fun s =>
            (s, .ok)) (fun s o_ => (s, o_))) s (s.net.lights)) (fun s =>
        PyC09.tryE (PyC09.forE (fun s intersection =>
            PyC09.tryE (Scenario_remove_intersection s intersection) (fun s =>
              (s, .ok)) (fun s o_ => (s, o_))) s (s.net.inters)) (fun s =>
          let s : St := { s with net := ({} : Net) }
          (s, .ok)) (fun s o_ =>
          (s, o_))) (fun s o_ =>
        (s, o_))) (fun s o_ =>
      (s, o_))) (fun s o_ =>
    (s, o_))
