/-- commonroad/planning/planning_problem.py: PlanningProblemSet.__eq__ / PlanningProblemSet.__hash__ -/
def src_PlanningProblemSet : ClassSrc :=
  { guard := "PlanningProblemSet",
    eqs := [
      ⟨"planning_problem_dict", [(.eq .items)]⟩],
    hashes := [
      ⟨"planning_problem_dict", (.frozensetItems .it)⟩] }
