/-- commonroad/common/util.py: Interval.__lt__ -/
def Interval_lt_interval (self : CR.Iv.I) (other : CR.Iv.I) : Bool := Id.run do
  return (if decide (self.hi < other.lo) then true else false)
