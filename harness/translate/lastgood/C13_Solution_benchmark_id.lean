/-- commonroad/common/solution.py: Solution.benchmark_id -/
def Solution_benchmark_id (pps : List (CR.BenchId.Pps)) (sid : CR.BenchId.Id) : Res (Str) := do
  let vehicle_ids : List (Str) := (Solution_vehicle_ids pps)
  let cost_ids : List (Str) := (Solution_cost_ids pps)
  let vehicles_str : Str := (← (if decide ((((vehicle_ids).length : Nat) : Int) = (1 : Int)) then (do return (← CR.Py.getItem vehicle_ids (0 : Int))) else (pure ((['['] : Str) ++ (CR.PyC13.joinS ([','] : Str) vehicle_ids) ++ ([']'] : Str))) : Res (Str)))
  let costs_str : Str := (← (if decide ((((cost_ids).length : Nat) : Int) = (1 : Int)) then (do return (← CR.Py.getItem cost_ids (0 : Int))) else (pure ((['['] : Str) ++ (CR.PyC13.joinS ([','] : Str) cost_ids) ++ ([']'] : Str))) : Res (Str)))
  return (vehicles_str ++ ([':'] : Str) ++ costs_str ++ ([':'] : Str) ++ (← ScenarioID_str sid) ++ ([':'] : Str) ++ (sid).version)
