/-- commonroad/scenario/traffic_light.py: TrafficLightCycle.cycle_init_timesteps — memoised property: the computation inside `if not hasattr` -/
def TrafficLightCycle_cycle_init_timesteps (es : List CR.TL.Elem) (off : Int) : List Int := Id.run do
  let durations := ((es).map (fun cycle_el => cycle_el.2))
  let _cycle_init_timesteps := (CR.Py.cumsumPlus durations off)
  let _cycle_init_timesteps := (CR.Py.insert0 _cycle_init_timesteps off)
  return _cycle_init_timesteps
