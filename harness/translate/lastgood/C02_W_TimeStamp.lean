/-- commonroad/common/writer/file_writer_protobuf.py TimeStampMessage.create_message — the `Time` branch (a datetime is written only into the date stamp, which is not content) -/
def W_TimeStamp (t : Tm) : PB :=
  PB.msg [("year", (PB.ofOpt (Option.map (fun x1 => (PB.u32 x1)) t.year))), ("month", (PB.ofOpt (Option.map (fun x2 => (PB.u32 x2)) t.month))), ("day", (PB.ofOpt (Option.map (fun x3 => (PB.u32 x3)) t.day))), ("hour", (PB.u32 t.h)), ("minute", (PB.u32 t.m))]
