/-- commonroad/common/writer/file_writer_protobuf.py TimeStampMessage.create_message — the `Time` branch (a datetime is written only into the date stamp, which is not content) -/
def W_TimeStamp (t : Tm) : PB :=
  PB.msg [("year", (PB.ofOpt (Option.map (fun v1 => (PB.u32 v1)) t.year))), ("month", (PB.ofOpt (Option.map (fun v2 => (PB.u32 v2)) t.month))), ("day", (PB.ofOpt (Option.map (fun v3 => (PB.u32 v3)) t.day))), ("hour", (PB.u32 t.h)), ("minute", (PB.u32 t.m))]
