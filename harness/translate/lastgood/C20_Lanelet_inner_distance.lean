/-- commonroad/scenario/lanelet.py: Lanelet.inner_distance — getter; the cache `self._inner_distance` is the state -/
def Lanelet_inner_distance (norm : CR.Arc.Pt → Rat) (self__inner_distance : Option (List Rat)) (left right : List CR.Arc.Pt) : Option (List Rat) :=
  let self__inner_distance := (
    if (self__inner_distance).isNone then
      let self__inner_distance := (some (Lanelet_compute_polyline_cumsum_dist norm [left, right]))
      self__inner_distance
    else
      self__inner_distance)
  self__inner_distance
