/-- commonroad/scenario/scenario.py: ScenarioID.from_benchmark_id — `benchmark_id_pattern.fullmatch` is the model's deterministic matcher `matchId` (the pattern text itself is tied separately: ScenarioID_benchmark_id_pattern); match["name"] reads the field of `Groups` -/
def ScenarioID_from_benchmark_id (cs : List Str) (benchmark_id : Str) (scenario_version : Str) : Res (CR.PyC13.SId) := do
  let match_ : Option (CR.BenchId.Groups) := (CR.BenchId.matchId benchmark_id)
  match match_ with
  | some match_' =>
    let cooperative : Bool := ((if (match_').coop then some (['C', '-'] : Str) else none)).isSome
    let country_id : Str := (match_').country
    let map_name : Str := (match_').mapName
    let map_id : Int := (CR.PyC13.intOfDigits (match_').mapId)
    let configuration_id : Option (Int) := (match (match_').config with | some v0 => (some (CR.PyC13.intOfDigits v0)) | none => none)
    let prediction_type : Option (Str) := ((match_').predType.map (fun c => [c]))
    let prediction_id : Option (Str) := (match_').predIds
    match prediction_id with
    | some prediction_id' =>
      let prediction_id : List (Int) := (((((CR.PyC13.split prediction_id' '-')).drop 1)).map (fun pid => (CR.PyC13.intOfDigits pid)))
      if decide ((((prediction_id).length : Nat) : Int) = (1 : Int)) then
        let prediction_id : Int := (← CR.Py.getItem prediction_id (0 : Int))
        return (← ScenarioID_init cs cooperative (some country_id) map_name map_id configuration_id prediction_type (CR.PyC13.PV.sc (CR.PyC13.Sc.int prediction_id)) scenario_version)
      else
        return (← ScenarioID_init cs cooperative (some country_id) map_name map_id configuration_id prediction_type (CR.PyC13.PV.list ((prediction_id).map CR.PyC13.Sc.int)) scenario_version)
    | none =>
      return (← ScenarioID_init cs cooperative (some country_id) map_name map_id configuration_id prediction_type (CR.PyC13.PV.sc CR.PyC13.Sc.none) scenario_version)
  | none =>
    return (← ScenarioID_init cs false (some (['Z', 'A', 'M'] : Str)) benchmark_id (1 : Int) none none (CR.PyC13.PV.sc CR.PyC13.Sc.none) SCENARIO_VERSION)
