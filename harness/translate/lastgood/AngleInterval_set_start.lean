/-- commonroad/common/util.py: AngleInterval.start -/
def AngleInterval_set_start (τ : Rat) (self : Option Rat × Option Rat) (start : Rat) : Res (Option Rat × Option Rat) := do
  CR.Py.assert ((CR.Iv.validOrientation τ start))
  if (self.2).isSome then
    CR.Py.assert (decide (start ≤ (self.2.getD 0)))
    let self := ((some start), self.2)
    return self
  else
    let self := ((some start), self.2)
    return self
