/-- commonroad/scenario/trajectory.py: Trajectory.state_at_time_step — the state is identified by its index in the state list -/
def Trajectory_state_at_time_step (t0 : Int) (n : Nat) (time_step : Int) : Option Nat := Id.run do
  let state := none
  if (decide (t0 ≤ time_step) && decide (time_step < (t0 + (((List.range n)).length : Int)))) then
    let state := some ((time_step - t0)).toNat
    return state
  else
    return state
