/-- commonroad/common/solution.py: CommonRoadSolutionReader._parse_benchmark_id -/
def Reader_parse_benchmark_id (cs : List Str) (benchmark_id : Str) : Res ((List (Str)) × (List (Str)) × (CR.PyC13.SId)) := do
  let segments : List (Str) := (CR.PyC13.split (CR.PyC13.removeChar ' ' benchmark_id) ':')
  if (!decide ((((segments).length : Nat) : Int) = (4 : Int))) then
    throw CR.Err.other
  else
    let vehicle_model_ids : List (Str) := (CR.PyC13.split (CR.PyC13.delClass false [('[', '['), (']', ']')] (← CR.Py.getItem segments (0 : Int))) ',')
    let cost_function_ids : List (Str) := (CR.PyC13.split (CR.PyC13.delClass false [('[', '['), (']', ']')] (← CR.Py.getItem segments (1 : Int))) ',')
    let scenario_id : CR.PyC13.SId := (← ScenarioID_from_benchmark_id cs (← CR.Py.getItem segments (2 : Int)) (← CR.Py.getItem segments (3 : Int)))
    return (vehicle_model_ids, cost_function_ids, scenario_id)
