/-- commonroad/geometry/shape.py: Rectangle.__init__ -/
def Rectangle_init (length : Rat) (width : Rat) (center : Option CR.Geom.Pt) (orientation : Rat × Rat) : CR.ShapeObj.RectObj :=
  let self : CR.ShapeObj.RectObj := ⟨0, 0, ⟨0, 0⟩, (1, 0), none, none⟩
  let self := Rectangle_set_length self length
  let self := Rectangle_set_width self width
  let self := Rectangle_set_center self (center.getD ⟨0, 0⟩)
  let self := Rectangle_set_orientation self orientation
  let self := { self with vertices := none }
  let self := { self with polygon := none }
  self
