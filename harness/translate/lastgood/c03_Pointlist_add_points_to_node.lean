-- Pointlist.add_points_to_node :: b_Pointlist_add_points_to_node
def b_Pointlist_add_points_to_node : CR.SrcW.Builder where
  key := "Pointlist.add_points_to_node"
  kind := .fill
  tag := ""
  xsd := ""
  path := []
  parent := ""
  attrs := []
  gattrs := []
  text := none
  atoms := []
  body :=
    (.each "_.points"
      (.emit "point" "Point.create_node"))
