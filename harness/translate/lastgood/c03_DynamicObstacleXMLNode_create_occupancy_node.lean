-- DynamicObstacleXMLNode.create_occupancy_node :: b_DynamicObstacle_create_occupancy_node
def b_DynamicObstacle_create_occupancy_node : CR.SrcW.Builder where
  key := "DynamicObstacleXMLNode.create_occupancy_node"
  kind := .node
  tag := "occupancySet"
  xsd := "dynamicObstacle/occupancySet"
  path := []
  parent := ""
  attrs := []
  gattrs := []
  text := none
  atoms := []
  body :=
    (.each "_"
      (.emit "occupancy" "OccupancyXMLNode.create_node"))
