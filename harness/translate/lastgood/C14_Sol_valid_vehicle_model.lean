/-- commonroad/common/solution.py: TrajectoryType.valid_vehicle_model -/
def Sol_valid_vehicle_model (self : CR.Sol.TType) (vehicle_model : CR.Sol.VModel) : Bool := Id.run do
  return (CR.PyS.any [(decide (self.name = "Input") && (CR.PyS.elem vehicle_model [CR.Sol.VModel.KS, CR.Sol.VModel.ST, CR.Sol.VModel.MB])), (decide (self.name = "PMInput") && decide (vehicle_model = CR.Sol.VModel.PM)), decide (self.name = vehicle_model.name)])
