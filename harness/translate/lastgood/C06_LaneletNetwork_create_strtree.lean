/-- commonroad/scenario/lanelet.py: assert_shapely_polygon -/
def LaneletNetwork_create_strtree.assert_shapely_polygon (lanelet_id : Int) (polygon : CR.Index.PolyObj) : Bool :=
  true

/-- commonroad/scenario/lanelet.py: LaneletNetwork._create_strtree — every buffered value is a shapely polygon object (PolyObj): the validity filter is evaluated statically -/
def LaneletNetwork_create_strtree (self : CR.Index.Net) : CR.Index.Net :=
  let self := { self with buffered := (CR.Py06.lmap (CR.Py06.lfilter (self.buffered) (fun e1_ => (LaneletNetwork_create_strtree.assert_shapely_polygon e1_.1 e1_.2))) (fun e1_ => (e1_.1, e1_.2))) }
  let self := { self with idOf := (CR.Py06.lmap (self.buffered) (fun e2_ => ((e2_.2).addr, e2_.1))) }
  let self := { self with tree := (CR.Py06.strtree (CR.Py06.lmap (self.buffered) (fun e_ => e_.2))) }
  self
