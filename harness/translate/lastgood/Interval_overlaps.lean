/-- commonroad/common/util.py: Interval.overlaps -/
def Interval_overlaps (self : CR.Iv.I) (interval : CR.Iv.I) : Bool := Id.run do
  return (decide (self.hi ≥ interval.lo) && decide (interval.hi ≥ self.lo))
