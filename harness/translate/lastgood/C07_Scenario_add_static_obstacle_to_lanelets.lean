/-- commonroad/scenario/scenario.py: Scenario._add_static_obstacle_to_lanelets -/
def Scenario_add_static_obstacle_to_lanelets (E : CR.Assign.Env) (s : CR.Assign.St) (obstacle_id : Int) (lanelet_ids : Option (List CR.Assign.Id)) : Res CR.Assign.St := do
  if ((lanelet_ids).isNone || decide (((E.lanelets).length : Int) = 0)) then do
    return s
  else do
    let s ← ((← CR.PyC07.iter lanelet_ids)).foldlM (fun s l_id => do
      let s := CR.PyC07.ssetAdd s (← CR.PyC07.deref (CR.PyC07.findLanelet E l_id)) obstacle_id
      pure s) s
    return s
