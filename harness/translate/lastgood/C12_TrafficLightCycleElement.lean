/-- commonroad/scenario/traffic_light.py: TrafficLightCycleElement.__eq__ / TrafficLightCycleElement.__hash__ -/
def src_TrafficLightCycleElement : ClassSrc :=
  { guard := "TrafficLightCycleElement",
    eqs := [
      ⟨"state", [(.eq .id)]⟩,
      ⟨"duration", [(.eq .id)]⟩],
    hashes := [
      ⟨"state", .it⟩,
      ⟨"duration", .it⟩] }
