/-- commonroad/common/writer/file_writer_protobuf.py: ProtobufFileWriter.__init__ — ordered state accesses (structural extraction) -/
def ProtobufFileWriter_init_accesses : List CR.PyW.Access :=
  [("super", "__init__", "scenario, planning_problem_set, author, affiliation, source, tags, location, decimal_precision"),
   ("assign", "self._commonroad_msg", "commonroad_pb2.CommonRoad()")]
