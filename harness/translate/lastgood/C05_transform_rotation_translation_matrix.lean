/-- commonroad/geometry/transform.py: rotation_translation_matrix — c = math.cos(angle), s = math.sin(angle), a = angle -/
def transform_rotation_translation_matrix (c s a : Rat) (translation : CR.Rigid.Pt) : CR.PyC05.M3 := Id.run do
  let mut cos_angle := (0 : Rat)
  let mut sin_angle := (0 : Rat)
  if decide (a = 0) then
    cos_angle := 1
    sin_angle := 0
  else
    cos_angle := c
    sin_angle := s
  return (CR.PyC05.M3.mk cos_angle (-sin_angle) translation.x sin_angle cos_angle translation.y 0 0 1)
