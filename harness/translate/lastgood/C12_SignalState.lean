/-- commonroad/scenario/state.py: SignalState.__slots__ / __eq__ / __hash__ -/
def src_SignalState : SignalSrc :=
  { slots := ["horn", "indicator_left", "indicator_right", "braking_lights", "hazard_warning_lights", "flashing_blue_lights", "time_step"], guard := "SignalState", eqLoopOver := "SignalState.__slots__",
    comparesPresence := true, comparesValues := true, endsTrue := true,
    hashLoopOver := "SignalState.__slots__", hashOnlyAssigned := true, hashFrozenset := true }
