-- SignalStateXMLNode.create_signal_state_node :: b_SignalState_create_signal_state_node b_SignalState_create_signal_state_node_flashingBlueLights b_SignalState_create_signal_state_node_hazardWarningLights b_SignalState_create_signal_state_node_brakingLights b_SignalState_create_signal_state_node_indicatorRight b_SignalState_create_signal_state_node_indicatorLeft b_SignalState_create_signal_state_node_horn b_SignalState_create_signal_state_node_time
def b_SignalState_create_signal_state_node : CR.SrcW.Builder where
  key := "SignalStateXMLNode.create_signal_state_node"
  kind := .fill
  tag := ""
  xsd := "signalState"
  path := []
  parent := ""
  attrs := []
  gattrs := []
  text := none
  atoms := ["hasattr(_, 'horn')", "hasattr(_, 'indicator_left')", "hasattr(_, 'indicator_right')", "hasattr(_, 'braking_lights')", "hasattr(_, 'hazard_warning_lights')", "hasattr(_, 'flashing_blue_lights')"]
  body :=
    (.seq
      (.emit "time" "SignalStateXMLNode.create_signal_state_node/time")
      (.seq
        (.ite (.atom 0)
          (.emit "horn" "SignalStateXMLNode.create_signal_state_node/horn")
          .skip)
        (.seq
          (.ite (.atom 1)
            (.emit "indicatorLeft" "SignalStateXMLNode.create_signal_state_node/indicatorLeft")
            .skip)
          (.seq
            (.ite (.atom 2)
              (.emit "indicatorRight" "SignalStateXMLNode.create_signal_state_node/indicatorRight")
              .skip)
            (.seq
              (.ite (.atom 3)
                (.emit "brakingLights" "SignalStateXMLNode.create_signal_state_node/brakingLights")
                .skip)
              (.seq
                (.ite (.atom 4)
                  (.emit "hazardWarningLights" "SignalStateXMLNode.create_signal_state_node/hazardWarningLights")
                  .skip)
                (.ite (.atom 5)
                  (.emit "flashingBlueLights" "SignalStateXMLNode.create_signal_state_node/flashingBlueLights")
                  .skip)))))))

def b_SignalState_create_signal_state_node_flashingBlueLights : CR.SrcW.Builder where
  key := "SignalStateXMLNode.create_signal_state_node/flashingBlueLights"
  kind := .node
  tag := "flashingBlueLights"
  xsd := "signalState"
  path := ["flashingBlueLights"]
  parent := "SignalStateXMLNode.create_signal_state_node"
  attrs := []
  gattrs := []
  text := some (.strLower "_.flashing_blue_lights")
  atoms := []
  body :=
    .skip

def b_SignalState_create_signal_state_node_hazardWarningLights : CR.SrcW.Builder where
  key := "SignalStateXMLNode.create_signal_state_node/hazardWarningLights"
  kind := .node
  tag := "hazardWarningLights"
  xsd := "signalState"
  path := ["hazardWarningLights"]
  parent := "SignalStateXMLNode.create_signal_state_node"
  attrs := []
  gattrs := []
  text := some (.strLower "_.hazard_warning_lights")
  atoms := []
  body :=
    .skip

def b_SignalState_create_signal_state_node_brakingLights : CR.SrcW.Builder where
  key := "SignalStateXMLNode.create_signal_state_node/brakingLights"
  kind := .node
  tag := "brakingLights"
  xsd := "signalState"
  path := ["brakingLights"]
  parent := "SignalStateXMLNode.create_signal_state_node"
  attrs := []
  gattrs := []
  text := some (.strLower "_.braking_lights")
  atoms := []
  body :=
    .skip

def b_SignalState_create_signal_state_node_indicatorRight : CR.SrcW.Builder where
  key := "SignalStateXMLNode.create_signal_state_node/indicatorRight"
  kind := .node
  tag := "indicatorRight"
  xsd := "signalState"
  path := ["indicatorRight"]
  parent := "SignalStateXMLNode.create_signal_state_node"
  attrs := []
  gattrs := []
  text := some (.strLower "_.indicator_right")
  atoms := []
  body :=
    .skip

def b_SignalState_create_signal_state_node_indicatorLeft : CR.SrcW.Builder where
  key := "SignalStateXMLNode.create_signal_state_node/indicatorLeft"
  kind := .node
  tag := "indicatorLeft"
  xsd := "signalState"
  path := ["indicatorLeft"]
  parent := "SignalStateXMLNode.create_signal_state_node"
  attrs := []
  gattrs := []
  text := some (.strLower "_.indicator_left")
  atoms := []
  body :=
    .skip

def b_SignalState_create_signal_state_node_horn : CR.SrcW.Builder where
  key := "SignalStateXMLNode.create_signal_state_node/horn"
  kind := .node
  tag := "horn"
  xsd := "signalState"
  path := ["horn"]
  parent := "SignalStateXMLNode.create_signal_state_node"
  attrs := []
  gattrs := []
  text := some (.strLower "_.horn")
  atoms := []
  body :=
    .skip

def b_SignalState_create_signal_state_node_time : CR.SrcW.Builder where
  key := "SignalStateXMLNode.create_signal_state_node/time"
  kind := .node
  tag := "time"
  xsd := "signalState"
  path := ["time"]
  parent := "SignalStateXMLNode.create_signal_state_node"
  attrs := []
  gattrs := []
  text := none
  atoms := []
  body :=
    (.emit "exact" "create_exact_node_int")
