-- GeoTransformationXMLNode.create_node :: b_GeoTransformation_create_node b_GeoTransformation_create_node_additionalTransformation b_GeoTransformation_create_node_additionalTransformation_scaling b_GeoTransformation_create_node_additionalTransformation_zRotation b_GeoTransformation_create_node_additionalTransformation_yTranslation b_GeoTransformation_create_node_additionalTransformation_xTranslation b_GeoTransformation_create_node_geoReference
def b_GeoTransformation_create_node : CR.SrcW.Builder where
  key := "GeoTransformationXMLNode.create_node"
  kind := .node
  tag := "geoTransformation"
  xsd := "geoTransformation"
  path := []
  parent := ""
  attrs := []
  gattrs := []
  text := none
  atoms := ["isinstance(_.geo_reference, str)"]
  body :=
    (.seq
      (.emit "geoReference" "GeoTransformationXMLNode.create_node/geoReference")
      (.emit "additionalTransformation" "GeoTransformationXMLNode.create_node/additionalTransformation"))

def b_GeoTransformation_create_node_additionalTransformation : CR.SrcW.Builder where
  key := "GeoTransformationXMLNode.create_node/additionalTransformation"
  kind := .node
  tag := "additionalTransformation"
  xsd := "geoTransformation"
  path := ["additionalTransformation"]
  parent := "GeoTransformationXMLNode.create_node"
  attrs := []
  gattrs := []
  text := none
  atoms := []
  body :=
    (.seq
      (.emit "xTranslation" "GeoTransformationXMLNode.create_node/additionalTransformation/xTranslation")
      (.seq
        (.emit "yTranslation" "GeoTransformationXMLNode.create_node/additionalTransformation/yTranslation")
        (.seq
          (.emit "zRotation" "GeoTransformationXMLNode.create_node/additionalTransformation/zRotation")
          (.emit "scaling" "GeoTransformationXMLNode.create_node/additionalTransformation/scaling"))))

def b_GeoTransformation_create_node_additionalTransformation_scaling : CR.SrcW.Builder where
  key := "GeoTransformationXMLNode.create_node/additionalTransformation/scaling"
  kind := .node
  tag := "scaling"
  xsd := "geoTransformation"
  path := ["additionalTransformation", "scaling"]
  parent := "GeoTransformationXMLNode.create_node/additionalTransformation"
  attrs := []
  gattrs := []
  text := some (.decimalToStr "_.scaling")
  atoms := []
  body :=
    .skip

def b_GeoTransformation_create_node_additionalTransformation_zRotation : CR.SrcW.Builder where
  key := "GeoTransformationXMLNode.create_node/additionalTransformation/zRotation"
  kind := .node
  tag := "zRotation"
  xsd := "geoTransformation"
  path := ["additionalTransformation", "zRotation"]
  parent := "GeoTransformationXMLNode.create_node/additionalTransformation"
  attrs := []
  gattrs := []
  text := some (.decimalToStr "_.z_rotation")
  atoms := []
  body :=
    .skip

def b_GeoTransformation_create_node_additionalTransformation_yTranslation : CR.SrcW.Builder where
  key := "GeoTransformationXMLNode.create_node/additionalTransformation/yTranslation"
  kind := .node
  tag := "yTranslation"
  xsd := "geoTransformation"
  path := ["additionalTransformation", "yTranslation"]
  parent := "GeoTransformationXMLNode.create_node/additionalTransformation"
  attrs := []
  gattrs := []
  text := some (.decimalToStr "_.y_translation")
  atoms := []
  body :=
    .skip

def b_GeoTransformation_create_node_additionalTransformation_xTranslation : CR.SrcW.Builder where
  key := "GeoTransformationXMLNode.create_node/additionalTransformation/xTranslation"
  kind := .node
  tag := "xTranslation"
  xsd := "geoTransformation"
  path := ["additionalTransformation", "xTranslation"]
  parent := "GeoTransformationXMLNode.create_node/additionalTransformation"
  attrs := []
  gattrs := []
  text := some (.decimalToStr "_.x_translation")
  atoms := []
  body :=
    .skip

def b_GeoTransformation_create_node_geoReference : CR.SrcW.Builder where
  key := "GeoTransformationXMLNode.create_node/geoReference"
  kind := .node
  tag := "geoReference"
  xsd := "geoTransformation"
  path := ["geoReference"]
  parent := "GeoTransformationXMLNode.create_node"
  attrs := []
  gattrs := []
  text := some (.raw "_.geo_reference")
  atoms := []
  body :=
    .skip
