/-- commonroad/scenario/lanelet.py: LaneletNetwork.create_from_lanelet_network — first loop: the ids of the kept lanelets and of the signs / lights they reference; the geometric / type test is the parameter `keep` -/
def LaneletNetwork_cut_select (lanelet_network : CR.Refs.Net) (keep : CR.Refs.Id → Bool) : (List CR.Refs.Id) × (List CR.Refs.Id) × (List CR.Refs.Id) :=
  let new_lanelet_network := CR.PyR.emptyNet
  let traffic_sign_ids : List CR.Refs.Id := []
  let traffic_light_ids : List CR.Refs.Id := []
  let lanelet_ids : List CR.Refs.Id := []
  let (lanelet_ids, traffic_light_ids, traffic_sign_ids) := lanelet_network.lanelets.foldl (fun (lanelet_ids, traffic_light_ids, traffic_sign_ids) (la : CR.Refs.Lanelet) =>
      if (!(keep la.id)) then
        (lanelet_ids, traffic_light_ids, traffic_sign_ids)
      else
        let lanelet_ids := CR.PyR.add lanelet_ids la.id
        let traffic_sign_ids := la.signs.foldl (fun traffic_sign_ids (sign_id : CR.Refs.Id) =>
            let traffic_sign_ids := CR.PyR.add traffic_sign_ids sign_id
            traffic_sign_ids) traffic_sign_ids
        let traffic_light_ids := la.lights.foldl (fun traffic_light_ids (light_id : CR.Refs.Id) =>
            let traffic_light_ids := CR.PyR.add traffic_light_ids light_id
            traffic_light_ids) traffic_light_ids
        (lanelet_ids, traffic_light_ids, traffic_sign_ids)) (lanelet_ids, traffic_light_ids, traffic_sign_ids)
  (lanelet_ids, traffic_sign_ids, traffic_light_ids)
