-- ObstacleXMLNode.create_node :: b_Obstacle_create_node
def b_Obstacle_create_node : CR.SrcW.Builder where
  key := "ObstacleXMLNode.create_node"
  kind := .list
  tag := ""
  xsd := "/commonRoad"
  path := []
  parent := ""
  attrs := []
  gattrs := []
  text := none
  atoms := ["isinstance(_, DynamicObstacle)", "isinstance(_, StaticObstacle)", "isinstance(_, EnvironmentObstacle)", "isinstance(_, PhantomObstacle)"]
  body :=
    (.ite (.atom 0)
      (.emit "?obstacle_role.value + 'Obstacle'" "DynamicObstacleXMLNode.create_node")
      (.ite (.atom 1)
        (.emit "?obstacle_role.value + 'Obstacle'" "StaticObstacleXMLNode.create_node")
        (.ite (.atom 2)
          (.emit "?obstacle_role.value + 'Obstacle'" "EnvironmentObstacleXMLNode.create_node")
          (.ite (.atom 3)
            (.emit "?obstacle_role.value + 'Obstacle'" "PhantomObstacleXMLNode.create_node")
            .raise))))
