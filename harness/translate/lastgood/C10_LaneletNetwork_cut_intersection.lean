/-- commonroad/scenario/lanelet.py: LaneletNetwork.create_from_lanelet_network — body of the loop over the old intersections: `none` = continue, `some i` = add_intersection(i) -/
def LaneletNetwork_cut_intersection (lanelet_ids : List CR.Refs.Id) (old_intersection : CR.Refs.Intersection) : Option CR.Refs.Intersection :=
  let new_incomings : List (CR.Refs.Incoming) := []
  let new_incomings := old_intersection.incomings.foldl (fun new_incomings (old_incoming : CR.Refs.Incoming) =>
      let new_incoming_lanelets := (CR.PyR.inter old_incoming.inc lanelet_ids)
      if decide (new_incoming_lanelets.length = 0) then
        new_incomings
      else
        let new_successors_right := (CR.PyR.inter old_incoming.right lanelet_ids)
        let new_successors_left := (CR.PyR.inter old_incoming.left lanelet_ids)
        let new_successors_straight := (CR.PyR.inter old_incoming.straight lanelet_ids)
        if decide (((new_successors_left.length + new_successors_straight.length) + new_successors_right.length) < 1) then
          new_incomings
        else
          let new_incoming := { id := old_incoming.id, inc := new_incoming_lanelets, right := new_successors_right, straight := new_successors_straight, left := new_successors_left, leftOf := old_incoming.leftOf : CR.Refs.Incoming }
          let new_incomings := new_incomings ++ [new_incoming]
          new_incomings) new_incomings
  if decide (new_incomings.length = 0) then
    none
  else
    let new_crossings : List CR.Refs.Id := []
    let new_crossings := old_intersection.crossings.foldl (fun new_crossings (crossing : CR.Refs.Id) =>
        let new_crossings :=
          if (CR.PyR.mem crossing lanelet_ids) then
            let new_crossings := CR.PyR.add new_crossings crossing
            new_crossings
          else
            new_crossings
        new_crossings) new_crossings
    let new_intersection := { id := old_intersection.id, incomings := new_incomings, crossings := new_crossings : CR.Refs.Intersection }
    some new_intersection
