/-- commonroad/planning/goal.py: GoalRegion._harmonize_state_types — hypot / atan2 are the parameters F.hyp / F.at2; the state is the record of its five relevant attributes -/
def GoalRegion_harmonize_state_types (F : CR.Goal.Fns) (state : CR.Goal.St) (goal_state : CR.Goal.GState) (state_fields : List CR.Goal.Fld) (goal_state_fields : List CR.Goal.Fld) : Res (CR.Goal.St × List CR.Goal.Fld × CR.Goal.GState × List CR.Goal.Fld) := do
  let state_new := state
  let (state_fields, state_new) ← (if (((CR.PyG.issubset [CR.Goal.Fld.velocity, CR.Goal.Fld.velocity_y] state_fields) && ((CR.PyG.issubset [CR.Goal.Fld.orientation] goal_state_fields) || (CR.PyG.issubset [CR.Goal.Fld.velocity] goal_state_fields))) && (!(CR.PyG.issubset [CR.Goal.Fld.velocity, CR.Goal.Fld.velocity_y] goal_state_fields))) then (do
      let velocity := (F.hyp (← CR.PyG.need state_new.vel) (← CR.PyG.need state_new.velY))
      let (state_fields, state_new) ← (if (!(CR.PyG.mem CR.Goal.Fld.orientation state_fields)) then (do
          let state_fields := CR.PyG.add state_fields CR.Goal.Fld.orientation
          let attributes := CR.PyG.attrsExcept state_new CR.Goal.Fld.velocity_y
          let attributes := CR.PyG.setNum attributes CR.Goal.Fld.orientation (F.at2 (← CR.PyG.need state_new.velY) (← CR.PyG.need state_new.vel))
          let attributes := CR.PyG.setNum attributes CR.Goal.Fld.velocity velocity
          let state_new := (CR.PyG.customState attributes)
          pure (state_fields, state_new))
        else (do
          let state_new := CR.PyG.setNum state_new CR.Goal.Fld.velocity velocity
          pure (state_fields, state_new)))
      let state_fields ← CR.PyG.remove state_fields CR.Goal.Fld.velocity_y
      pure (state_fields, state_new))
    else (do
      pure (state_fields, state_new)))
  return (state_new, state_fields, goal_state, goal_state_fields)
