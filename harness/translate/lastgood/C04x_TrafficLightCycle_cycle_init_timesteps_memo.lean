/-- commonroad/scenario/traffic_light.py: TrafficLightCycle.cycle_init_timesteps — the memoised property as a whole: (returned table, object afterwards) -/
def TrafficLightCycle_cycle_init_timesteps_memo (self : CR.TL.Hist.Obj) : List Int × CR.TL.Hist.Obj := Id.run do
  if ((!(self.table).isSome) || (!decide ((CR.PyC04.diffs (self.table.getD [])) = ((self.es).map (fun cycle_el => cycle_el.2))))) then
    let durations := ((self.es).map (fun cycle_el => cycle_el.2))
    let self := { self with table := some (CR.Py.cumsumPlus durations self.off) }
    let self := { self with table := some (CR.Py.insert0 (self.table.getD []) self.off) }
    return ((self.table.getD []), self)
  else
    return ((self.table.getD []), self)
