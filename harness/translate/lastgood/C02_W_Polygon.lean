/-- commonroad/common/writer/file_writer_protobuf.py PolygonMessage.create_message -/
def W_Polygon (v : List Pt) : PB :=
  PB.msg [("vertices", PB.rep (List.map (fun v1 => (W_Point v1)) v))]
