-- PlanningProblemXMLNode.create_node :: b_PlanningProblem_create_node b_PlanningProblem_create_node_initialState
def b_PlanningProblem_create_node : CR.SrcW.Builder where
  key := "PlanningProblemXMLNode.create_node"
  kind := .node
  tag := "planningProblem"
  xsd := "planningProblem"
  path := []
  parent := ""
  attrs := [("id", (.str "_.planning_problem_id"))]
  gattrs := []
  text := none
  atoms := ["it1 in _.goal.lanelets_of_goal_position"]
  body :=
    (.seq
      (.emit "initialState" "PlanningProblemXMLNode.create_node/initialState")
      (.each "_.goal.state_list"
        (.ite (.and (.notNone "_.goal.lanelets_of_goal_position") (.atom 0))
          (.emit "goalState" "StateXMLNode.create_goal_state_node")
          (.emit "goalState" "StateXMLNode.create_goal_state_node"))))

def b_PlanningProblem_create_node_initialState : CR.SrcW.Builder where
  key := "PlanningProblemXMLNode.create_node/initialState"
  kind := .node
  tag := "initialState"
  xsd := "planningProblem"
  path := ["initialState"]
  parent := "PlanningProblemXMLNode.create_node"
  attrs := []
  gattrs := []
  text := none
  atoms := []
  body :=
    (.splice "StateXMLNode.create_state_node")
