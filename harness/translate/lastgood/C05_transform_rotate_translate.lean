/-- commonroad/geometry/transform.py: rotate_translate — c = math.cos(angle), s = math.sin(angle), a = angle -/
def transform_rotate_translate (c s a : Rat) (vertices : List CR.Rigid.Pt) (translation : CR.Rigid.Pt) : List CR.Rigid.Pt := Id.run do
  let mut h_vertices := (transform_to_homogeneous_coordinates vertices)
  return (transform_from_homogeneous_coordinates ((h_vertices).map (CR.PyC05.M3.app (transform_rotation_translation_matrix c s a translation))))
