/-- commonroad/geometry/shape.py: Rectangle._invalidate_vertices -/
def Rectangle_invalidate_vertices (self : CR.ShapeObj.RectObj) : CR.ShapeObj.RectObj :=
  let self := { self with vertices := none }
  let self := { self with polygon := none }
  self
