/-- commonroad/common/solution.py: enum StateFields — (member name, value) in definition order -/
def Sol_StateFields : List (String × List String) := [
  ("PM", ["position", "velocity", "velocity_y", "time_step"]),
  ("ST", ["position", "steering_angle", "velocity", "orientation", "yaw_rate", "slip_angle", "time_step"]),
  ("KS", ["position", "steering_angle", "velocity", "orientation", "time_step"]),
  ("KST", ["position", "steering_angle", "velocity", "orientation", "hitch_angle", "time_step"]),
  ("MB", ["position", "steering_angle", "velocity", "orientation", "yaw_rate", "roll_angle", "roll_rate", "pitch_angle", "pitch_rate", "velocity_y", "position_z", "velocity_z", "roll_angle_front", "roll_rate_front", "velocity_y_front", "position_z_front", "velocity_z_front", "roll_angle_rear", "roll_rate_rear", "velocity_y_rear", "position_z_rear", "velocity_z_rear", "left_front_wheel_angular_speed", "right_front_wheel_angular_speed", "left_rear_wheel_angular_speed", "right_rear_wheel_angular_speed", "delta_y_f", "delta_y_r", "time_step"]),
  ("Input", ["steering_angle_speed", "acceleration", "time_step"]),
  ("PMInput", ["acceleration", "acceleration_y", "time_step"])]
