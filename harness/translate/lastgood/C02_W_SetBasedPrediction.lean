/-- commonroad/common/writer/file_writer_protobuf.py SetBasedPredictionMessage.create_message -/
def W_SetBasedPrediction (p : SetPred) : PB :=
  PB.msg [("initial_time_step", (PB.u32 p.t0)), ("occupancy_set", (W_OccupancySet p.occ))]
