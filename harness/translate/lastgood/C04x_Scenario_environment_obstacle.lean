/-- commonroad/scenario/scenario.py: Scenario.environment_obstacle -/
def Scenario_environment_obstacle (s : CR.Occ.Scn) : List (Nat × CR.Occ.Obst) := Id.run do
  return (CR.PyC04.values s.en)
