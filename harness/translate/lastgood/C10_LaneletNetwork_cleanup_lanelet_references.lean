/-- commonroad/scenario/lanelet.py: LaneletNetwork.cleanup_lanelet_references -/
def LaneletNetwork_cleanup_lanelet_references (self : CR.Refs.Net) : CR.Refs.Net :=
  let existing_ids := self.lids
  let self := { self with lanelets := self.lanelets.map (fun (la : CR.Refs.Lanelet) =>
      let la := { la with pred := (CR.PyR.listOfSet (CR.PyR.inter (CR.PyR.setOfList la.pred) existing_ids)) }
      let la := { la with succ := (CR.PyR.listOfSet (CR.PyR.inter (CR.PyR.setOfList la.succ) existing_ids)) }
      let la := { la with adjL := (if (la.adjL.isNone || (!(CR.PyR.optMem la.adjL existing_ids))) then none else la.adjL) }
      let la := { la with adjLSame := (if (la.adjLSame.isNone || (!(CR.PyR.optMem la.adjL existing_ids))) then none else la.adjLSame) }
      let la := { la with adjR := (if (la.adjR.isNone || (!(CR.PyR.optMem la.adjR existing_ids))) then none else la.adjR) }
      let la := { la with adjRSame := (if (la.adjRSame.isNone || (!(CR.PyR.optMem la.adjR existing_ids))) then none else la.adjRSame) }
      la) }
  let self := { self with inters := self.inters.map (fun (inter : CR.Refs.Intersection) =>
      let inter := { inter with incomings := inter.incomings.map (fun (inc : CR.Refs.Incoming) =>
          let inc := { inc with inc := (CR.PyR.inter inc.inc existing_ids) }
          let inc := { inc with straight := (CR.PyR.inter inc.straight existing_ids) }
          let inc := { inc with right := (CR.PyR.inter inc.right existing_ids) }
          let inc := { inc with left := (CR.PyR.inter inc.left existing_ids) }
          inc) }
      let inter := { inter with crossings := (CR.PyR.inter inter.crossings existing_ids) }
      inter) }
  self
