/-- commonroad/scenario/scenario.py: Scenario.__eq__ / Scenario.__hash__ -/
def src_Scenario : ClassSrc :=
  { guard := "Scenario",
    eqs := [
      ⟨"dt", [(.eq .str)]⟩,
      ⟨"scenario_id", [(.eq .id)]⟩,
      ⟨"lanelet_network", [(.eq .id)]⟩,
      ⟨"static_obstacles", [(.eq .id)]⟩,
      ⟨"dynamic_obstacles", [(.eq .id)]⟩,
      ⟨"environment_obstacle", [(.eq .id)]⟩,
      ⟨"phantom_obstacle", [(.eq .id)]⟩,
      ⟨"author", [(.eq .id)]⟩,
      ⟨"tags", [(.eq .id)]⟩,
      ⟨"affiliation", [(.eq .id)]⟩,
      ⟨"source", [(.eq .id)]⟩,
      ⟨"location", [(.eq .id)]⟩],
    hashes := [
      ⟨"dt", .str⟩,
      ⟨"scenario_id", .it⟩,
      ⟨"lanelet_network", .it⟩,
      ⟨"static_obstacles", (.tuple .it)⟩,
      ⟨"dynamic_obstacles", (.tuple .it)⟩,
      ⟨"environment_obstacle", (.tuple .it)⟩,
      ⟨"phantom_obstacle", (.tuple .it)⟩,
      ⟨"author", .it⟩,
      ⟨"tags", (.optNone (.frozenset .it))⟩,
      ⟨"affiliation", .it⟩,
      ⟨"source", .it⟩,
      ⟨"location", .it⟩] }
