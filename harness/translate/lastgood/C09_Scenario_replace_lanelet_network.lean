/-- commonroad/scenario/scenario.py: Scenario.replace_lanelet_network -/
def Scenario_replace_lanelet_network (s : St) (lanelet_network : Net) : St × Out :=
  PyC09.tryE (Scenario_erase_lanelet_network s) (fun s =>
    PyC09.tryE (Scenario_add_objects s (Obj.network lanelet_network) none) (fun s =>
      (s, .ok)) (fun s o_ => (s, o_))) (fun s o_ => (s, o_))
