/-- commonroad/scenario/scenario.py: Scenario.remove_hanging_lanelet_members -/
def Scenario_remove_hanging_lanelet_members (s : St) (remove_lanelet : List (Lanelet)) : St × Out :=
  let all_lanelets : List (Lanelet) := s.net.lanelets
  let remove_lanelet_ids : List (Nat) := (remove_lanelet.map (fun la => la.id))
  let remaining_lanelets : List (Lanelet) := (all_lanelets.filter (fun la => decide (la.id ∉ remove_lanelet_ids)))
  let traffic_signs_to_delete : List Nat := (PyC09.unionAll (remove_lanelet.map (fun la => la.signs)))
  let traffic_lights_to_delete : List Nat := (PyC09.unionAll (remove_lanelet.map (fun la => la.lights)))
  let traffic_signs_to_save : List Nat := (PyC09.unionAll (remaining_lanelets.map (fun la => la.signs)))
  let traffic_lights_to_save : List Nat := (PyC09.unionAll (remaining_lanelets.map (fun la => la.lights)))
  let remove_traffic_signs : List (Option (Nat)) := []
  let remove_traffic_lights : List (Option (Nat)) := []
  let remove_traffic_signs := (s.net.signs).foldl (fun remove_traffic_signs t =>
    let remove_traffic_signs := if decide (t ∈ (PyC09.setDiff traffic_signs_to_delete traffic_signs_to_save)) then (
      let remove_traffic_signs : List (Option (Nat)) := remove_traffic_signs ++ [(PyC09.findSign s.net t)]
      remove_traffic_signs) else (
      remove_traffic_signs)
    remove_traffic_signs) remove_traffic_signs
  let remove_traffic_lights := (s.net.lights).foldl (fun remove_traffic_lights t =>
    let remove_traffic_lights := if decide (t ∈ (PyC09.setDiff traffic_lights_to_delete traffic_lights_to_save)) then (
      let remove_traffic_lights : List (Option (Nat)) := remove_traffic_lights ++ [(PyC09.findLight s.net t)]
      remove_traffic_lights) else (
      remove_traffic_lights)
    remove_traffic_lights) remove_traffic_lights
  PyC09.tryE (Scenario_remove_traffic_sign_list s (PyC09.somes remove_traffic_signs)) (fun s =>
    PyC09.tryE (Scenario_remove_traffic_light_list s (PyC09.somes remove_traffic_lights)) (fun s =>
      (s, .ok)) (fun s o_ => (s, o_))) (fun s o_ => (s, o_))
