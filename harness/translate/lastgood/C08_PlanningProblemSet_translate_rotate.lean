/-- commonroad/planning/planning_problem.py: PlanningProblemSet.translate_rotate — structural extraction: (moved part, arguments, enclosing loop, where the result is stored) -/
def PlanningProblemSet_translate_rotate_moves : List (String × String × String × String) := [("v0", "translation, angle", "self._planning_problem_dict.values()", "")]
/-- the kinds of the statements of the body, in order -/
def PlanningProblemSet_translate_rotate_stmts : String := "For Expr"
