/-- commonroad/scenario/lanelet.py: LaneletNetwork.__deepcopy__ — returns (self afterwards, the copy); the attribute loop `setattr(result, k, copy.deepcopy(v, memo))` is CR.Py06.deepcopyAttrs (fresh objects named by f, sharing kept by the memo) -/
def LaneletNetwork_deepcopy (f : Nat → Nat) (self : CR.Index.Net) : CR.Index.Net × CR.Index.Net :=
  let result : CR.Index.Net := ⟨[], [], none, []⟩
  let self := { self with tree := none }
  let result := CR.Py06.deepcopyAttrs f self result
  let result := (LaneletNetwork_create_strtree result)
  let self := (LaneletNetwork_create_strtree self)
  (self, result)
