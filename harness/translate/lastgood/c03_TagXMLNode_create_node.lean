-- TagXMLNode.create_node :: b_Tag_create_node b_Tag_create_node_it1_value
def b_Tag_create_node : CR.SrcW.Builder where
  key := "TagXMLNode.create_node"
  kind := .node
  tag := "scenarioTags"
  xsd := "tag"
  path := []
  parent := ""
  attrs := []
  gattrs := []
  text := none
  atoms := []
  body :=
    (.each "_"
      (.emit "?it1.value" "TagXMLNode.create_node/?it1.value"))

def b_Tag_create_node_it1_value : CR.SrcW.Builder where
  key := "TagXMLNode.create_node/?it1.value"
  kind := .node
  tag := "?it1.value"
  xsd := "tag"
  path := ["?it1.value"]
  parent := "TagXMLNode.create_node"
  attrs := []
  gattrs := []
  text := none
  atoms := []
  body :=
    .skip
