/-- commonroad/common/writer/file_writer_protobuf.py IntersectionMessage.create_message -/
def W_Intersection (i : Inter) : PB :=
  PB.msg [("intersection_id", (PB.u32 i.id)), ("incomings", PB.rep (List.map (fun v1 => (W_Incoming v1)) i.incomings)), ("crossing_lanelets", PB.rep (List.map (fun v2 => (PB.u32 v2)) i.crossings))]
