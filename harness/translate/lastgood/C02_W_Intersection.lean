/-- commonroad/common/writer/file_writer_protobuf.py IntersectionMessage.create_message -/
def W_Intersection (i : Inter) : PB :=
  PB.msg [("intersection_id", (PB.u32 i.id)), ("incomings", PB.rep (List.map (fun x1 => (W_Incoming x1)) i.incomings)), ("crossing_lanelets", PB.rep (List.map (fun x2 => (PB.u32 x2)) i.crossings))]
