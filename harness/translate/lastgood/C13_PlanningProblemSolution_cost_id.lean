/-- commonroad/common/solution.py: PlanningProblemSolution.cost_id -/
def PlanningProblemSolution_cost_id (cost_function : CR.BenchId.Cost) : Str := Id.run do
  return (cost_function).name
