-- OccupancyXMLNode.create_node :: b_Occupancy_create_node b_Occupancy_create_node_time b_Occupancy_create_node_shape
def b_Occupancy_create_node : CR.SrcW.Builder where
  key := "OccupancyXMLNode.create_node"
  kind := .node
  tag := "occupancy"
  xsd := "occupancy"
  path := []
  parent := ""
  attrs := []
  gattrs := []
  text := none
  atoms := ["isinstance(_.time_step, Interval)"]
  body :=
    (.seq
      (.emit "shape" "OccupancyXMLNode.create_node/shape")
      (.emit "time" "OccupancyXMLNode.create_node/time"))

def b_Occupancy_create_node_time : CR.SrcW.Builder where
  key := "OccupancyXMLNode.create_node/time"
  kind := .node
  tag := "time"
  xsd := "occupancy"
  path := ["time"]
  parent := "OccupancyXMLNode.create_node"
  attrs := []
  gattrs := []
  text := none
  atoms := []
  body :=
    (.ite (.atom 0)
      (.splice "create_interval_node_int")
      (.emit "exact" "create_exact_node_int"))

def b_Occupancy_create_node_shape : CR.SrcW.Builder where
  key := "OccupancyXMLNode.create_node/shape"
  kind := .node
  tag := "shape"
  xsd := "occupancy"
  path := ["shape"]
  parent := "OccupancyXMLNode.create_node"
  attrs := []
  gattrs := []
  text := none
  atoms := []
  body :=
    (.splice "ShapeXMLNode.create_node")
