/-- commonroad/visualization/mp_renderer.py: MPRenderer.draw_dynamic_obstacle -/
def draw_dynamic_obstacle (draw_params : CR.Draw.DynFlags) (obj : CR.Draw.Obst) : List Item :=
  let out : List Item := []
  let time_begin : Int := draw_params.tb
  let time_end : Int := draw_params.te
  let draw_icon : Bool := draw_params.drawIcon
  let show_label : Bool := draw_params.showLabel
  let draw_shape : Bool := draw_params.drawShape
  let draw_direction : Bool := draw_params.drawDirection
  let draw_initial_state : Bool := draw_params.drawInitialState
  let draw_occupancies : Bool := draw_params.drawOccupancies
  let draw_signals : Bool := draw_params.drawSignals
  let draw_trajectory : Bool := draw_params.drawTrajectory
  let draw_history : Bool := draw_params.drawHistory
  out ++ (if ((obj.pred.isNone && decide (obj.initTs < time_begin)) || decide (obj.initTs > time_end)) then
    let out : List Item := []
    out
    else
    let out : List Item := []
    out ++ (if (((!obj.pred.isNone) && decide (obj.pred.final < time_begin)) || decide (obj.initTs > time_end)) then
      let out : List Item := []
      out
      else
      let out : List Item := []
      let r1 := if (draw_history && obj.pred.isTraj) then
          let out : List Item := []
          let out := out ++ (Gen._draw_history draw_params obj)
          out
        else
          let out : List Item := []
          out
      let out := out ++ r1
      let icon_orientation : CR.Draw.Mid := CR.Draw.Mid.exact
      let icon_position : CR.PyC19.PosV := default
      let inital_state : Option CR.PyC19.StH := none
      let r8 := if (draw_icon && obj.iconType && obj.pred.isTraj) then
          let out : List Item := []
          let r2 := if (!(obj.hasLW)) then
              let out : List Item := []
              let draw_shape : Bool := true
              let draw_icon : Bool := false
              (out, draw_icon, draw_shape)
            else
              let out : List Item := []
              (out, draw_icon, draw_shape)
          let out := out ++ r2.1
          let draw_icon := r2.2.1
          let draw_shape := r2.2.2
          let icon_orientation : CR.Draw.Mid := CR.Draw.Mid.exact
          let icon_position : CR.PyC19.PosV := default
          let inital_state : Option CR.PyC19.StH := none
          let r6 := if draw_icon then
              let out : List Item := []
              let draw_shape : Bool := false
              let inital_state : Option CR.PyC19.StH := none
              let r3 := if decide (time_begin = obj.initTs) then
                  let out : List Item := []
                  let inital_state : Option CR.PyC19.StH := (some (CR.PyC19.initialState obj))
                  (out, inital_state)
                else
                  let out : List Item := []
                  let inital_state : Option CR.PyC19.StH := (CR.PyC19.trajStateAt obj time_begin)
                  (out, inital_state)
              let out := out ++ r3.1
              let inital_state := r3.2
              let icon_orientation : CR.Draw.Mid := CR.Draw.Mid.exact
              let icon_position : CR.PyC19.PosV := default
              let r5 := if inital_state.isSome then
                  let out : List Item := []
                  let icon_position : CR.PyC19.PosV := (if (inital_state.getD default).info.uncPos then (CR.PyC19.PosV.centerOf (inital_state.getD default)) else (CR.PyC19.PosV.ofState (inital_state.getD default)))
                  let icon_orientation : CR.Draw.Mid := CR.Draw.Mid.exact
                  let r4 := if (inital_state.getD default).info.orientInt then
                      let out : List Item := []
                      let icon_orientation : CR.Draw.Mid := CR.Draw.Mid.mid
                      (out, icon_orientation)
                    else
                      let out : List Item := []
                      (out, icon_orientation)
                  let out := out ++ r4.1
                  let icon_orientation := r4.2
                  let out := out ++ [Item.icon icon_position.anchor icon_orientation]
                  (out, icon_orientation, icon_position)
                else
                  let out : List Item := []
                  (out, icon_orientation, icon_position)
              let out := out ++ r5.1
              let icon_orientation := r5.2.1
              let icon_position := r5.2.2
              (out, draw_shape, icon_orientation, icon_position, inital_state)
            else
              let out : List Item := []
              (out, draw_shape, icon_orientation, icon_position, inital_state)
          let out := out ++ r6.1
          let draw_shape := r6.2.1
          let icon_orientation := r6.2.2.1
          let icon_position := r6.2.2.2.1
          let inital_state := r6.2.2.2.2
          (out, draw_icon, draw_shape, icon_orientation, icon_position, inital_state)
        else
          let out : List Item := []
          let r7 := if draw_icon then
              let out : List Item := []
              let draw_shape : Bool := true
              (out, draw_shape)
            else
              let out : List Item := []
              (out, draw_shape)
          let out := out ++ r7.1
          let draw_shape := r7.2
          (out, draw_icon, draw_shape, icon_orientation, icon_position, inital_state)
      let out := out ++ r8.1
      let draw_icon := r8.2.1
      let draw_shape := r8.2.2.1
      let icon_orientation := r8.2.2.2.1
      let icon_position := r8.2.2.2.2.1
      let inital_state := r8.2.2.2.2.2
      let veh_occ : Option CR.PyC19.OccH := none
      let r11 := if draw_shape then
          let out : List Item := []
          let veh_occ : Option CR.PyC19.OccH := (CR.PyC19.occupancyAt obj time_begin)
          let r10 := if veh_occ.isSome then
              let out : List Item := []
              let out := out ++ (Gen._draw_occupancy veh_occ (some (CR.PyC19.initialState obj)))
              let r9 := if (draw_direction && veh_occ.isSome && (veh_occ.getD default).isRect) then
                  let out : List Item := []
                  let out := out ++ [Item.dir]
                  out
                else
                  let out : List Item := []
                  out
              let out := out ++ r9
              out
            else
              let out : List Item := []
              out
          let out := out ++ r10
          (out, veh_occ)
        else
          let out : List Item := []
          (out, veh_occ)
      let out := out ++ r11.1
      let veh_occ := r11.2
      let sig : Option Unit := none
      let r13 := if (draw_signals && (draw_shape || draw_icon)) then
          let out : List Item := []
          let sig : Option Unit := (CR.PyC19.signalAt obj time_begin)
          let veh_occ : Option CR.PyC19.OccH := (CR.PyC19.occupancyAt obj time_begin)
          let r12 := if (veh_occ.isSome && sig.isSome) then
              let out : List Item := []
              let out := out ++ [Item.sig]
              out
            else
              let out : List Item := []
              out
          let out := out ++ r12
          (out, sig, veh_occ)
        else
          let out : List Item := []
          (out, sig, veh_occ)
      let out := out ++ r13.1
      let sig := r13.2.1
      let veh_occ := r13.2.2
      let time_begin_occ : Int := 0
      let r16 := if (draw_occupancies || obj.pred.isSet) then
          let out : List Item := []
          let time_begin_occ : Int := 0
          let r14 := if draw_shape then
              let out : List Item := []
              let time_begin_occ : Int := (time_begin + 1)
              (out, time_begin_occ)
            else
              let out : List Item := []
              let time_begin_occ : Int := time_begin
              (out, time_begin_occ)
          let out := out ++ r14.1
          let time_begin_occ := r14.2
          let out := out ++ ((CR.Draw.pyRange time_begin_occ time_end)).flatMap (fun time_step =>
              let out : List Item := []
              let state : Option CR.PyC19.StH := none
              let r15 := if obj.pred.isTraj then
                  let out : List Item := []
                  let state : Option CR.PyC19.StH := (CR.PyC19.trajStateAt obj time_step)
                  (out, state)
                else
                  let out : List Item := []
                  (out, state)
              let out := out ++ r15.1
              let state := r15.2
              let occ : Option CR.PyC19.OccH := (CR.PyC19.occupancyAt obj time_step)
              let out := out ++ (Gen._draw_occupancy occ state)
              out)
          (out, time_begin_occ)
        else
          let out : List Item := []
          (out, time_begin_occ)
      let out := out ++ r16.1
      let time_begin_occ := r16.2
      let r17 := if (draw_trajectory && obj.pred.isTraj) then
          let out : List Item := []
          let out := out ++ (Gen.draw_trajectory draw_params obj)
          out
        else
          let out : List Item := []
          out
      let out := out ++ r17
      let state : Option CR.PyC19.StH := none
      let r19 := if decide (time_begin = 0) then
          let out : List Item := []
          let state : Option CR.PyC19.StH := (some (CR.PyC19.initialState obj))
          (out, state)
        else
          let out : List Item := []
          let r18 := if obj.pred.isTraj then
              let out : List Item := []
              let state : Option CR.PyC19.StH := (CR.PyC19.trajStateAt obj time_begin)
              (out, state)
            else
              let out : List Item := []
              (out, state)
          let out := out ++ r18.1
          let state := r18.2
          (out, state)
      let out := out ++ r19.1
      let state := r19.2
      let position : CR.PyC19.PosV := default
      let r21 := if show_label then
          let out : List Item := []
          let position : CR.PyC19.PosV := default
          let r20 := if state.isSome then
              let out : List Item := []
              let position : CR.PyC19.PosV := (if (state.getD default).info.uncPos then (CR.PyC19.PosV.centerOf (state.getD default)) else (CR.PyC19.PosV.ofState (state.getD default)))
              let out := out ++ [Item.label position.anchor]
              (out, position)
            else
              let out : List Item := []
              (out, position)
          let out := out ++ r20.1
          let position := r20.2
          (out, position)
        else
          let out : List Item := []
          (out, position)
      let out := out ++ r21.1
      let position := r21.2
      let r22 := if (draw_initial_state && state.isSome) then
          let out : List Item := []
          let out := out ++ [CR.Draw.stateItem draw_params (state.getD default).info]
          out
        else
          let out : List Item := []
          out
      let out := out ++ r22
      out
      )
    )
