/-- commonroad/visualization/mp_renderer.py: MPRenderer.draw_dynamic_obstacle -/
def draw_dynamic_obstacle (draw_params : CR.Draw.DynFlags) (obj : CR.Draw.Obst) : List Item := Id.run do
  let mut out : List Item := []
  let mut inital_state : Option CR.PyC19.StH := none
  let mut icon_position : CR.PyC19.PosV := default
  let mut icon_orientation : CR.Draw.Mid := CR.Draw.Mid.exact
  let mut veh_occ : Option CR.PyC19.OccH := none
  let mut sig : Option Unit := none
  let mut time_begin_occ : Int := 0
  let mut position : CR.PyC19.PosV := default
  let mut time_begin : Int := draw_params.tb
  let mut time_end : Int := draw_params.te
  let mut draw_icon : Bool := draw_params.drawIcon
  let mut show_label : Bool := draw_params.showLabel
  let mut draw_shape : Bool := draw_params.drawShape
  let mut draw_direction : Bool := draw_params.drawDirection
  let mut draw_initial_state : Bool := draw_params.drawInitialState
  let mut draw_occupancies : Bool := draw_params.drawOccupancies
  let mut draw_signals : Bool := draw_params.drawSignals
  let mut draw_trajectory : Bool := draw_params.drawTrajectory
  let mut draw_history : Bool := draw_params.drawHistory
  if ((obj.pred.isNone && decide (obj.initTs < time_begin)) || decide (obj.initTs > time_end)) then
    return out
  else
    if (((!obj.pred.isNone) && decide (obj.pred.final < time_begin)) || decide (obj.initTs > time_end)) then
      return out
  if (draw_history && obj.pred.isTraj) then
    out := out ++ (Gen._draw_history draw_params obj)
  if (draw_icon && obj.iconType && obj.pred.isTraj) then
    if !(obj.hasLW) then
      draw_shape := true
      draw_icon := false
    if draw_icon then
      draw_shape := false
      if decide (time_begin = obj.initTs) then
        inital_state := (some (CR.PyC19.initialState obj))
      else
        inital_state := (CR.PyC19.trajStateAt obj time_begin)
      if inital_state.isSome then
        icon_position := (if (inital_state.getD default).info.uncPos then (CR.PyC19.PosV.centerOf (inital_state.getD default)) else (CR.PyC19.PosV.ofState (inital_state.getD default)))
        icon_orientation := CR.Draw.Mid.exact
        if (inital_state.getD default).info.orientInt then
          icon_orientation := CR.Draw.Mid.mid
        out := out ++ [Item.icon icon_position.anchor icon_orientation]
  else
    if draw_icon then
      draw_shape := true
  if draw_shape then
    veh_occ := (CR.PyC19.occupancyAt obj time_begin)
    if veh_occ.isSome then
      out := out ++ (Gen._draw_occupancy veh_occ (some (CR.PyC19.initialState obj)))
      if (draw_direction && veh_occ.isSome && (veh_occ.getD default).isRect) then
        out := out ++ [Item.dir]
  if (draw_signals && (draw_shape || draw_icon)) then
    sig := (CR.PyC19.signalAt obj time_begin)
    veh_occ := (CR.PyC19.occupancyAt obj time_begin)
    if (veh_occ.isSome && sig.isSome) then
      out := out ++ [Item.sig]
  if (draw_occupancies || obj.pred.isSet) then
    if draw_shape then
      time_begin_occ := (time_begin + 1)
    else
      time_begin_occ := time_begin
    out := out ++ ((CR.Draw.pyRange time_begin_occ time_end)).flatMap (fun time_step => Id.run do
        let mut out : List Item := []
        let mut state : Option CR.PyC19.StH := none
        if obj.pred.isTraj then
          state := (CR.PyC19.trajStateAt obj time_step)
        let mut occ : Option CR.PyC19.OccH := (CR.PyC19.occupancyAt obj time_step)
        out := out ++ (Gen._draw_occupancy occ state)
        return out)
  if (draw_trajectory && obj.pred.isTraj) then
    out := out ++ (Gen.draw_trajectory draw_params obj)
  let mut state : Option CR.PyC19.StH := none
  if decide (time_begin = 0) then
    state := (some (CR.PyC19.initialState obj))
  else
    if obj.pred.isTraj then
      state := (CR.PyC19.trajStateAt obj time_begin)
  if show_label then
    if state.isSome then
      position := (if (state.getD default).info.uncPos then (CR.PyC19.PosV.centerOf (state.getD default)) else (CR.PyC19.PosV.ofState (state.getD default)))
      out := out ++ [Item.label position.anchor]
  if (draw_initial_state && state.isSome) then
    out := out ++ [CR.Draw.stateItem draw_params (state.getD default).info]
  return out
