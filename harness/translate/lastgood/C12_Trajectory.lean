/-- commonroad/scenario/trajectory.py: Trajectory.__eq__ / Trajectory.__hash__ -/
def src_Trajectory : ClassSrc :=
  { guard := "Trajectory",
    eqs := [
      ⟨"initial_time_step", [(.eq .id)]⟩,
      ⟨"state_list", [(.eq .list)]⟩],
    hashes := [
      ⟨"initial_time_step", .it⟩,
      ⟨"state_list", (.tuple .it)⟩] }
