/-- commonroad/prediction/prediction.py: Occupancy.translate_rotate -/
def Occupancy_translate_rotate (m : CR.Rigid.Mo) (sh : CR.Rigid.Shape) : Res (CR.Rigid.Shape) := do
  let mut sh := sh
  CR.Py.assert (CR.Iv.validOrientation m.τ m.a)
  sh := (← CR.Rigid.Shape.move m sh)
  return sh
