/-- commonroad/common/writer/file_writer_interface.py: FileWriter._handle_file_path — "" = skip -/
def FileWriter_handle_file_path (c : Codec Input Item Node Bytes Date Content) (answer : Answer) (other : String) (date : Date) (self : Nat) (filename : Option String) (overwrite_existing_file : Mode) : M (St Input Node Bytes Date) (String) := do
  let filename ← PyW.orElse filename (do
    let t1 ← PyW.scenarioIdStr c self
    let t2 ← PyW.virtual self XMLFileWriter_get_suffix ProtobufFileWriter_get_suffix
    pure (t1 ++ t2))
  let t3 ← PyW.isFile filename
  if t3 then
    if decide (overwrite_existing_file = Mode.ask) then
      let overwrite ← PyW.input answer other
      if decide (overwrite = "n") then
        PyW.noop
        pure ""
      else
        PyW.noop
        pure filename
    else
      if decide (overwrite_existing_file = Mode.skip) then
        let overwrite := "n"
        if decide (overwrite = "n") then
          PyW.noop
          pure ""
        else
          PyW.noop
          pure filename
      else
        let overwrite := "y"
        if decide (overwrite = "n") then
          PyW.noop
          pure ""
        else
          PyW.noop
          pure filename
  else
    pure filename
