-- RectangleXMLNode.create_rectangle_node :: b_Rectangle_create_rectangle_node b_Rectangle_create_rectangle_node_center b_Rectangle_create_rectangle_node_center_y b_Rectangle_create_rectangle_node_center_x b_Rectangle_create_rectangle_node_orientation b_Rectangle_create_rectangle_node_width b_Rectangle_create_rectangle_node_length
def b_Rectangle_create_rectangle_node : CR.SrcW.Builder where
  key := "RectangleXMLNode.create_rectangle_node"
  kind := .node
  tag := "rectangle"
  xsd := "rectangle"
  path := []
  parent := ""
  attrs := []
  gattrs := []
  text := none
  atoms := ["_.orientation != 0.0", "np.any(np.asarray(_.center) != 0.0)"]
  body :=
    (.seq
      (.emit "length" "RectangleXMLNode.create_rectangle_node/length")
      (.seq
        (.emit "width" "RectangleXMLNode.create_rectangle_node/width")
        (.seq
          (.ite (.or (.not (.truthy "dynamic_obstacle_shape")) (.atom 0))
            (.emit "orientation" "RectangleXMLNode.create_rectangle_node/orientation")
            .skip)
          (.ite (.or (.not (.truthy "dynamic_obstacle_shape")) (.atom 1))
            (.emit "center" "RectangleXMLNode.create_rectangle_node/center")
            .skip))))

def b_Rectangle_create_rectangle_node_center : CR.SrcW.Builder where
  key := "RectangleXMLNode.create_rectangle_node/center"
  kind := .node
  tag := "center"
  xsd := "rectangle"
  path := ["center"]
  parent := "RectangleXMLNode.create_rectangle_node"
  attrs := []
  gattrs := []
  text := none
  atoms := []
  body :=
    (.seq
      (.emit "x" "RectangleXMLNode.create_rectangle_node/center/x")
      (.emit "y" "RectangleXMLNode.create_rectangle_node/center/y"))

def b_Rectangle_create_rectangle_node_center_y : CR.SrcW.Builder where
  key := "RectangleXMLNode.create_rectangle_node/center/y"
  kind := .node
  tag := "y"
  xsd := "rectangle"
  path := ["center", "y"]
  parent := "RectangleXMLNode.create_rectangle_node/center"
  attrs := []
  gattrs := []
  text := some (.floatToStr "_.center[1]")
  atoms := []
  body :=
    .skip

def b_Rectangle_create_rectangle_node_center_x : CR.SrcW.Builder where
  key := "RectangleXMLNode.create_rectangle_node/center/x"
  kind := .node
  tag := "x"
  xsd := "rectangle"
  path := ["center", "x"]
  parent := "RectangleXMLNode.create_rectangle_node/center"
  attrs := []
  gattrs := []
  text := some (.floatToStr "_.center[0]")
  atoms := []
  body :=
    .skip

def b_Rectangle_create_rectangle_node_orientation : CR.SrcW.Builder where
  key := "RectangleXMLNode.create_rectangle_node/orientation"
  kind := .node
  tag := "orientation"
  xsd := "rectangle"
  path := ["orientation"]
  parent := "RectangleXMLNode.create_rectangle_node"
  attrs := []
  gattrs := []
  text := some (.decimalToStr "_.orientation")
  atoms := []
  body :=
    .skip

def b_Rectangle_create_rectangle_node_width : CR.SrcW.Builder where
  key := "RectangleXMLNode.create_rectangle_node/width"
  kind := .node
  tag := "width"
  xsd := "rectangle"
  path := ["width"]
  parent := "RectangleXMLNode.create_rectangle_node"
  attrs := []
  gattrs := []
  text := some (.decimalToStr "_.width")
  atoms := []
  body :=
    .skip

def b_Rectangle_create_rectangle_node_length : CR.SrcW.Builder where
  key := "RectangleXMLNode.create_rectangle_node/length"
  kind := .node
  tag := "length"
  xsd := "rectangle"
  path := ["length"]
  parent := "RectangleXMLNode.create_rectangle_node"
  attrs := []
  gattrs := []
  text := some (.decimalToStr "_.length")
  atoms := []
  body :=
    .skip
