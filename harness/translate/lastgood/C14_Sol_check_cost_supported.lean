/-- commonroad/common/solution.py: PlanningProblemSolution._check_cost_supported — a CostFunction member is denoted by its name in the membership test -/
def Sol_check_cost_supported (vehicle_model : CR.Sol.VModel) (cost_function : CR.Sol.Cost) : Res (Bool) := do
  let supported_costs := (← CR.PyS.enumGet Sol_SupportedCostFunctions vehicle_model.name)
  if (!(CR.PyS.elem cost_function.name supported_costs)) then
    throw CR.Err.other
  else
    return true
