-- create_interval_node_int :: b_create_interval_node_int b_create_interval_node_int_intervalEnd b_create_interval_node_int_intervalStart
def b_create_interval_node_int : CR.SrcW.Builder where
  key := "create_interval_node_int"
  kind := .list
  tag := ""
  xsd := "integerExactOrIntervalGreaterZero"
  path := []
  parent := ""
  attrs := []
  gattrs := []
  text := none
  atoms := []
  body :=
    (.seq
      (.emit "intervalStart" "create_interval_node_int/intervalStart")
      (.emit "intervalEnd" "create_interval_node_int/intervalEnd"))

def b_create_interval_node_int_intervalEnd : CR.SrcW.Builder where
  key := "create_interval_node_int/intervalEnd"
  kind := .node
  tag := "intervalEnd"
  xsd := "integerExactOrIntervalGreaterZero"
  path := ["intervalEnd"]
  parent := "create_interval_node_int"
  attrs := []
  gattrs := []
  text := some (.str "_.end")
  atoms := []
  body :=
    .skip

def b_create_interval_node_int_intervalStart : CR.SrcW.Builder where
  key := "create_interval_node_int/intervalStart"
  kind := .node
  tag := "intervalStart"
  xsd := "integerExactOrIntervalGreaterZero"
  path := ["intervalStart"]
  parent := "create_interval_node_int"
  attrs := []
  gattrs := []
  text := some (.str "_.start")
  atoms := []
  body :=
    .skip
