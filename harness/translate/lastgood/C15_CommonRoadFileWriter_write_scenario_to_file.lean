/-- commonroad/common/file_writer.py: CommonRoadFileWriter.write_scenario_to_file — the facade delegates to the format writer it holds -/
def CommonRoadFileWriter_write_scenario_to_file (c : Codec Input Item Node Bytes Date Content) (answer : Answer) (other : String) (date : Date) (self : Nat) (filename : Option String) (overwrite_existing_file : Mode) : M (St Input Node Bytes Date) (Option (String × Bytes)) := do
  let written : Option (String × Bytes) := none
  let written ← PyW.dispatch self (XMLFileWriter_write_scenario_to_file c answer other date self filename overwrite_existing_file) (ProtobufFileWriter_write_scenario_to_file c answer other date self filename overwrite_existing_file)
  pure written
