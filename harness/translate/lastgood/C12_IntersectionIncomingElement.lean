/-- commonroad/scenario/intersection.py: IntersectionIncomingElement.__eq__ / IntersectionIncomingElement.__hash__ -/
def src_IntersectionIncomingElement : ClassSrc :=
  { guard := "IntersectionIncomingElement",
    eqs := [
      ⟨"incoming_id", [(.eq .id)]⟩,
      ⟨"incoming_lanelets", [(.eq .id)]⟩,
      ⟨"successors_right", [(.eq .id)]⟩,
      ⟨"successors_straight", [(.eq .id)]⟩,
      ⟨"successors_left", [(.eq .id)]⟩,
      ⟨"left_of", [(.eq .id)]⟩],
    hashes := [
      ⟨"incoming_id", .it⟩,
      ⟨"incoming_lanelets", (.frozenset .it)⟩,
      ⟨"successors_right", (.frozenset .it)⟩,
      ⟨"successors_straight", (.frozenset .it)⟩,
      ⟨"successors_left", (.frozenset .it)⟩,
      ⟨"left_of", .it⟩] }
