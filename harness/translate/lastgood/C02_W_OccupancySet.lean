/-- commonroad/common/writer/file_writer_protobuf.py OccupancySetMessage.create_message -/
def W_OccupancySet (occ : List Occ) : PB :=
  PB.msg [("occupancies", PB.rep (List.map (fun v1 => (W_Occupancy v1)) occ))]
