/-- commonroad/scenario/state.py: State.__eq__ / State.__hash__ (loops over the attribute names) -/
def src_State : StateSrc :=
  { guard := "State", namesAsSets := true, eqLoopOver := "self.attributes",
    posBothArrays := true, posMixedFalse := true, posDecSelf := 10, posDecOther := 10,
    floatDecSelf := 10, floatDecOther := 10, neReturnsFalse := true, endsTrue := true,
    hashLoopOver := "sorted(self.attributes)", hashPosDec := 10, hashFloatDec := 10, hashAppends := true, hashReturnsTuple := true }
