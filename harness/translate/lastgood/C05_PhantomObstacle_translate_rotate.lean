/-- commonroad/scenario/obstacle.py: PhantomObstacle.translate_rotate -/
def PhantomObstacle_translate_rotate (m : CR.Rigid.Mo) (p : Option (List CR.Rigid.Shape)) : Res (CR.Rigid.Obstacle) := do
  let mut p := p
  CR.Py.assert (CR.Iv.validOrientation m.τ m.a)
  match p with
  | none => pure ()
  | some p_v =>
      let mut p_v := p_v
      p_v ← CR.Rigid.moveOccs m p_v
      p := some p_v
  return (CR.Rigid.Obstacle.phantom p)
