/-- commonroad/visualization/draw_params.py: BaseParam.__post_init__ over the group as the generated `__init__` left it (`self.x = self.x` is `Grp.reassign`, i.e. `__setattr__` with the current value; `self.__initialized = True` is `Grp.markInit`) -/
def BaseParam_post_init (self : CR.Params.Grp) : Res CR.Params.Grp := do
  let self := self.markInit
  let self ← self.reassign "time_begin"
  let self ← self.reassign "time_end"
  let self ← self.reassign "antialiased"
  return self
