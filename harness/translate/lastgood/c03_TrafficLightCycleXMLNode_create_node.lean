-- TrafficLightCycleXMLNode.create_node :: b_TrafficLightCycle_create_node b_TrafficLightCycle_create_node_timeOffset
def b_TrafficLightCycle_create_node : CR.SrcW.Builder where
  key := "TrafficLightCycleXMLNode.create_node"
  kind := .node
  tag := "cycle"
  xsd := "trafficLightCycle"
  path := []
  parent := ""
  attrs := []
  gattrs := []
  text := none
  atoms := ["_.time_offset > 0"]
  body :=
    (.seq
      (.each "_.cycle_elements"
        (.emit "cycleElement" "TrafficLightCycleElementXMLNode.create_node"))
      (.ite (.and (.notNone "_.time_offset") (.atom 0))
        (.emit "timeOffset" "TrafficLightCycleXMLNode.create_node/timeOffset")
        .skip))

def b_TrafficLightCycle_create_node_timeOffset : CR.SrcW.Builder where
  key := "TrafficLightCycleXMLNode.create_node/timeOffset"
  kind := .node
  tag := "timeOffset"
  xsd := "trafficLightCycle"
  path := ["timeOffset"]
  parent := "TrafficLightCycleXMLNode.create_node"
  attrs := []
  gattrs := []
  text := some (.str "_.time_offset")
  atoms := []
  body :=
    .skip
