/-- commonroad/common/util.py: AngleInterval.__init__ -/
def AngleInterval_init (τ : Rat) (fuel : Nat) (start : Rat) (end_ : Rat) : Res (Option Rat × Option Rat) := do
  let self : Option Rat × Option Rat := (none, none)
  let (start, end_) := (make_valid_orientation_interval τ fuel start end_)
  CR.Py.assert (decide ((end_ - start) < τ))
  let self ← AngleInterval_base_init τ start end_
  return self
