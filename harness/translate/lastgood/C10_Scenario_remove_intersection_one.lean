/-- commonroad/scenario/scenario.py: Scenario.remove_intersection — argument is one Intersection -/
def Scenario_remove_intersection_one (self : CR.Refs.Scn) (intersection : CR.Refs.Intersection) : CR.Refs.Scn × Option CR.Err :=
  let contained_intersection := (CR.PyR.findInter self.net intersection.id)
  if contained_intersection.isNone then
    (self, some .key)
  else
    let self := { self with net := (LaneletNetwork_remove_intersection self.net intersection.id) }
    CR.PyR.andThen (CR.PyR.idSetRemove self intersection.id) (fun self =>
      CR.PyR.andThen (CR.PyR.forEach (fun self (inc : CR.Refs.Incoming) =>
          CR.PyR.andThen (CR.PyR.idSetRemove self inc.id) (fun self =>
            (self, none))) self ((contained_intersection.map (·.incomings)).getD [])) (fun self =>
        (self, none)))
