/-- commonroad/geometry/shape.py: Rectangle.contains_point — `ptIn ring p` is shapely's polygon.intersects(Point(p)); returns (object afterwards, answer) -/
def Rectangle_contains_point (ptIn : List CR.Geom.Pt → CR.Geom.Pt → Bool) (self : CR.ShapeObj.RectObj) (point : CR.Geom.Pt) : CR.ShapeObj.RectObj × Bool :=
  let r2_ := (Rectangle_shapely_polygon self)
  let self := r2_.1
  let p1_ := r2_.2
  (self, (ptIn p1_ point))
