/-- commonroad/planning/goal.py: GoalRegion.translate_rotate -/
def GoalRegion_translate_rotate (m : CR.Rigid.Mo) (sts : List CR.Rigid.State) : Res (List CR.Rigid.State) := do
  let mut sts := sts
  sts ← CR.PyC05.forEach (fun state => do
      return (← CR.Rigid.State.move m state)) sts
  return sts
