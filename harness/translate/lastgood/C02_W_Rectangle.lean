/-- commonroad/common/writer/file_writer_protobuf.py RectangleMessage.create_message — Rectangle.center / .orientation are never None (constructor defaults): the guards are statically true -/
def W_Rectangle (l w : Dbl) (c : Pt) (o : Dbl) : PB :=
  PB.msg [("length", (PB.dbl l)), ("width", (PB.dbl w)), ("center", (W_Point c)), ("orientation", (PB.dbl o))]
