/-- commonroad/common/util.py: Interval.__sub__ -/
def Interval_sub (self : CR.Iv.I) (other : Rat) : Res (CR.Iv.I) := do
  return (← CR.Iv.mk (self.lo - other) (self.hi - other))
