/-- commonroad/geometry/shape.py: occupancy_shape_from_state — rectangle / polygon shape, orientation an AngleInterval [olo, ohi], position a rectangle / polygon region with centre pc: (lv, wv) = _centered_extent(shape), (ls, ws) = _centered_extent(region turned by -psi_d), sc = shape.center -/
def occupancy_shape_from_state_uncertain (cosf sinf arctanf : Rat → Rat) (lv wv : Rat) (sc : CR.Rigid.Pt) (olo ohi : Rat) (ls ws : Rat) (pc : CR.Rigid.Pt) : Res (CR.Rigid.Shape) := do
  let (l_v, w_v) := (CR.PyC04.extentOf CR.PyC04.ShapeTag.shape lv wv ls ws)
  let psi_d := (olo + (((1 : Rat) / 2) * (ohi - olo)))
  let delta_psi := (((1 : Rat) / 2) * (ohi - olo))
  let center := pc
  let rot_shape := (CR.PyC04.ShapeTag.rotatedRegion (-psi_d))
  let (l_s, w_s) := (CR.PyC04.extentOf rot_shape lv wv ls ws)
  let delta_psi_l := (min delta_psi (arctanf (← CR.Py.div w_v l_v)))
  let delta_psi_w := (min delta_psi (arctanf (← CR.Py.div l_v w_v)))
  let l_psi := (CR.PyC04.absR (((1 - (cosf delta_psi_l)) * l_v) - ((sinf delta_psi_l) * w_v)))
  let w_psi := (CR.PyC04.absR (((1 - (cosf delta_psi_w)) * w_v) - ((sinf delta_psi_w) * l_v)))
  let l_enclosing := ((l_s + l_v) + l_psi)
  let w_enclosing := ((w_s + w_v) + w_psi)
  let occupied_region := (CR.Rigid.Shape.rect l_enclosing w_enclosing (CR.Place.Pt.add center sc) psi_d)
  return occupied_region
