-- StateXMLNode._map_to_xml_prop :: mapToXmlProp
/-- StateXMLNode._map_to_xml_prop -/
def mapToXmlProp (prop : String) : String :=
  (if prop = "time_step" then "time"
    else (if prop = "delta_y_f" then "deltaYFront"
    else (if prop = "delta_y_r" then "deltaYRear"
    else (if prop = "curvature_rate" then "curvatureChange"
    else CR.SrcW.camel prop))))
