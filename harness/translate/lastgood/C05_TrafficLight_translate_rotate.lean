/-- commonroad/scenario/traffic_light.py: TrafficLight.translate_rotate — the body-frame housing `shape` is not touched -/
def TrafficLight_translate_rotate (m : CR.Rigid.Mo) (l : CR.Rigid.Light) : Res (CR.Rigid.Light) := do
  let mut pos := l.pos
  CR.Py.assert (CR.Iv.validOrientation m.τ m.a)
  pos := (← CR.Py.getItem (transform_translate_rotate m.c m.s m.a [pos] m.t) 0)
  return (⟨pos, l.shape⟩ : CR.Rigid.Light)
