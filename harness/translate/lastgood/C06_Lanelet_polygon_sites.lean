/-- lanelet.py: every `self._polygon = ...` of class Lanelet (enclosing method, ring built from the two boundaries) — structural extraction -/
def Lanelet_polygon_sites (left right : List CR.Geom.Pt) : List (String × List CR.Geom.Pt) :=
  [("__init__", (right ++ (left).reverse)), ("translate_rotate", (right ++ (left).reverse)), ("convert_to_2d", (right ++ (left).reverse))]
