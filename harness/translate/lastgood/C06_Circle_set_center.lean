/-- commonroad/geometry/shape.py: Circle.center -/
def Circle_set_center (self : CR.ShapeObj.CircObj) (center : CR.Geom.Pt) : CR.ShapeObj.CircObj :=
  let self := { self with center := center }
  if (self.shapely).isSome then
    let self := (Circle_update_shapely_circle self)
    self
  else
    self
