/-- commonroad/scenario/traffic_sign.py: TrafficSign.translate_rotate -/
def TrafficSign_translate_rotate (m : CR.Rigid.Mo) (p : CR.Rigid.Pt) : Res (CR.Rigid.Pt) := do
  let mut p := p
  CR.Py.assert (CR.Iv.validOrientation m.τ m.a)
  p := (← CR.Py.getItem (transform_translate_rotate m.c m.s m.a [p] m.t) 0)
  return p
