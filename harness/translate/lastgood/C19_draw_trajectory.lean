/-- commonroad/visualization/mp_renderer.py: MPRenderer.draw_trajectory — `obj` is the trajectory of the obstacle; `draw_params` its `trajectory` group (fields trajTb/trajTe/…) -/
def draw_trajectory (draw_params : CR.Draw.DynFlags) (obj : CR.Draw.Obst) : List Item :=
  let out : List Item := []
  out ++ (if decide (draw_params.trajTb ≥ draw_params.trajTe) then
    let out : List Item := []
    out
    else
    let out : List Item := []
    let traj_states : List CR.PyC19.StH := (((CR.Draw.pyRange draw_params.trajTb draw_params.trajTe)).filterMap (fun t => (CR.PyC19.trajStateAt obj t)))
    let position_sets : List CR.PyC19.PosV := ((((traj_states).filter (fun s => s.info.uncPos))).map (fun s => (CR.PyC19.PosV.ofState s)))
    let traj_points : List CR.PyC19.PosV := ((((traj_states).filter (fun s => (!s.info.uncPos)))).map (fun s => (CR.PyC19.PosV.ofState s)))
    let traj_points : List CR.PyC19.PosV := traj_points
    let r2 := if decide (((traj_points).length : Int) > 0) then
        let out : List Item := []
        let r1 := if draw_params.trajContinuous then
            let out : List Item := []
            let out := out ++ [Item.trajLine]
            out
          else
            let out : List Item := []
            out
        let out := out ++ r1
        out
      else
        let out : List Item := []
        out
    let out := out ++ r2
    let out := out ++ (position_sets).flatMap (fun pset =>
        let out : List Item := []
        let out := out ++ (CR.PyC19.drawUncTraj pset)
        out)
    out
    )
