/-- commonroad/visualization/mp_renderer.py: MPRenderer.draw_trajectory — `obj` is the trajectory of the obstacle; `draw_params` its `trajectory` group (fields trajTb/trajTe/…) -/
def draw_trajectory (draw_params : CR.Draw.DynFlags) (obj : CR.Draw.Obst) : List Item := Id.run do
  let mut out : List Item := []
  if decide (draw_params.trajTb ≥ draw_params.trajTe) then
    return out
  let mut traj_states : List CR.PyC19.StH := (((CR.Draw.pyRange draw_params.trajTb draw_params.trajTe)).filterMap (fun t => (CR.PyC19.trajStateAt obj t)))
  let mut position_sets : List CR.PyC19.PosV := ((((traj_states).filter (fun s => s.info.uncPos))).map (fun s => (CR.PyC19.PosV.ofState s)))
  let mut traj_points : List CR.PyC19.PosV := ((((traj_states).filter (fun s => (!s.info.uncPos)))).map (fun s => (CR.PyC19.PosV.ofState s)))
  traj_points := traj_points
  if decide (((traj_points).length : Int) > 0) then
    if draw_params.trajContinuous then
      out := out ++ [Item.trajLine]
  out := out ++ (position_sets).flatMap (fun pset => Id.run do
      let mut out : List Item := []
      out := out ++ (CR.PyC19.drawUncTraj pset)
      return out)
  return out
