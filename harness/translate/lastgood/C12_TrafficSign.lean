/-- commonroad/scenario/traffic_sign.py: TrafficSign.__eq__ / TrafficSign.__hash__ -/
def src_TrafficSign : ClassSrc :=
  { guard := "TrafficSign",
    eqs := [
      ⟨"traffic_sign_elements", [(.valsEq (.keyedBy "traffic_sign_element_id")), (.lenEq (.keyedBy "traffic_sign_element_id")), (.keysIn (.keyedBy "traffic_sign_element_id"))]⟩,
      ⟨"traffic_sign_id", [(.eq .id)]⟩,
      ⟨"position", [(.eq (.rkey 10))]⟩,
      ⟨"virtual", [(.eq .id)]⟩,
      ⟨"first_occurrence", [(.eq .id)]⟩],
    hashes := [
      ⟨"traffic_sign_id", .it⟩,
      ⟨"position", (.rkey 10)⟩,
      ⟨"traffic_sign_elements", (.frozenset .it)⟩,
      ⟨"virtual", .it⟩,
      ⟨"first_occurrence", (.frozenset .it)⟩] }
