/-- commonroad/common/util.py: AngleInterval.end -/
def AngleInterval_set_end (τ : Rat) (self : Option Rat × Option Rat) (end_ : Rat) : Res (Option Rat × Option Rat) := do
  CR.Py.assert ((CR.Iv.validOrientation τ end_))
  if (self.1).isSome then
    CR.Py.assert (decide (end_ ≥ (self.1.getD 0)))
    let self := (self.1, (some end_))
    return self
  else
    let self := (self.1, (some end_))
    return self
