/-- commonroad/common/common_lanelet.py: StopLine.__eq__ / StopLine.__hash__ -/
def src_StopLine : ClassSrc :=
  { guard := "StopLine",
    eqs := [
      ⟨"start", [(.eq (.rkey 10))]⟩,
      ⟨"end", [(.eq (.rkey 10))]⟩,
      ⟨"line_marking", [(.eq .id)]⟩,
      ⟨"traffic_sign_ref", [(.eq .id)]⟩,
      ⟨"traffic_light_ref", [(.eq .id)]⟩],
    hashes := [
      ⟨"start", (.optNone (.rkey 10))⟩,
      ⟨"end", (.optNone (.rkey 10))⟩,
      ⟨"line_marking", .it⟩,
      ⟨"traffic_sign_ref", (.optNone (.frozenset .it))⟩,
      ⟨"traffic_light_ref", (.optNone (.frozenset .it))⟩] }
