/-- commonroad/scenario/trajectory.py: Trajectory.translate_rotate -/
def Trajectory_translate_rotate (m : CR.Rigid.Mo) (sts : List CR.Rigid.State) : Res (List CR.Rigid.State) := do
  let mut sts := sts
  CR.Py.assert (CR.Iv.validOrientation m.τ m.a)
  let new_state_list ← CR.PyC05.forEach (fun x_1 => do
      return (← CR.Rigid.State.move m x_1)) sts
  sts := new_state_list
  return sts
