/-- commonroad/scenario/scenario.py: Scenario._add_dynamic_obstacle_to_lanelets — obstacles of the universe have no prediction -/
def Scenario_add_dynamic_obstacle_to_lanelets (s : St) (obstacle : Obj) : St × Out :=
  if decide ((s.net.lanelets).length = 0) then (
    (s, .ok)) else (
    if ((PyC09.shapeLaneletIds obstacle)).isSome then (
      PyC09.tryE (PyC09.forE (fun s lanelet_id =>
          PyC09.requireLanelet s (s.net) (lanelet_id) (
            (s, .ok))) s (((PyC09.shapeLaneletIds obstacle).getD []))) (fun s =>
        (s, .ok)) (fun s o_ =>
        (s, o_))) else (
      (s, .ok)))
