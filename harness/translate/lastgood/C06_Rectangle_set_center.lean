/-- commonroad/geometry/shape.py: Rectangle.center — the validity asserts on the argument are outside the model (well-typed arguments) -/
def Rectangle_set_center (self : CR.ShapeObj.RectObj) (center : CR.Geom.Pt) : CR.ShapeObj.RectObj :=
  let self := { self with center := center }
  let self := (Rectangle_invalidate_vertices self)
  self
