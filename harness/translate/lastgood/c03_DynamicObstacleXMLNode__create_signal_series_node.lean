-- DynamicObstacleXMLNode._create_signal_series_node :: b_DynamicObstacle_create_signal_series_node b_DynamicObstacle_create_signal_series_node_signalState
def b_DynamicObstacle_create_signal_series_node : CR.SrcW.Builder where
  key := "DynamicObstacleXMLNode._create_signal_series_node"
  kind := .node
  tag := "signalSeries"
  xsd := "dynamicObstacle/signalSeries"
  path := []
  parent := ""
  attrs := []
  gattrs := []
  text := none
  atoms := []
  body :=
    (.each "_"
      (.emit "signalState" "DynamicObstacleXMLNode._create_signal_series_node/signalState"))

def b_DynamicObstacle_create_signal_series_node_signalState : CR.SrcW.Builder where
  key := "DynamicObstacleXMLNode._create_signal_series_node/signalState"
  kind := .node
  tag := "signalState"
  xsd := "dynamicObstacle/signalSeries"
  path := ["signalState"]
  parent := "DynamicObstacleXMLNode._create_signal_series_node"
  attrs := []
  gattrs := []
  text := none
  atoms := []
  body :=
    (.splice "SignalStateXMLNode.create_signal_state_node")
