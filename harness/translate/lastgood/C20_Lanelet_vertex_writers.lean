/-- commonroad/scenario/lanelet.py, class Lanelet: (method, vertex attribute it assigns, does it reset the dependent
    distance cache afterwards) — extracted from the syntax tree -/
def Lanelet_vertex_writers : List (String × String × Bool) := [
  ("center_vertices.setter", "_center_vertices", true),
  ("convert_to_2d", "_center_vertices", true),
  ("convert_to_2d", "_left_vertices", true),
  ("convert_to_2d", "_right_vertices", true),
  ("left_vertices.setter", "_left_vertices", true),
  ("right_vertices.setter", "_right_vertices", true),
  ("translate_rotate", "_center_vertices", false),
  ("translate_rotate", "_left_vertices", false),
  ("translate_rotate", "_right_vertices", false)]
