/-- commonroad/common/writer/file_writer_protobuf.py IntegerIntervalMessage.create_message -/
def W_IntegerInterval (a b : Int) : PB :=
  PB.msg [("start", (PB.i32 a)), ("end", (PB.i32 b))]
