/-- commonroad/scenario/obstacle.py: PhantomObstacle.state_at_time -/
def PhantomObstacle_state_at_time  : Option CR.Occ.StRef := Id.run do
  return none
