/-- nested function `assign_dynamic_obstacle_shape_at_time` of assign_obstacles_to_lanelets (closure variables first) -/
def Scenario_assign_obstacles_to_lanelets.assign_dynamic_obstacle_shape_at_time (E : CR.Assign.Env) (use_center_only : Bool) (s : CR.Assign.St) (obstacle : CR.Assign.Id) (time_step : Int) : Res CR.Assign.St := do
  if decide (time_step = (E.t0 obstacle)) then do
    let position : CR.PyC07.At := ((obstacle, E.t0 obstacle) : CR.PyC07.At)
    let lanelet_ids_center : List CR.Assign.Id := (E.cen (position).1 (position).2)
    let s ← (
      if (!(CR.PyC07.predIsNone E obstacle)) then do
        let s ← CR.PyC07.predCenterSetItem E s obstacle time_step lanelet_ids_center
        pure s
      else do
        pure s)
    let lanelet_ids : List CR.Assign.Id := default    -- unbound until assigned
    let (s, lanelet_ids) ← (
      if use_center_only then do
        let lanelet_ids : List CR.Assign.Id := lanelet_ids_center
        pure (s, lanelet_ids)
      else do
        let shape : CR.PyC07.At := (← CR.PyC07.derefAt (CR.PyC07.dynOccAt E obstacle time_step))
        let lanelet_ids : List CR.Assign.Id := (E.shp (shape).1 (shape).2)
        let s ← (
          if (!(CR.PyC07.predIsNone E obstacle)) then do
            let s ← CR.PyC07.predShapeSetItem E s obstacle time_step lanelet_ids
            pure s
          else do
            pure s)
        pure (s, lanelet_ids))
    let s ← (
      if decide (time_step = (E.t0 obstacle)) then do
        let s ← (
          if (!use_center_only) then do
            let s := CR.PyC07.setInitShape s obstacle (some lanelet_ids)
            pure s
          else do
            pure s)
        let s := CR.PyC07.setInitCenter s obstacle (some lanelet_ids_center)
        pure s
      else do
        pure s)
    let s ← (lanelet_ids).foldlM (fun s l_id => do
      let s ← Lanelet_add_dynamic_obstacle_to_lanelet s (← CR.PyC07.deref (CR.PyC07.findLanelet E l_id)) obstacle time_step
      pure s) s
    return s
  else do
    if ((!decide (E.kind obstacle = .dynTraj)) || decide ((E.tf obstacle) < time_step)) then do
      return s
    else do
      let position : CR.PyC07.At := (← CR.PyC07.derefAt (CR.PyC07.trajStateAt E obstacle time_step))
      let lanelet_ids_center : List CR.Assign.Id := (E.cen (position).1 (position).2)
      let s ← (
        if (!(CR.PyC07.predIsNone E obstacle)) then do
          let s ← CR.PyC07.predCenterSetItem E s obstacle time_step lanelet_ids_center
          pure s
        else do
          pure s)
      let lanelet_ids : List CR.Assign.Id := default    -- unbound until assigned
      let (s, lanelet_ids) ← (
        if use_center_only then do
          let lanelet_ids : List CR.Assign.Id := lanelet_ids_center
          pure (s, lanelet_ids)
        else do
          let shape : CR.PyC07.At := (← CR.PyC07.derefAt (CR.PyC07.dynOccAt E obstacle time_step))
          let lanelet_ids : List CR.Assign.Id := (E.shp (shape).1 (shape).2)
          let s ← (
            if (!(CR.PyC07.predIsNone E obstacle)) then do
              let s ← CR.PyC07.predShapeSetItem E s obstacle time_step lanelet_ids
              pure s
            else do
              pure s)
          pure (s, lanelet_ids))
      let s ← (
        if decide (time_step = (E.t0 obstacle)) then do
          let s ← (
            if (!use_center_only) then do
              let s := CR.PyC07.setInitShape s obstacle (some lanelet_ids)
              pure s
            else do
              pure s)
          let s := CR.PyC07.setInitCenter s obstacle (some lanelet_ids_center)
          pure s
        else do
          pure s)
      let s ← (lanelet_ids).foldlM (fun s l_id => do
        let s ← Lanelet_add_dynamic_obstacle_to_lanelet s (← CR.PyC07.deref (CR.PyC07.findLanelet E l_id)) obstacle time_step
        pure s) s
      return s

/-- nested function `assign_static_obstacle` of assign_obstacles_to_lanelets (closure variables first) -/
def Scenario_assign_obstacles_to_lanelets.assign_static_obstacle (E : CR.Assign.Env) (use_center_only : Bool) (s : CR.Assign.St) (obstacle : CR.Assign.Id) : Res CR.Assign.St := do
  let shape : CR.PyC07.At := (← CR.PyC07.derefAt (CR.PyC07.staticOccAt E obstacle 0))
  let lanelet_ids : List CR.Assign.Id := default    -- unbound until assigned
  let (s, lanelet_ids) ← (
    if (!use_center_only) then do
      let lanelet_ids : List CR.Assign.Id := (E.shp (shape).1 (shape).2)
      let s := CR.PyC07.setInitShape s obstacle (some lanelet_ids)
      pure (s, lanelet_ids)
    else do
      pure (s, lanelet_ids))
  let lanelet_ids_center : List CR.Assign.Id := (E.cen (((obstacle, E.t0 obstacle) : CR.PyC07.At)).1 (((obstacle, E.t0 obstacle) : CR.PyC07.At)).2)
  let s := CR.PyC07.setInitCenter s obstacle (some lanelet_ids_center)
  let (s, lanelet_ids) ← (
    if use_center_only then do
      let lanelet_ids : List CR.Assign.Id := lanelet_ids_center
      pure (s, lanelet_ids)
    else do
      pure (s, lanelet_ids))
  let s ← (lanelet_ids).foldlM (fun s l_id => do
    let s ← Lanelet_add_static_obstacle_to_lanelet s (← CR.PyC07.deref (CR.PyC07.findLanelet E l_id)) obstacle
    pure s) s
  return s

/-- commonroad/scenario/scenario.py: Scenario.assign_obstacles_to_lanelets -/
def Scenario_assign_obstacles_to_lanelets (E : CR.Assign.Env) (s : CR.Assign.St) (time_steps : Option (List CR.Assign.T)) (obstacle_ids : Option (List CR.Assign.Id)) (use_center_only : Bool) : Res CR.Assign.St := do
  let (s, obstacle_ids) ← (
    match obstacle_ids with
    | none => do
      let obstacle_ids : List CR.Assign.Id := (s.statics ++ s.dynamics)
      pure (s, obstacle_ids)
    | some obstacle_ids => do
      pure (s, obstacle_ids))
  let s ← (obstacle_ids).foldlM (fun s obs_id => do
    let obs : Option CR.Assign.Id := (CR.PyC07.obstacleById s obs_id)
    let s ← (
      if (CR.PyC07.isDynamicObj s obs) then do
        let time_steps_tmp : List CR.Assign.T := default    -- unbound until assigned
        let (s, time_steps_tmp) ← (
          match time_steps with
          | none => do
            let time_steps_tmp : List CR.Assign.T := default    -- unbound until assigned
            let (s, time_steps_tmp) ← (
              if (CR.PyC07.predIsNone E (← CR.PyC07.deref obs)) then do
                let time_steps_tmp : List CR.Assign.T := [(E.t0 (← CR.PyC07.deref obs))]
                pure (s, time_steps_tmp)
              else do
                let time_steps_tmp : List CR.Assign.T := (CR.PyC07.pyRange (E.t0 (← CR.PyC07.deref obs)) ((E.tf (← CR.PyC07.deref obs)) + 1))
                pure (s, time_steps_tmp))
            pure (s, time_steps_tmp)
          | some time_steps => do
            let time_steps_tmp : List CR.Assign.T := time_steps
            pure (s, time_steps_tmp))
        let s ← (
          if (!(CR.PyC07.predIsNone E (← CR.PyC07.deref obs))) then do
            let s ← (
              if (← (if (!use_center_only) then (do pure ((← CR.PyC07.predShape E s (← CR.PyC07.deref obs))).isNone) else pure false)) then do
                let s ← CR.PyC07.setPredShape E s (← CR.PyC07.deref obs) (some [])
                pure s
              else do
                pure s)
            let s ← (
              if ((← CR.PyC07.predCenter E s (← CR.PyC07.deref obs))).isNone then do
                let s ← CR.PyC07.setPredCenter E s (← CR.PyC07.deref obs) (some [])
                pure s
              else do
                pure s)
            pure s
          else do
            pure s)
        let s ← (time_steps_tmp).foldlM (fun s t => do
          let s ← Scenario_assign_obstacles_to_lanelets.assign_dynamic_obstacle_shape_at_time E use_center_only s (← CR.PyC07.deref obs) t
          pure s) s
        pure s
      else do
        let s ← Scenario_assign_obstacles_to_lanelets.assign_static_obstacle E use_center_only s (← CR.PyC07.deref obs)
        pure s)
    pure s) s
  return s
