/-- commonroad/common/util.py: Interval.__lt__ -/
def Interval_lt_num (self : CR.Iv.I) (other : Rat) : Bool := Id.run do
  return (if decide (self.hi < other) then true else false)
