/-- commonroad/scenario/scenario.py: Scenario.remove_lanelet — argument is a list of lanelets (a single lanelet is wrapped into a list); remove_hanging_lanelet_members is the translated function above -/
def Scenario_remove_lanelet_list (self : CR.Refs.Scn) (lanelet : List (CR.Refs.RmArg)) (referenced_elements : Bool) : CR.Refs.Scn × Option CR.Err :=
  if referenced_elements then
    CR.PyR.andThen (Scenario_remove_hanging_lanelet_members self lanelet) (fun self =>
      CR.PyR.andThen (CR.PyR.forEach (fun self (la : CR.Refs.RmArg) =>
          if (CR.PyR.findLanelet self.net la.id).isNone then
            (self, some .key)
          else
            let self := { self with net := (LaneletNetwork_remove_lanelet self.net la.id) }
            CR.PyR.andThen (CR.PyR.idSetRemove self la.id) (fun self =>
              (self, none))) self lanelet) (fun self =>
        (self, none)))
  else
    CR.PyR.andThen (CR.PyR.forEach (fun self (la : CR.Refs.RmArg) =>
        if (CR.PyR.findLanelet self.net la.id).isNone then
          (self, some .key)
        else
          let self := { self with net := (LaneletNetwork_remove_lanelet self.net la.id) }
          CR.PyR.andThen (CR.PyR.idSetRemove self la.id) (fun self =>
            (self, none))) self lanelet) (fun self =>
      (self, none))
