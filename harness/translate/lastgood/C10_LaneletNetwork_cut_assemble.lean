/-- commonroad/scenario/lanelet.py: LaneletNetwork.create_from_lanelet_network — everything AFTER the loop over the old intersections: add_traffic_sign / add_traffic_light / add_lanelet of the selected ids (call-table entries PyR.add*R: `None` = AssertionError), the `if cleanup_ids` call of cleanup_lanelet_references, the return -/
def LaneletNetwork_cut_assemble (lanelet_network : CR.Refs.Net) (new_lanelet_network : CR.Refs.Net) (lanelet_ids : List CR.Refs.Id) (traffic_sign_ids : List CR.Refs.Id) (traffic_light_ids : List CR.Refs.Id) (cleanup_ids : Bool) : CR.Res CR.Refs.Net :=
  CR.PyR.bindR (CR.PyR.forR (fun new_lanelet_network (sign_id : CR.Refs.Id) => CR.PyR.addSignR new_lanelet_network (CR.PyR.findSign lanelet_network sign_id)) new_lanelet_network traffic_sign_ids) (fun new_lanelet_network =>
    CR.PyR.bindR (CR.PyR.forR (fun new_lanelet_network (light_id : CR.Refs.Id) => CR.PyR.addLightR new_lanelet_network (CR.PyR.findLight lanelet_network light_id)) new_lanelet_network traffic_light_ids) (fun new_lanelet_network =>
      CR.PyR.bindR (CR.PyR.forR (fun new_lanelet_network (lanelet_id : CR.Refs.Id) => CR.PyR.addLaneletR new_lanelet_network (CR.PyR.findLanelet lanelet_network lanelet_id)) new_lanelet_network lanelet_ids) (fun new_lanelet_network =>
        let new_lanelet_network :=
          if cleanup_ids then
            let new_lanelet_network := (LaneletNetwork_cleanup_lanelet_references new_lanelet_network)
            new_lanelet_network
          else
            new_lanelet_network
        .ok new_lanelet_network)))
