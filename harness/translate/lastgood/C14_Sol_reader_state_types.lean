/-- commonroad/common/solution.py: CommonRoadSolutionReader._parse_state — the dict `state_types`: (StateType member, state class) -/
def Sol_reader_state_types : List (String × String) := [("MB", "MBState"), ("KS", "KSState"), ("KST", "KSTState"), ("PM", "PMState"), ("ST", "STState"), ("Input", "InputState"), ("PMInput", "PMInputState")]
