/-- commonroad/common/writer/file_writer_protobuf.py ShapeGroupMessage.create_message — `ShapeMessage.create_message(shape)` inside the loop is the recursive call `rec` -/
def W_ShapeGroup (rec : Shape → PB) (s : List Shape) : PB :=
  PB.msg [("shapes", PB.rep (List.map (fun v1 => (rec v1)) s))]
