/-- commonroad/scenario/obstacle.py: DynamicObstacle.state_at_time -/
def DynamicObstacle_state_at_time (tInit : Int) (p : CR.Occ.Pred) (time_step : Int) : Option CR.Occ.StRef := Id.run do
  if decide (time_step = tInit) then
    return some CR.Occ.StRef.init
  else
    if p.isSetBased then
      return none
    else
      if (decide (time_step > tInit) && (p).isSome) then
        return (CR.Occ.Pred.trajStateAt p time_step)
      else
        return none
