/-- commonroad/scenario/scenario.py: Scenario._remove_dynamic_obstacle_from_lanelets -/
def Scenario_remove_dynamic_obstacle_from_lanelets (E : CR.Assign.Env) (s : CR.Assign.St) (obstacle : CR.Assign.Id) : Res CR.Assign.St := do
  if (decide (E.kind obstacle = .dynSet) || decide (((E.lanelets).length : Int) = 0)) then do
    return s
  else do
    let s ← (
      if (!((s.fwd obstacle).initShape).isNone) then do
        let s ← ((← CR.PyC07.iter (s.fwd obstacle).initShape)).foldlM (fun s lanelet_id => do
          let lanelet : Option CR.Assign.Id := (CR.PyC07.findLanelet E lanelet_id)
          let s ← (
            if (← (if (!(lanelet).isNone) then (do pure (CR.PyC07.ddictHas s (← CR.PyC07.deref lanelet) (E.t0 obstacle))) else pure false)) then do
              let s ← CR.PyC07.ddictDiscardAt s (← CR.PyC07.deref lanelet) (E.t0 obstacle) obstacle
              pure s
            else do
              pure s)
          pure s) s
        pure s
      else do
        pure s)
    let s ← (
      if (← (if (!(CR.PyC07.predIsNone E obstacle)) then (do pure (!((← CR.PyC07.predShape E s obstacle)).isNone)) else pure false)) then do
        let s ← ((← CR.PyC07.items (← CR.PyC07.predShape E s obstacle))).foldlM (fun s kv => do
          let time_step : Int := kv.1
          let ids : List CR.Assign.Id := kv.2
          let s ← (ids).foldlM (fun s lanelet_id => do
            let lanelet : Option CR.Assign.Id := (CR.PyC07.findLanelet E lanelet_id)
            let s ← (
              if (← (if (!(lanelet).isNone) then (do pure (CR.PyC07.ddictHas s (← CR.PyC07.deref lanelet) time_step)) else pure false)) then do
                let s ← CR.PyC07.ddictDiscardAt s (← CR.PyC07.deref lanelet) time_step obstacle
                pure s
              else do
                pure s)
            pure s) s
          pure s) s
        pure s
      else do
        pure s)
    let center_assignment : CR.Assign.Dict := (((CR.PyC07.predCenterOrNone E s obstacle)).getD [])
    let t_init : Int := (E.t0 obstacle)
    let center_assignment := CR.Assign.dictSet center_assignment t_init ((CR.PyC07.dictGetD center_assignment t_init) ++ (((s.fwd obstacle).initCenter).getD []))
    let s ← (center_assignment).foldlM (fun s kv => do
      let time_step : Int := kv.1
      let ids : List CR.Assign.Id := kv.2
      let s ← (ids).foldlM (fun s lanelet_id => do
        let lanelet : Option CR.Assign.Id := (CR.PyC07.findLanelet E lanelet_id)
        let s ← (
          if (← (if (!(lanelet).isNone) then (do pure (CR.PyC07.ddictHas s (← CR.PyC07.deref lanelet) time_step)) else pure false)) then do
            let s ← CR.PyC07.ddictDiscardAt s (← CR.PyC07.deref lanelet) time_step obstacle
            pure s
          else do
            pure s)
        pure s) s
      pure s) s
    return s
