/-- commonroad/scenario/lanelet.py: Lanelet.add_static_obstacle_to_lanelet -/
def Lanelet_add_static_obstacle_to_lanelet (s : CR.Assign.St) (self : CR.Assign.Id) (obstacle_id : Int) : Res CR.Assign.St := do
  let s := CR.PyC07.ssetAdd s self obstacle_id
  return s
