/-- commonroad/geometry/shape.py: Circle.contains_point — `norm` is np.linalg.norm on 2-vectors (a parameter: the non-negative root) -/
def Circle_contains_point (norm : CR.Geom.Pt → Rat) (radius : Rat) (center : CR.Geom.Pt) (point : CR.Geom.Pt) : Bool :=
  decide (radius ≥ (norm (CR.Py06.vsub point center)))
