/-- commonroad/scenario/scenario.py: Scenario.remove_obstacle — one obstacle object (the list form recurses over its elements); `self._environment_obstacle` / `self._phantom_obstacle` are empty in the model -/
def Scenario_remove_obstacle (E : CR.Assign.Env) (s : CR.Assign.St) (obstacle : CR.Assign.Id) : Res CR.Assign.St := do
  do
    let s ← (
      if decide (obstacle ∈ s.statics) then do
        let s ← Scenario_remove_static_obstacle_from_lanelets E s obstacle (s.fwd obstacle).initShape
        let s ← CR.PyC07.delStatic s obstacle
        -- self._id_set.remove(…): `_id_set` denotes statics ∪ dynamics ∪ lanelets (PyExtC07.markUsed)
        pure s
      else do
        let s ← (
          if decide (obstacle ∈ s.dynamics) then do
            let s ← Scenario_remove_dynamic_obstacle_from_lanelets E s obstacle
            let s ← CR.PyC07.delDynamic s obstacle
            -- self._id_set.remove(…): `_id_set` denotes statics ∪ dynamics ∪ lanelets (PyExtC07.markUsed)
            pure s
          else do
            let s ← (
              do
                let s ← (
                  do
                    pure s)
                pure s)
            pure s)
        pure s)
    return s
