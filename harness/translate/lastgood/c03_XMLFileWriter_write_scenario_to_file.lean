-- XMLFileWriter.write_scenario_to_file :: b_XMLFileWriter_write_scenario_to_file
def b_XMLFileWriter_write_scenario_to_file : CR.SrcW.Builder where
  key := "XMLFileWriter.write_scenario_to_file"
  kind := .fill
  tag := ""
  xsd := "/commonRoad"
  path := []
  parent := ""
  attrs := []
  gattrs := []
  text := none
  atoms := ["pathlib.Path(filename).is_file()", "overwrite_existing_file is OverwriteExistingFile.ASK_USER_INPUT", "overwrite_existing_file is OverwriteExistingFile.SKIP", "overwrite == 'n'"]
  body :=
    (.ite (.atom 0)
      (.ite (.atom 3)
        .skip
        (.seq
          (.splice "XMLFileWriter._write_header")
          (.splice "XMLFileWriter._add_all_objects_from_scenario")))
      (.seq
        (.splice "XMLFileWriter._write_header")
        (.splice "XMLFileWriter._add_all_objects_from_scenario")))
