/-- commonroad/scenario/obstacle.py: PhantomObstacle.__eq__ / PhantomObstacle.__hash__ -/
def src_PhantomObstacle : ClassSrc :=
  { guard := "PhantomObstacle",
    eqs := [
      ⟨"obstacle_id", [(.eq .id)]⟩,
      ⟨"prediction", [(.eq .id)]⟩],
    hashes := [
      ⟨"obstacle_id", .it⟩,
      ⟨"prediction", .it⟩] }
