/-- commonroad/geometry/shape.py: Rectangle._shapely_polygon — memoising property `_shapely_polygon` (the ring of the shapely polygon): returns (object afterwards, ring) -/
def Rectangle_shapely_polygon (self : CR.ShapeObj.RectObj) : CR.ShapeObj.RectObj × List CR.Geom.Pt :=
  if (self.polygon).isNone then
    let r2_ := (Rectangle_vertices self)
    let self := r2_.1
    let p1_ := r2_.2
    let self := { self with polygon := (some p1_) }
    (self, (self.polygon.getD []))
  else
    (self, (self.polygon.getD []))
