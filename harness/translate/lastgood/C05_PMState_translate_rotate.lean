/-- commonroad/scenario/state.py: PMState.translate_rotate — vel = some (velocity, velocity_y) iff both are real numbers -/
def PMState_translate_rotate (m : CR.Rigid.Mo) (pos : CR.Rigid.Pos) (ori : CR.Rigid.Ori) (vel : Option CR.Rigid.Pt) : Res (CR.Rigid.State) := do
  let o_1 := (← State_translate_rotate m pos ori vel)
  let mut tpos := o_1.pos
  let mut tori := o_1.ori
  let mut tvel := o_1.vel
  if vel.isSome then
    let t_2 := m.c
    let t_3 := m.s
    let mut cos_angle := t_2
    let mut sin_angle := t_3
    tvel := some ⟨((cos_angle * (vel.getD ⟨0, 0⟩).x) - (sin_angle * (vel.getD ⟨0, 0⟩).y)), (tvel.getD ⟨0, 0⟩).y⟩
    tvel := some ⟨(tvel.getD ⟨0, 0⟩).x, ((sin_angle * (vel.getD ⟨0, 0⟩).x) + (cos_angle * (vel.getD ⟨0, 0⟩).y))⟩
  return (⟨tpos, tori, tvel⟩ : CR.Rigid.State)
