/-- commonroad/geometry/shape.py: Circle.rotate_translate_local -/
def Circle_rotate_translate_local (r : Rat) (ctr : CR.Rigid.Pt) (translation : CR.Rigid.Pt) (angle : Rat) : Res (CR.Rigid.Shape) := do
  CR.Py.assert (true)
  let new_center := (CR.Place.Pt.add ctr translation)
  return (CR.Rigid.Shape.circ r new_center)
