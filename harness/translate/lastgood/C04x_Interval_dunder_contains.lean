/-- commonroad/common/util.py: Interval.__contains__ -/
def Interval_dunder_contains (self : CR.Iv.I) (value : Rat) : Bool := Id.run do
  return (Interval_contains_num self value)
