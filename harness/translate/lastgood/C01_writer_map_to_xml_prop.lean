/-- commonroad/common/writer/file_writer_xml.py: StateXMLNode._map_to_xml_prop -/
def writer_map_to_xml_prop (prop : String) : String := Id.run do
  if ("time_step" == prop) then
    let xml_prop := "time"
    return xml_prop
  else
    if ("delta_y_f" == prop) then
      let xml_prop := "deltaYFront"
      return xml_prop
    else
      if ("delta_y_r" == prop) then
        let xml_prop := "deltaYRear"
        return xml_prop
      else
        if ("curvature_rate" == prop) then
          let xml_prop := "curvatureChange"
          return xml_prop
        else
          let xml_prop := (CR.PyC01.reCamel prop)
          return xml_prop
