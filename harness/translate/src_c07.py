"""py -> Lean translator for the obstacle <-> lanelet bookkeeping of commonroad-io (property C07; translator tie T07).

`regenerate(repo, gen_dir)` parses the CURRENT source of the functions listed in `targets()` with `ast` and writes Lean definitions
over the state of the hand model (`CR.Assign.St`, `CR.Assign.Env`) to `<gen_dir>/SrcC07.lean` (module `Gen.SrcC07`).
`lean/CRProps/T07.lean` proves every generated definition equal to the model function the C07 theorems are about.

Style: functional translation of imperative code.  The object graph the functions mutate (registries of the lanelets, assignment
attributes of the obstacles, the scenario's obstacle dicts) is ONE state variable `s : CR.Assign.St` that every effect rebinds;
Python expressions are translated type-directed (a small set of type tags: obstacle / optional obstacle, lanelet / optional lanelet,
set, optional set, dict, optional dict, registry places, prediction, state-at-time ...) through the fixed call table
`lean/CRModel/PyExtC07.lean`.  `for` loops become `List.foldlM` over the variables the body rebinds, `if` without `return` becomes a
conditional yielding the rebound variables, early `return` moves the rest of the block into the other branch, `x is None` on an
optional local becomes a `match` (flow typing), nested functions become auxiliary definitions, `a and b` / `a or b` evaluate `b`
lazily when it can raise.  Anything else raises `Unsupported` => status `lost`, last good translation is emitted.
"""
from __future__ import annotations

import ast
import copy
import os

from .pysrc import Tr, Unsupported, find_func

HERE = os.path.dirname(os.path.abspath(__file__))
LASTGOOD = os.path.join(HERE, "lastgood")

P = "CR.PyC07."
LEAN_TY = {"set": "List CR.Assign.Id", "int": "Int", "optset": "Option (List CR.Assign.Id)", "dict": "CR.Assign.Dict",
           "optdict": "Option CR.Assign.Dict", "list-int": "List CR.Assign.T", "bool": "Bool", "at": "CR.PyC07.At",
           "lanelet?": "Option CR.Assign.Id", "obst?": "Option CR.Assign.Id", "obst": "CR.Assign.Id", "lanelet": "CR.Assign.Id",
           "ddict": "CR.Assign.Id", "sset": "CR.Assign.Id", "at?": "Option CR.PyC07.At", "optlist-int": "Option (List CR.Assign.T)"}
NARROW = {"optset": "set", "optdict": "dict", "optlist-int": "list-int", "lanelet?": "lanelet", "obst?": "obst", "at?": "at"}
OBST_CLASSES = {"StaticObstacle": {"StaticObstacle", "Obstacle"}, "DynamicObstacle": {"DynamicObstacle", "Obstacle"},
                "Obstacle": {"Obstacle"}}


class T7:
    def __init__(self, name, file, cls, func, params, self_ty="scenario", classes=None, calls=None, doc="", nested=(), env_param=True, ignore_params=()):
        self.name, self.file, self.cls, self.func = name, file, cls, func
        self.params = params            # [(python name, type tag)]
        self.self_ty = self_ty
        self.classes = classes or {}    # python variable -> declared class (static isinstance evaluation, occupancy accessor)
        self.calls = calls or {}        # method name of self -> (generated definition, [arg type tags])
        self.doc = doc
        self.nested = list(nested)
        self.env_param = env_param
        self.ignore_params = set(ignore_params)   # trailing parameters the translated branches do not read


class Tr7(Tr):
    """Statement / expression translator; `self.env` maps a Python local to (lean name, type tag)."""

    def __init__(self, t: T7):
        self.t = t
        self.env = {}
        self.aux = []
        self.closure = []       # binders of the enclosing function visible in nested ones
        self.funcs = {}         # nested function name -> (lean name, [param tags], closure args)

    # ------------------------------------------------------------------ helpers
    def lname(self, name):
        return {"end": "end_", "from": "from_", "type": "type_", "at": "at_", "fun": "fun_", "s": "s_", "E": "E_"}.get(name, name)

    def cls_of(self, n):
        return self.t.classes.get(n.id) if isinstance(n, ast.Name) else None

    def lazy(self, txt):
        """a Bool term that may raise (contains a nested action) as its own do-block, for short-circuit evaluation"""
        return f"(do pure {txt})" if "←" in txt else None

    def is_none(self, n):
        return isinstance(n, ast.Constant) and n.value is None

    def kw(self, call, names):
        """positional / keyword arguments of a call in the order `names`"""
        out = list(call.args)
        kws = {k.arg: k.value for k in call.keywords}
        for nm in names[len(out):]:
            if nm not in kws:
                raise Unsupported(f"missing argument {nm}")
            out.append(kws[nm])
        if len(out) != len(names):
            raise Unsupported("argument count")
        return out

    # ------------------------------------------------------------------ expressions: (lean text, type tag)
    def ex(self, n):
        if isinstance(n, ast.Constant):
            if n.value is None:
                return "none", "none"
            if isinstance(n.value, bool):
                return ("true" if n.value else "false"), "bool"
            if isinstance(n.value, int):
                return (f"{n.value}" if n.value >= 0 else f"({n.value})"), "int"
            if isinstance(n.value, str):
                return repr(n.value), "str"
            raise Unsupported(f"constant {n.value!r}")
        if isinstance(n, ast.Name):
            if n.id == "self":
                return "self", self.t.self_ty
            if n.id in self.env:
                return self.env[n.id]
            raise Unsupported(f"name {n.id}")
        if isinstance(n, ast.Tuple) and not n.elts:
            return "[]", "set"
        if isinstance(n, ast.Dict) and not n.keys:
            return "[]", "dict"
        if isinstance(n, ast.List) and len(n.elts) == 1:
            v, ty = self.ex(n.elts[0])
            return f"[{v}]", {"int": "list-int", "at": "list-at"}.get(ty, "list")
        if isinstance(n, ast.Attribute):
            return self.attr(n)
        if isinstance(n, ast.Call):
            return self.call(n)
        if isinstance(n, ast.Subscript):
            v, ty = self.ex(n.value)
            if ty == "cenlist" and isinstance(n.slice, ast.Constant) and n.slice.value == 0:
                return v, "set"
            if ty == "ddict":
                k, _ = self.ex(n.slice)
                return f"{v}|{k}", "dditem"
            raise Unsupported(f"subscript of {ty}")
        if isinstance(n, ast.BinOp):
            a, ta = self.ex(n.left)
            b, tb = self.ex(n.right)
            if isinstance(n.op, ast.BitOr) and ta == "set" and tb == "set":
                return f"({a} ++ {b})", "set"
            if ta == "int" and tb == "int" and isinstance(n.op, (ast.Add, ast.Sub)):
                return f"({a} {'+' if isinstance(n.op, ast.Add) else '-'} {b})", "int"
            raise Unsupported(f"binary op {type(n.op).__name__} on {ta}, {tb}")
        if isinstance(n, ast.UnaryOp) and isinstance(n.op, ast.Not):
            a, ta = self.ex(n.operand)
            if ta != "bool":
                raise Unsupported(f"not on {ta}")
            return f"(!{a})", "bool"
        if isinstance(n, ast.BoolOp):
            return self.boolop(n)
        if isinstance(n, ast.Compare):
            return self.compare(n)
        if isinstance(n, ast.IfExp):
            c, tc = self.ex(n.test)
            a, ta = self.ex(n.body)
            b, tb = self.ex(n.orelse)
            if tc != "bool" or ta != tb:
                raise Unsupported("conditional expression")
            if "←" in a or "←" in b:
                return f"(← (if {c} then do pure {a} else do pure {b}))", ta
            return f"(if {c} then {a} else {b})", ta
        raise Unsupported(f"expression {type(n).__name__}")

    def boolop(self, n):
        vals = [self.ex(v) for v in n.values]
        # `x or ()` / `x or {}` on an optional set / dict
        if isinstance(n.op, ast.Or) and len(vals) == 2 and vals[0][1] in ("optset", "optdict") and vals[1][0] == "[]":
            return f"(({vals[0][0]}).getD [])", NARROW[vals[0][1]]
        if any(ty != "bool" for _, ty in vals):
            raise Unsupported(f"boolean operator on {[ty for _, ty in vals]}")
        is_and = isinstance(n.op, ast.And)
        txt = vals[-1][0]
        for v, _ in reversed(vals[:-1]):
            lz = self.lazy(txt)
            if lz is None:
                txt = f"({v} {'&&' if is_and else '||'} {txt})"
            elif is_and:
                txt = f"(← (if {v} then {lz} else pure false))"
            else:
                txt = f"(← (if {v} then pure true else {lz}))"
        return txt, "bool"

    def compare(self, n):
        if len(n.ops) != 1:
            raise Unsupported("chained comparison")
        op, right = n.ops[0], n.comparators[0]
        if isinstance(op, (ast.Is, ast.IsNot)) and self.is_none(right):
            v, ty = self.ex(n.left)
            if ty in NARROW:
                r = f"({v}).isNone"
            elif ty == "pred":
                r = f"({P}predIsNone E {v})"
            elif ty == "none":
                r = "true"
            else:
                raise Unsupported(f"`is None` on {ty}")
            return (r if isinstance(op, ast.Is) else f"(!{r})"), "bool"
        a, ta = self.ex(n.left)
        b, tb = self.ex(right)
        if isinstance(op, (ast.In, ast.NotIn)):
            if tb in ("statics", "dynamics"):
                r = f"decide ({a} ∈ s.{tb})"
            elif tb == "emptydict":
                r = "false"
            elif tb == "ddict":
                r = f"({P}ddictHas s {b} {a})"
            elif tb == "set":
                r = f"decide ({a} ∈ {b})"
            else:
                raise Unsupported(f"`in` on {tb}")
            return (r if isinstance(op, ast.In) else f"(!{r})"), "bool"
        sym = {ast.Lt: "<", ast.LtE: "≤", ast.Gt: ">", ast.GtE: "≥", ast.Eq: "=", ast.NotEq: "≠"}.get(type(op))
        if sym is None or ta != "int" or tb != "int":
            raise Unsupported(f"comparison {type(op).__name__} on {ta}, {tb}")
        return f"decide ({a} {sym} {b})", "bool"

    def attr(self, n):
        v, ty = self.ex(n.value)
        a = n.attr
        if ty == "scenario":
            tab = {"lanelet_network": ("", "lnet"), "_lanelet_network": ("", "lnet"), "_static_obstacles": ("", "statics"),
                   "_dynamic_obstacles": ("", "dynamics"), "_environment_obstacle": ("", "emptydict"),
                   "_phantom_obstacle": ("", "emptydict"), "_id_set": ("", "idset")}
            if a in tab:
                return tab[a]
        if ty == "lnet" and a == "lanelets":
            return "E.lanelets", "list"
        if ty in ("lanelet", "lanelet?") and a in ("static_obstacles_on_lanelet", "dynamic_obstacles_on_lanelet",
                                                   "_static_obstacles_on_lanelet", "_dynamic_obstacles_on_lanelet"):
            owner = v if ty == "lanelet" else f"(← {P}deref {v})"
            return owner, ("sset" if "static" in a else "ddict")
        if ty == "obst?":
            v, ty = f"(← {P}deref {v})", "obst"
        if ty == "obst":
            tab = {"obstacle_id": (v, "int"), "initial_state": (v, "state0"), "prediction": (v, "pred"), "_prediction": (v, "pred"),
                   "initial_shape_lanelet_ids": (f"(s.fwd {v}).initShape", "optset"),
                   "initial_center_lanelet_ids": (f"(s.fwd {v}).initCenter", "optset")}
            if a in tab:
                return tab[a]
        if ty == "state0":
            if a == "time_step":
                return f"(E.t0 {v})", "int"
            if a == "position":
                return f"(({v}, E.t0 {v}) : {P}At)", "at"
        if ty == "pred":
            tab = {"shape_lanelet_assignment": (f"(← {P}predShape E s {v})", "optdict"),
                   "center_lanelet_assignment": (f"(← {P}predCenter E s {v})", "optdict"),
                   "final_time_step": (f"(E.tf {v})", "int"), "trajectory": (v, "traj")}
            if a in tab:
                return tab[a]
        if ty == "at?" and a in ("position", "shape"):
            return f"(← {P}derefAt {v})", "at"
        if ty == "at" and a in ("position", "shape"):
            return v, "at"
        if ty == "at" and a == "time_step":
            return f"({v}).2", "int"
        raise Unsupported(f"attribute .{a} of {ty}")

    def call(self, n):
        f = n.func
        if isinstance(f, ast.Name):
            name = f.id
            if name == "len" and len(n.args) == 1:
                v, ty = self.ex(n.args[0])
                if ty in ("list", "set", "list-int"):
                    return f"(({v}).length : Int)", "int"
            if name == "set":
                if not n.args:
                    return "[]", "set"
                v, ty = self.ex(n.args[0])
                if ty in ("set", "list"):
                    return v, "set"
            if name == "dict" and len(n.args) == 1:
                v, ty = self.ex(n.args[0])
                if ty == "dict":
                    return v, "dict"
            if name == "getattr" and len(n.args) == 3 and self.is_none(n.args[2]) and isinstance(n.args[1], ast.Constant):
                v, ty = self.ex(n.args[0])
                if ty == "pred" and n.args[1].value == "center_lanelet_assignment":
                    return f"({P}predCenterOrNone E s {v})", "optdict"
                if ty == "pred" and n.args[1].value == "shape_lanelet_assignment":
                    return f"({P}predShapeOrNone E s {v})", "optdict"
            if name == "range" and len(n.args) == 2:
                (a, ta), (b, tb) = self.ex(n.args[0]), self.ex(n.args[1])
                if ta == tb == "int":
                    return f"({P}pyRange {a} {b})", "list-int"
            if name == "isinstance" and len(n.args) == 2:
                return self.isinstance(n), "bool"
            raise Unsupported(f"call {name}")
        if isinstance(f, ast.Attribute):
            v, ty = self.ex(f.value)
            m = f.attr
            if ty == "lnet" and m == "find_lanelet_by_id":
                (x,) = self.kw(n, ["lanelet_id"])
                return f"({P}findLanelet E {self.ex(x)[0]})", "lanelet?"
            if ty == "lnet" and m == "find_lanelet_by_position":
                (x,) = self.kw(n, ["point_list"])
                p, tp = self.ex(x)
                if tp == "list-at":
                    return f"(E.cen ({p[1:-1]}).1 ({p[1:-1]}).2)", "cenlist"
            if ty == "lnet" and m == "find_lanelet_by_shape":
                (x,) = self.kw(n, ["shape"])
                p, tp = self.ex(x)
                if tp == "at":
                    return f"(E.shp ({p}).1 ({p}).2)", "list"
            if ty == "scenario" and m == "obstacle_by_id":
                (x,) = self.kw(n, ["obstacle_id"])
                return f"({P}obstacleById s {self.ex(x)[0]})", "obst?"
            if ty == "ddict" and m == "get" and len(n.args) == 1:
                return f"({P}ddictGet s {v} {self.ex(n.args[0])[0]})", "optset"
            if ty == "dict" and m == "get" and len(n.args) == 2 and self.ex(n.args[1]) == ("[]", "set"):
                return f"({P}dictGetD {v} {self.ex(n.args[0])[0]})", "set"
            if ty == "optdict" and m == "items" and not n.args:
                return f"(← {P}items {v})", "items"
            if ty == "dict" and m == "items" and not n.args:
                return v, "items"
            if ty in ("statics", "dynamics") and m == "keys":
                return f"s.{ty}", "set"
            if ty == "set" and m == "union" and len(n.args) == 1:
                b, tb = self.ex(n.args[0])
                if tb == "set":
                    return f"({v} ++ {b})", "set"
            if ty == "obst?" and m == "occupancy_at_time":
                v, ty = f"(← {P}deref {v})", "obst"
            if ty == "obst" and m == "occupancy_at_time":
                (x,) = self.kw(n, ["time_step"])
                c = self.cls_of(f.value)
                fn = {"DynamicObstacle": "dynOccAt", "StaticObstacle": "staticOccAt"}.get(c)
                if fn:
                    return f"({P}{fn} E {v} {self.ex(x)[0]})", "at?"
            if ty == "traj" and m == "state_at_time_step":
                (x,) = self.kw(n, ["time_step"])
                return f"({P}trajStateAt E {v} {self.ex(x)[0]})", "at?"
            raise Unsupported(f"method .{m} of {ty}")
        raise Unsupported("call")

    def isinstance(self, n):
        x, c = n.args
        names = [self.dotted(e) for e in c.elts] if isinstance(c, ast.Tuple) else [self.dotted(c)]
        v, ty = self.ex(x)
        if ty == "pred" and names == ["SetBasedPrediction"]:
            return f"decide (E.kind {v} = .dynSet)"
        if ty == "pred" and names == ["TrajectoryPrediction"]:
            return f"decide (E.kind {v} = .dynTraj)"
        if ty == "obst?" and names == ["DynamicObstacle"]:
            return f"({P}isDynamicObj s {v})"
        if ty == "obst":
            have = OBST_CLASSES.get(self.cls_of(x))
            if have is not None:
                if any(nm in have for nm in names):
                    return "true"
                if self.cls_of(x) != "Obstacle" or all(nm in ("list", "bool", "Lanelet", "LaneletNetwork") for nm in names):
                    return "false"
        if ty == "bool" and names == ["bool"]:
            return "true"
        raise Unsupported(f"isinstance({ty}, {names})")

    # ------------------------------------------------------------------ statements
    def some(self, v, ty):
        if ty == "none":
            return "none"
        if ty in ("set", "dict"):
            return f"(some {v})"
        if ty in ("optset", "optdict"):
            return v
        raise Unsupported(f"stored value of type {ty}")

    def effect(self, st, pad):
        """one statement with an effect on `s` (or a skipped ghost statement): list of lines, or None if it is not one"""
        if isinstance(st, ast.Expr) and isinstance(st.value, ast.Call):
            c = st.value
            d = self.dotted(c.func)
            if d == "warnings.warn":
                return []
            if d.startswith("self._id_set."):
                return [f"{pad}-- {d}(…): `_id_set` denotes statics ∪ dynamics ∪ lanelets (PyExtC07.markUsed)"]
            if isinstance(c.func, ast.Name) and c.func.id in self.funcs:
                ln, tags, clo = self.funcs[c.func.id]
                args = self.args_for(c.args, tags)
                return [f"{pad}let s ← {ln} {clo} s {' '.join(args)}"]
            if isinstance(c.func, ast.Attribute):
                m = c.func.attr
                if d.startswith("self.") and d.count(".") == 1 and m in self.t.calls:
                    fn, tags = self.t.calls[m]
                    if fn == "markUsed":
                        return [f"{pad}{P}markUsed E s {self.args_for(c.args, tags)[0]}"]
                    return [f"{pad}let s ← {fn} E s {' '.join(self.args_for(c.args, tags))}"]
                if isinstance(c.func.value, ast.Subscript):
                    v, ty = self.ex(c.func.value)
                    if ty == "dditem" and m in ("add", "discard") and len(c.args) == 1:
                        owner, key = v.split("|")
                        fn = "ddictAddAt" if m == "add" else "ddictDiscardAt"
                        return [f"{pad}let s ← {P}{fn} s {owner} {key} {self.ex(c.args[0])[0]}"]
                v, ty = self.ex(c.func.value)
                if ty == "sset" and len(c.args) == 1:
                    x = self.ex(c.args[0])[0]
                    if m == "add":
                        return [f"{pad}let s := {P}ssetAdd s {v} {x}"]
                    if m == "discard":
                        return [f"{pad}let s := {P}ssetDiscard s {v} {x}"]
                    if m == "remove":
                        return [f"{pad}let s ← {P}ssetRemove s {v} {x}"]
                if ty in ("lanelet", "lanelet?") and m in ("add_dynamic_obstacle_to_lanelet", "add_static_obstacle_to_lanelet"):
                    owner = v if ty == "lanelet" else f"(← {P}deref {v})"
                    names = ["obstacle_id", "time_step"] if "dynamic" in m else ["obstacle_id"]
                    args = " ".join(self.ex(a)[0] for a in self.kw(c, names))
                    return [f"{pad}let s ← Lanelet_{m} s {owner} {args}"]
                raise Unsupported(f"statement call .{m} on {ty}")
            raise Unsupported(f"statement call {d}")
        if isinstance(st, ast.Delete) and len(st.targets) == 1 and isinstance(st.targets[0], ast.Subscript):
            v, ty = self.ex(st.targets[0].value)
            k = self.ex(st.targets[0].slice)[0]
            if ty == "statics":
                return [f"{pad}let s ← {P}delStatic s {k}"]
            if ty == "dynamics":
                return [f"{pad}let s ← {P}delDynamic s {k}"]
            if ty == "emptydict":
                return [f"{pad}let s ← (Except.error CR.Err.key : Res CR.Assign.St)"]
            raise Unsupported(f"del on {ty}")
        if isinstance(st, ast.Assign) and len(st.targets) == 1:
            tg = st.targets[0]
            if isinstance(tg, ast.Attribute):
                o, ty = self.ex(tg.value)
                if ty == "obst?":
                    o, ty = f"(← {P}deref {o})", "obst"
                val = self.some(*self.ex(st.value))
                if ty == "obst" and tg.attr == "initial_shape_lanelet_ids":
                    return [f"{pad}let s := {P}setInitShape s {o} {val}"]
                if ty == "obst" and tg.attr == "initial_center_lanelet_ids":
                    return [f"{pad}let s := {P}setInitCenter s {o} {val}"]
                if ty == "pred" and tg.attr == "shape_lanelet_assignment":
                    return [f"{pad}let s ← {P}setPredShape E s {o} {val}"]
                if ty == "pred" and tg.attr == "center_lanelet_assignment":
                    return [f"{pad}let s ← {P}setPredCenter E s {o} {val}"]
                raise Unsupported(f"assignment to .{tg.attr} of {ty}")
            if isinstance(tg, ast.Subscript):
                k = self.ex(tg.slice)[0]
                # obstacle.prediction.<x>_lanelet_assignment[t] = v
                if isinstance(tg.value, ast.Attribute) and tg.value.attr in ("shape_lanelet_assignment", "center_lanelet_assignment"):
                    o, ty = self.ex(tg.value.value)
                    if ty == "pred":
                        v, tv = self.ex(st.value)
                        if tv != "set":
                            raise Unsupported(f"dict item of type {tv}")
                        fn = "predShapeSetItem" if tg.value.attr.startswith("shape") else "predCenterSetItem"
                        return [f"{pad}let s ← {P}{fn} E s {o} {k} {v}"]
                v, ty = self.ex(tg.value)
                if ty == "ddict":
                    x, tx = self.ex(st.value)
                    if tx != "set":
                        raise Unsupported(f"registry entry of type {tx}")
                    return [f"{pad}let s := {P}ddictSet s {v} {k} {x}"]
                if ty == "statics":
                    return [f"{pad}let s := {P}putStatic s {k}"]
                if ty == "dynamics":
                    return [f"{pad}let s := {P}putDynamic s {k}"]
                if ty == "dict" and isinstance(tg.value, ast.Name):
                    x, tx = self.ex(st.value)
                    if tx != "set":
                        raise Unsupported(f"dict item of type {tx}")
                    return [f"{pad}let {v} := CR.Assign.dictSet {v} {k} {x}"]
                raise Unsupported(f"item assignment on {ty}")
        return None

    def args_for(self, args, tags):
        if len(args) != len(tags):
            raise Unsupported("argument count")
        out = []
        for a, tag in zip(args, tags):
            v, ty = self.ex(a)
            if ty == "obst?" and tag == "obst":
                v, ty = f"(← {P}deref {v})", "obst"
            if ty == "set" and tag == "optset":
                v, ty = f"(some {v})", "optset"
            if ty != tag:
                raise Unsupported(f"argument of type {ty} for {tag}")
            out.append(v)
        return out

    def assigned(self, stmts, top_only=False):
        """names (re)bound by the statements, loop variables excluded; `top_only`: not looking into loop bodies"""
        out = []
        nodes = []
        todo = list(stmts)
        loopvars = set()
        while todo:
            n = todo.pop(0)
            if isinstance(n, ast.For):
                loopvars |= {e_.id for e_ in ast.walk(n.target) if isinstance(e_, ast.Name)}
                if top_only:
                    continue
            if isinstance(n, ast.FunctionDef):
                continue
            nodes.append(n)
            todo = list(ast.iter_child_nodes(n)) + todo
        for n in nodes:
            if isinstance(n, ast.Name) and n.id in loopvars:
                continue
            if isinstance(n, ast.Name) and isinstance(n.ctx, ast.Store) and n.id not in out:
                out.append(n.id)
            if isinstance(n, ast.Assign) and isinstance(n.targets[0], ast.Subscript) and isinstance(n.targets[0].value, ast.Name) \
                    and n.targets[0].value.id not in out and self.env.get(n.targets[0].value.id, ("", "dict"))[1] == "dict":
                out.append(n.targets[0].value.id)       # d[k] = v rebinds the local dict d
        return out

    def loaded(self, stmts):
        return {n.id for n in ast.walk(ast.Module(body=list(stmts), type_ignores=[])) if isinstance(n, ast.Name)}

    def returns(self, stmts):
        if not stmts:
            return False
        s = stmts[-1]
        if isinstance(s, (ast.Return, ast.Raise)):
            return True
        if isinstance(s, ast.If):
            return self.returns(s.body) and bool(s.orelse) and self.returns(s.orelse)
        return False

    def has_return(self, stmts):
        return any(isinstance(n, ast.Return) for n in ast.walk(ast.Module(body=list(stmts), type_ignores=[])))

    def tuple_of(self, names):
        names = ["s"] + [self.lname(x) for x in names]
        return names[0] if len(names) == 1 else "(" + ", ".join(names) + ")"

    def narrow_test(self, test):
        """`x is None` / `x is not None` on an optional local: (name, positive?)"""
        if isinstance(test, ast.Compare) and len(test.ops) == 1 and isinstance(test.ops[0], (ast.Is, ast.IsNot)) \
                and self.is_none(test.comparators[0]) and isinstance(test.left, ast.Name) \
                and test.left.id in self.env and self.env[test.left.id][1] in ("optset", "optdict", "optlist-int"):
            return test.left.id, isinstance(test.ops[0], ast.Is)
        return None

    def cond(self, test, ind, then_fn, else_fn):
        """`if test then <then> else <else>` with flow typing for `x is None`; the branch callbacks return text blocks"""
        pad = "  " * ind
        nt = self.narrow_test(test)
        saved = copy.copy(self.env)
        if nt:
            name, is_none = nt
            ln, ty = self.env[name]
            self.env = copy.copy(saved)
            a = then_fn() if is_none else else_fn()
            env_a = self.env
            self.env = copy.copy(saved)
            self.env[name] = (ln, NARROW[ty])
            b = else_fn() if is_none else then_fn()
            env_b = self.env
            self.env = saved
            return f"{pad}match {ln} with\n{pad}| none => do\n{a}\n{pad}| some {ln} => do\n{b}", (env_a, env_b)
        c, tc = self.ex(test)
        if tc != "bool":
            raise Unsupported(f"condition of type {tc}")
        if c in ("true", "false"):      # statically decided (declared argument class): only that branch exists
            self.env = copy.copy(saved)
            a = then_fn() if c == "true" else else_fn()
            env_a = self.env
            self.env = saved
            return f"{pad}do\n{a}", (env_a, env_a)
        self.env = copy.copy(saved)
        a = then_fn()
        env_a = self.env
        self.env = copy.copy(saved)
        b = else_fn()
        env_b = self.env
        self.env = saved
        return f"{pad}if {c} then do\n{a}\n{pad}else do\n{b}", (env_a, env_b)

    def seq(self, stmts, ind, after=()):
        """statements without `return`: list of text lines (each rebinding `s` / locals); `after` = statements that follow (liveness)"""
        pad = "  " * ind
        out = []
        stmts = list(stmts)
        for i, st in enumerate(stmts):
            later = stmts[i + 1:] + list(after)
            if isinstance(st, ast.Expr) and isinstance(st.value, ast.Constant):
                continue
            if isinstance(st, ast.Pass):
                continue
            if isinstance(st, ast.Assert):
                c, _ = self.ex(st.test)
                if c != "true":
                    out.append(f"{pad}CR.Py.assert {c}")
                continue
            if isinstance(st, ast.FunctionDef):
                self.nested_def(st)
                continue
            eff = self.effect(st, pad)
            if eff is not None:
                out.extend(eff)
                continue
            if isinstance(st, (ast.Assign, ast.AnnAssign)) and isinstance(st.targets[0] if isinstance(st, ast.Assign) else st.target, ast.Name):
                tg = st.targets[0] if isinstance(st, ast.Assign) else st.target
                v, ty = self.ex(st.value)
                if ty not in LEAN_TY:
                    raise Unsupported(f"local of type {ty}")
                ln = self.lname(tg.id)
                out.append(f"{pad}let {ln} : {LEAN_TY[ty]} := {v}")
                self.env[tg.id] = (ln, ty)
                continue
            if isinstance(st, ast.If):
                if self.has_return([st]):
                    raise Unsupported("return inside a nested block")
                live = self.loaded(later)
                mods = [x for x in self.assigned([st]) if x in self.env] + \
                       [x for x in self.assigned([st], top_only=True) if x not in self.env and x in live]
                tup = None

                def br(body):
                    def go():
                        lines = self.seq(body, ind + 2, later)
                        return "\n".join(lines + ["  " * (ind + 2) + "pure __TUP__"])
                    return go
                txt, (ea, eb) = self.cond(st.test, ind + 1, br(st.body), br(st.orelse))
                # variables first bound inside the conditional: typed from the branch that binds them
                for x in mods:
                    if x not in self.env:
                        src = ea if x in ea else eb
                        if x not in src:
                            raise Unsupported(f"local {x} without a type")
                        ln, ty = src[x]
                        out.append(f"{pad}let {ln} : {LEAN_TY[ty]} := default    -- unbound until assigned")
                        self.env[x] = (ln, ty)
                    else:
                        for e_ in (ea, eb):
                            if x in e_ and e_[x][1] != self.env[x][1]:
                                if NARROW.get(self.env[x][1]) == e_[x][1] and ea.get(x, (0, 0))[1] == eb.get(x, (0, 1))[1]:
                                    self.env[x] = e_[x]
                                else:
                                    raise Unsupported(f"local {x} changes its type")
                tup = self.tuple_of(mods)
                out.append(f"{pad}let {tup} ← (\n{txt.replace('__TUP__', tup)})")
                continue
            if isinstance(st, ast.For) and not st.orelse:
                if self.has_return(st.body):
                    raise Unsupported("return inside a loop")
                it, ty = self.ex(st.iter)
                if ty == "optset":
                    it, ty = f"(← {P}iter {it})", "set"
                saved = copy.copy(self.env)
                pre = []
                if ty in ("set", "list", "list-int") and isinstance(st.target, ast.Name):
                    var = self.lname(st.target.id)
                    self.env[st.target.id] = (var, "int")
                elif ty == "items" and isinstance(st.target, ast.Tuple) and len(st.target.elts) == 2 \
                        and all(isinstance(x, ast.Name) for x in st.target.elts):
                    var = "kv"
                    k, v = (self.lname(x.id) for x in st.target.elts)
                    pre = [f"{'  ' * (ind + 1)}let {k} : Int := kv.1", f"{'  ' * (ind + 1)}let {v} : List CR.Assign.Id := kv.2"]
                    self.env[st.target.elts[0].id] = (k, "int")
                    self.env[st.target.elts[1].id] = (v, "set")
                else:
                    raise Unsupported(f"loop over {ty}")
                tnames = {e_.id for e_ in ast.walk(st.target) if isinstance(e_, ast.Name)}
                mods = [x for x in self.assigned(st.body) if x in saved and x not in tnames]
                tup = self.tuple_of(mods)
                body = pre + self.seq(st.body, ind + 1, ())
                self.env = saved
                out.append(f"{pad}let {tup} ← ({it}).foldlM (fun {tup} {var} => do\n" + "\n".join(body + ["  " * (ind + 1) + f"pure {tup}"])
                           + f") {tup}")
                continue
            raise Unsupported(f"statement {type(st).__name__}")
        return out

    def blk(self, stmts, ind):
        """statement list in tail position: ends by returning the state"""
        pad = "  " * ind
        stmts = list(stmts)
        for i, st in enumerate(stmts):
            rest = stmts[i + 1:]
            if isinstance(st, ast.Return):
                return "\n".join(self.seq(stmts[:i], ind) + [f"{pad}return s"])
            if isinstance(st, ast.Raise):
                exc = st.exc.func.id if isinstance(st.exc, ast.Call) and isinstance(st.exc.func, ast.Name) else None
                cls = {"ValueError": "value", "KeyError": "key", "AttributeError": "attr", "TypeError": "type"}.get(exc)
                if cls is None:
                    raise Unsupported("raise")
                return "\n".join(self.seq(stmts[:i], ind) + [f"{pad}throw CR.Err.{cls}"])
            if isinstance(st, ast.If) and self.has_return([st]) or isinstance(st, ast.If) and any(isinstance(x, ast.Raise) for x in ast.walk(st)):
                head = self.seq(stmts[:i], ind)
                bret, oret = self.returns(st.body), self.returns(st.orelse)
                txt, _ = self.cond(st.test, ind, lambda: self.blk(list(st.body) + ([] if bret else rest), ind + 1),
                                   lambda: self.blk(list(st.orelse) + ([] if oret else rest), ind + 1))
                return "\n".join(head + [txt])
        return "\n".join(self.seq(stmts, ind) + [f"{pad}return s"])

    # ------------------------------------------------------------------ functions
    def binders(self, params):
        return " ".join(f"({self.lname(p)} : {LEAN_TY[ty]})" for p, ty in params)

    def nested_def(self, fn: ast.FunctionDef):
        if fn.name not in self.t.nested:
            raise Unsupported(f"nested function {fn.name}")
        sub = Tr7(self.t)
        sub.env = copy.copy(self.env)
        sub.funcs = dict(self.funcs)
        params = []
        for a in fn.args.args:
            ann = self.dotted(a.annotation) if a.annotation is not None else None
            tag = {"DynamicObstacle": "obst", "StaticObstacle": "obst"}.get(ann, "int")
            if tag == "obst":
                sub.t = copy.copy(sub.t)
                sub.t.classes = {**sub.t.classes, a.arg: ann}
            params.append((a.arg, tag))
            sub.env[a.arg] = (self.lname(a.arg), tag)
        body = sub.blk(fn.body, 1)
        lean = f"{self.t.name}.{fn.name}"
        clo = " ".join(self.lname(p) for p, _ in self.closure)
        self.aux.extend(sub.aux)
        self.aux.append(f"/-- nested function `{fn.name}` of {self.t.func} (closure variables first) -/\n"
                        f"def {lean} (E : CR.Assign.Env) {self.binders(self.closure)} (s : CR.Assign.St) {self.binders(params)} : "
                        f"Res CR.Assign.St := do\n{body}\n")
        self.funcs[fn.name] = (lean, [t for _, t in params], f"E {clo}".rstrip())

    def function(self, fn: ast.FunctionDef) -> str:
        t = self.t
        have = [a.arg for a in fn.args.args if a.arg != "self"]
        want = [p for p, _ in t.params]
        if have[:len(want)] != want or any(x not in t.ignore_params for x in have[len(want):]):
            raise Unsupported(f"parameters {have}")
        for p, ty in t.params:
            self.env[p] = (self.lname(p), ty)
        self.closure = [(p, ty) for p, ty in t.params if ty in ("bool",)]
        body = self.blk(fn.body, 1)
        selfb = "(self : CR.Assign.Id) " if t.self_ty == "lanelet" else ""
        eb = "(E : CR.Assign.Env) " if t.env_param else ""
        doc = f"/-- {t.file}: {(t.cls + '.') if t.cls else ''}{t.func}{(' — ' + t.doc) if t.doc else ''} -/\n"
        head = f"def {t.name} {eb}(s : CR.Assign.St) {selfb}{self.binders(t.params)} : Res CR.Assign.St := do\n{body}\n"
        return "".join(a + "\n" for a in self.aux) + doc + head


def targets():
    S = "commonroad/scenario/scenario.py"
    L = "commonroad/scenario/lanelet.py"
    return [
        T7("Lanelet_add_dynamic_obstacle_to_lanelet", L, "Lanelet", "add_dynamic_obstacle_to_lanelet",
           [("obstacle_id", "int"), ("time_step", "int")], self_ty="lanelet", env_param=False,
           doc="`self` is the lanelet (named by its id) whose registry in `s` is updated"),
        T7("Lanelet_add_static_obstacle_to_lanelet", L, "Lanelet", "add_static_obstacle_to_lanelet",
           [("obstacle_id", "int")], self_ty="lanelet", env_param=False),
        T7("Scenario_add_static_obstacle_to_lanelets", S, "Scenario", "_add_static_obstacle_to_lanelets",
           [("obstacle_id", "int"), ("lanelet_ids", "optset")]),
        T7("Scenario_remove_static_obstacle_from_lanelets", S, "Scenario", "_remove_static_obstacle_from_lanelets",
           [("obstacle_id", "int"), ("lanelet_ids", "optset")]),
        T7("Scenario_add_dynamic_obstacle_to_lanelets", S, "Scenario", "_add_dynamic_obstacle_to_lanelets",
           [("obstacle", "obst")], classes={"obstacle": "DynamicObstacle"}),
        T7("Scenario_remove_dynamic_obstacle_from_lanelets", S, "Scenario", "_remove_dynamic_obstacle_from_lanelets",
           [("obstacle", "obst")], classes={"obstacle": "DynamicObstacle"}),
        T7("Scenario_remove_obstacle", S, "Scenario", "remove_obstacle", [("obstacle", "obst")], classes={"obstacle": "Obstacle"},
           calls={"_remove_static_obstacle_from_lanelets": ("Scenario_remove_static_obstacle_from_lanelets", ["int", "optset"]),
                  "_remove_dynamic_obstacle_from_lanelets": ("Scenario_remove_dynamic_obstacle_from_lanelets", ["obst"])},
           doc="one obstacle object (the list form recurses over its elements); `self._environment_obstacle` / "
               "`self._phantom_obstacle` are empty in the model"),
        T7("Scenario_add_objects_static", S, "Scenario", "add_objects", [("scenario_object", "obst")],
           classes={"scenario_object": "StaticObstacle"}, ignore_params=["lanelet_ids"],
           calls={"_mark_object_id_as_used": ("markUsed", ["int"]),
                  "_add_static_obstacle_to_lanelets": ("Scenario_add_static_obstacle_to_lanelets", ["int", "optset"]),
                  "_add_dynamic_obstacle_to_lanelets": ("Scenario_add_dynamic_obstacle_to_lanelets", ["obst"])},
           doc="argument is a StaticObstacle"),
        T7("Scenario_add_objects_dynamic", S, "Scenario", "add_objects", [("scenario_object", "obst")],
           classes={"scenario_object": "DynamicObstacle"}, ignore_params=["lanelet_ids"],
           calls={"_mark_object_id_as_used": ("markUsed", ["int"]),
                  "_add_static_obstacle_to_lanelets": ("Scenario_add_static_obstacle_to_lanelets", ["int", "optset"]),
                  "_add_dynamic_obstacle_to_lanelets": ("Scenario_add_dynamic_obstacle_to_lanelets", ["obst"])},
           doc="argument is a DynamicObstacle"),
        T7("Scenario_assign_obstacles_to_lanelets", S, "Scenario", "assign_obstacles_to_lanelets",
           [("time_steps", "optlist-int"), ("obstacle_ids", "optset"), ("use_center_only", "bool")],
           nested=["assign_dynamic_obstacle_shape_at_time", "assign_static_obstacle"]),
    ]


def translate_target(repo, t: T7) -> str:
    src = open(os.path.join(repo, t.file), encoding="utf-8").read()
    fn = find_func(ast.parse(src), t.cls, t.func)
    return Tr7(t).function(fn)


HEADER = """/-
  Gen.SrcC07 — GENERATED on every run by harness/translate/src_c07.py from the current source of /repo. Do not edit.
-/
import CRModel.PyExt
import CRModel.PyExtC07
set_option linter.unusedVariables false
namespace Gen
open CR

"""


def regenerate(repo, gen_dir, update=False):
    os.makedirs(gen_dir, exist_ok=True)
    os.makedirs(LASTGOOD, exist_ok=True)
    status, chunks = {}, []
    for t in targets():
        lg = os.path.join(LASTGOOD, "C07_" + t.name + ".lean")
        try:
            txt = translate_target(repo, t)
            status[t.name] = "ok"
            if update:
                open(lg, "w").write(txt)
        except (Unsupported, SyntaxError, KeyError, IndexError, AttributeError, OSError, ValueError, TypeError) as e:
            if os.path.exists(lg):
                txt = open(lg).read()
                status[t.name] = f"lost ({type(e).__name__}: {e}); last good translation used"
            else:
                txt = f"-- {t.name}: not translatable ({e})\n"
                status[t.name] = f"lost ({type(e).__name__}: {e}); no fallback"
        chunks.append(txt)
    new = HEADER + "\n".join(chunks) + "\nend Gen\n"
    path = os.path.join(gen_dir, "SrcC07.lean")
    old = open(path).read() if os.path.exists(path) else None
    if old != new:
        with open(path, "w") as f:
            f.write(new)
    return status


if __name__ == "__main__":
    import sys
    repo = os.environ.get("VERIF_REPO", "/repo")
    st = regenerate(repo, os.path.join(os.path.dirname(os.path.dirname(HERE)), "lean", "Gen"), update="--update-lastgood" in sys.argv)
    for k, v in st.items():
        print(k, v)
