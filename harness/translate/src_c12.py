"""py -> Lean structural extraction for C12 (equality / hashing): which attributes every hand-written `__eq__` compares and
every `__hash__` hashes, and in what syntactic form.

`regenerate(repo, gen_dir)` parses the CURRENT source with `ast`, runs a small symbolic evaluation of each `__eq__` / `__hash__`
body (local assignments substituted, `if` assignments turned into conditional expressions, loops over literal lists and
generator expressions over literal tuples unrolled, `Base.__eq__(self, other)` / `Base.__hash__(self)` inlined) and classifies

  * every conjunct of the value returned by `__eq__` as one `CR.EqHash.Src.Atom` about one attribute, and
  * every leaf of the tuple passed to `hash(...)` as one `CR.EqHash.Src.HForm` over one attribute,

(the vocabulary is lean/CRModel/PyExtC12.lean; what each idiom denotes is fixed there, not here).  State and SignalState
iterate over their attributes at run time; for them the loop bodies are extracted into the parameter records `StateSrc` /
`SignalSrc`.  In addition: the default `decimals` of `rounded_array_key`, the `eq=` flag of every dataclass below `State`, and
for every class of the anchored files whether it defines `__eq__` / `__hash__`.  Output: lean/Gen/SrcC12.lean (module
`Gen.SrcC12`); the tie theorems are lean/CRProps/T12.lean.  A class the extractor cannot read any more is reported as
`lost (...)` and its last good text (harness/translate/lastgood/C12_<Class>.lean) is emitted - never an alarm by itself.
"""
from __future__ import annotations

import ast
import copy
import os

from .pysrc import Unsupported, find_func

HERE = os.path.dirname(os.path.abspath(__file__))
LASTGOOD = os.path.join(HERE, "lastgood")

# class family of the model (CR.EqHash.Cls) -> (file, python class)
FAMILIES = [
    ("Rectangle", "commonroad/geometry/shape.py", "Rectangle"),
    ("Circle", "commonroad/geometry/shape.py", "Circle"),
    ("Polygon", "commonroad/geometry/shape.py", "Polygon"),
    ("ShapeGroup", "commonroad/geometry/shape.py", "ShapeGroup"),
    ("Interval", "commonroad/common/util.py", "Interval"),
    ("Time", "commonroad/common/util.py", "Time"),
    ("MetaInformationState", "commonroad/scenario/state.py", "MetaInformationState"),
    ("Trajectory", "commonroad/scenario/trajectory.py", "Trajectory"),
    ("Occupancy", "commonroad/prediction/prediction.py", "Occupancy"),
    ("SetBasedPrediction", "commonroad/prediction/prediction.py", "SetBasedPrediction"),
    ("TrajectoryPrediction", "commonroad/prediction/prediction.py", "TrajectoryPrediction"),
    ("StaticObstacle", "commonroad/scenario/obstacle.py", "StaticObstacle"),
    ("DynamicObstacle", "commonroad/scenario/obstacle.py", "DynamicObstacle"),
    ("PhantomObstacle", "commonroad/scenario/obstacle.py", "PhantomObstacle"),
    ("EnvironmentObstacle", "commonroad/scenario/obstacle.py", "EnvironmentObstacle"),
    ("StopLine", "commonroad/common/common_lanelet.py", "StopLine"),
    ("Lanelet", "commonroad/scenario/lanelet.py", "Lanelet"),
    ("MapInformation", "commonroad/scenario/lanelet.py", "MapInformation"),
    ("LaneletNetwork", "commonroad/scenario/lanelet.py", "LaneletNetwork"),
    ("TrafficSignElement", "commonroad/scenario/traffic_sign.py", "TrafficSignElement"),
    ("TrafficSign", "commonroad/scenario/traffic_sign.py", "TrafficSign"),
    ("TrafficLightCycleElement", "commonroad/scenario/traffic_light.py", "TrafficLightCycleElement"),
    ("TrafficLightCycle", "commonroad/scenario/traffic_light.py", "TrafficLightCycle"),
    ("TrafficLight", "commonroad/scenario/traffic_light.py", "TrafficLight"),
    ("IntersectionIncomingElement", "commonroad/scenario/intersection.py", "IntersectionIncomingElement"),
    ("Intersection", "commonroad/scenario/intersection.py", "Intersection"),
    ("AreaBorder", "commonroad/scenario/area.py", "AreaBorder"),
    ("Area", "commonroad/scenario/area.py", "Area"),
    ("GoalRegion", "commonroad/planning/goal.py", "GoalRegion"),
    ("PlanningProblem", "commonroad/planning/planning_problem.py", "PlanningProblem"),
    ("PlanningProblemSet", "commonroad/planning/planning_problem.py", "PlanningProblemSet"),
    ("GeoTransformation", "commonroad/scenario/scenario.py", "GeoTransformation"),
    ("Environment", "commonroad/scenario/scenario.py", "Environment"),
    ("Location", "commonroad/scenario/scenario.py", "Location"),
    ("ScenarioID", "commonroad/scenario/scenario.py", "ScenarioID"),
    ("Scenario", "commonroad/scenario/scenario.py", "Scenario"),
]
ANCHOR_FILES = sorted({f for _, f, _ in FAMILIES})
UTIL = "commonroad/common/util.py"
STATE = "commonroad/scenario/state.py"

_trees = {}


def tree_of(repo, file):
    key = (repo, file)
    if key not in _trees:
        _trees[key] = ast.parse(open(os.path.join(repo, file), encoding="utf-8").read())
    return _trees[key]


def lstr(s):
    return '"' + s.replace("\\", "\\\\").replace('"', '\\"') + '"'


# ------------------------------------------------------------------------------------------------ symbolic evaluation
def const(v):
    return ast.Constant(value=v)


def is_const(n, v):
    return isinstance(n, ast.Constant) and n.value is v


def dotted(n):
    if isinstance(n, ast.Name):
        return n.id
    if isinstance(n, ast.Attribute):
        return dotted(n.value) + "." + n.attr
    return "?"


class Subst(ast.NodeTransformer):
    """replace local names by their symbolic values (not inside the binding scope of a comprehension variable)"""

    def __init__(self, env):
        self.env = env

    def visit_Name(self, n):
        if isinstance(n.ctx, ast.Load) and n.id in self.env:
            return copy.deepcopy(self.env[n.id])
        return n

    def _comp(self, n):
        bound = set()
        for g in n.generators:
            for x in ast.walk(g.target):
                if isinstance(x, ast.Name):
                    bound.add(x.id)
        inner = Subst({k: v for k, v in self.env.items() if k not in bound})
        for g in n.generators:
            g.iter = inner.visit(g.iter)
            g.ifs = [inner.visit(i) for i in g.ifs]
        if isinstance(n, ast.DictComp):
            n.key = inner.visit(n.key)
            n.value = inner.visit(n.value)
        else:
            n.elt = inner.visit(n.elt)
        return n

    visit_GeneratorExp = visit_ListComp = visit_SetComp = visit_DictComp = _comp


def simplify(n):
    """constant folding of and / not / conditional expressions, literal subscripts and unrolling of comprehensions over literals"""
    for f in getattr(n, "_fields", ()):
        v = getattr(n, f, None)
        if isinstance(v, ast.AST):
            setattr(n, f, simplify(v))
        elif isinstance(v, list):
            setattr(n, f, [simplify(x) if isinstance(x, ast.AST) else x for x in v])
    if isinstance(n, ast.BoolOp) and isinstance(n.op, ast.And):
        vals = []
        for v in n.values:
            if isinstance(v, ast.BoolOp) and isinstance(v.op, ast.And):
                vals.extend(v.values)
            else:
                vals.append(v)
        if any(is_const(v, False) for v in vals):
            return const(False)
        vals = [v for v in vals if not is_const(v, True)]
        if not vals:
            return const(True)
        return vals[0] if len(vals) == 1 else ast.BoolOp(op=ast.And(), values=vals)
    if isinstance(n, ast.UnaryOp) and isinstance(n.op, ast.Not):
        o = n.operand
        if isinstance(o, ast.Constant) and isinstance(o.value, bool):
            return const(not o.value)
        if isinstance(o, ast.UnaryOp) and isinstance(o.op, ast.Not):
            return o.operand
        if isinstance(o, ast.Compare) and len(o.ops) == 1:
            flip = {ast.Eq: ast.NotEq, ast.NotEq: ast.Eq, ast.Is: ast.IsNot, ast.IsNot: ast.Is, ast.In: ast.NotIn, ast.NotIn: ast.In}
            if type(o.ops[0]) in flip:
                return ast.Compare(left=o.left, ops=[flip[type(o.ops[0])]()], comparators=o.comparators)
    if isinstance(n, ast.IfExp):
        if is_const(n.test, True):
            return n.body
        if is_const(n.test, False):
            return n.orelse
        # `flag = False` under a condition:  (False if c else old)  ==  (not c) and old
        if is_const(n.body, False):
            return simplify(ast.BoolOp(op=ast.And(), values=[ast.UnaryOp(op=ast.Not(), operand=n.test), n.orelse]))
    if isinstance(n, ast.Subscript) and isinstance(n.value, (ast.List, ast.Tuple)) and isinstance(n.slice, ast.Constant) \
            and isinstance(n.slice.value, int) and 0 <= n.slice.value < len(n.value.elts):
        return n.value.elts[n.slice.value]
    if isinstance(n, (ast.ListComp, ast.GeneratorExp)) and len(n.generators) == 1 and not n.generators[0].ifs \
            and isinstance(n.generators[0].iter, (ast.List, ast.Tuple)) and isinstance(n.generators[0].target, ast.Name):
        g = n.generators[0]
        elts = [simplify(Subst({g.target.id: e}).visit(copy.deepcopy(n.elt))) for e in g.iter.elts]
        return ast.List(elts=elts, ctx=ast.Load())
    if isinstance(n, ast.Call) and isinstance(n.func, ast.Name) and n.func.id in ("tuple", "list") and len(n.args) == 1 \
            and isinstance(n.args[0], (ast.List, ast.Tuple)) and not n.keywords:
        return ast.Tuple(elts=n.args[0].elts, ctx=ast.Load()) if n.func.id == "tuple" else ast.List(elts=n.args[0].elts, ctx=ast.Load())
    if isinstance(n, ast.Call) and isinstance(n.func, ast.Name) and n.func.id == "len" and len(n.args) == 1 \
            and isinstance(n.args[0], (ast.List, ast.Tuple)):
        return const(len(n.args[0].elts))
    return n


def mk_call(name, *args):
    return ast.Call(func=ast.Name(id=name, ctx=ast.Load()), args=list(args), keywords=[])


class Exec:
    """runs the statements of a method symbolically; result: (conditions under which False was returned early, returned value)"""

    def __init__(self):
        self.env = {}
        self.early = []         # negated conditions of `if c: return False`
        self.guard = None
        self.result = None

    def val(self, e):
        return simplify(Subst(self.env).visit(copy.deepcopy(e)))

    def run(self, stmts):
        for s in stmts:
            if self.result is not None:
                raise Unsupported("statement after return")
            self.stmt(s)

    def stmt(self, s):
        if isinstance(s, ast.Expr) and isinstance(s.value, ast.Constant):
            return
        if isinstance(s, ast.Expr) and isinstance(s.value, ast.Call) and dotted(s.value.func) == "warnings.warn":
            return
        if isinstance(s, ast.Expr) and isinstance(s.value, ast.Call) and isinstance(s.value.func, ast.Attribute) \
                and s.value.func.attr == "append" and isinstance(s.value.func.value, ast.Name) and len(s.value.args) == 1:
            name = s.value.func.value.id
            cur = self.env.get(name)
            if not isinstance(cur, ast.List):
                raise Unsupported(f"append to {name}")
            self.env[name] = ast.List(elts=list(cur.elts) + [self.val(s.value.args[0])], ctx=ast.Load())
            return
        if isinstance(s, ast.Return):
            if s.value is None:
                raise Unsupported("bare return")
            self.result = self.val(s.value)
            return
        if isinstance(s, ast.Assign) and len(s.targets) == 1 and isinstance(s.targets[0], ast.Name):
            v = s.value
            if isinstance(v, ast.Call) and dotted(v.func) == "list" and not v.args:
                v = ast.List(elts=[], ctx=ast.Load())
            self.env[s.targets[0].id] = self.val(v)
            return
        if isinstance(s, ast.If):
            return self.if_(s)
        if isinstance(s, ast.For):
            return self.for_(s)
        raise Unsupported(f"statement {type(s).__name__}")

    def if_(self, s):
        test = self.val(s.test)
        body = [x for x in s.body if not (isinstance(x, ast.Expr) and isinstance(x.value, ast.Call)
                                          and dotted(x.value.func) == "warnings.warn")]
        # `if c: return False`
        if len(body) == 1 and isinstance(body[0], ast.Return) and is_const(body[0].value, False) and not s.orelse:
            neg = simplify(ast.UnaryOp(op=ast.Not(), operand=test))
            if isinstance(neg, ast.Call) and dotted(neg.func) == "isinstance" and self.guard is None and not self.early:
                self.guard = neg
            else:
                self.early.append(neg)
            return
        # assignments on both branches -> conditional expressions
        def assigns(stmts):
            out = {}
            for x in stmts:
                if isinstance(x, ast.Assign) and len(x.targets) == 1 and isinstance(x.targets[0], ast.Name):
                    out[x.targets[0].id] = x.value
                elif isinstance(x, ast.Pass):
                    pass
                else:
                    raise Unsupported(f"{type(x).__name__} inside if")
            return out
        a, b = assigns(body), assigns(s.orelse)
        new = {}
        for name in list(a) + [k for k in b if k not in a]:
            old = self.env.get(name)
            va = self.val(a[name]) if name in a else old
            vb = self.val(b[name]) if name in b else old
            if va is None or vb is None:
                raise Unsupported(f"{name} assigned on one branch only")
            new[name] = simplify(ast.IfExp(test=copy.deepcopy(test), body=va, orelse=vb))
        self.env.update(new)

    def for_(self, s):
        if s.orelse:
            raise Unsupported("for-else")
        it = self.val(s.iter)
        # for i in range(n) / range(0, n)
        if isinstance(it, ast.Call) and dotted(it.func) == "range" and it.args and all(isinstance(a, ast.Constant) for a in it.args):
            vals = [const(i) for i in range(*[a.value for a in it.args])]
        elif isinstance(it, (ast.List, ast.Tuple)):
            vals = list(it.elts)
        elif isinstance(s.target, ast.Name) and self.dict_loop(s, it):
            return
        else:
            raise Unsupported("loop over " + ast.unparse(it)[:40])
        if not isinstance(s.target, ast.Name):
            raise Unsupported("loop target")
        for v in vals:
            self.env[s.target.id] = v
            self.run(s.body)
        self.env.pop(s.target.id, None)

    def dict_loop(self, s, it):
        """for k in A.keys():  if k not in B: f1 = False; continue   /   if A.get(k) != B.get(k): f2 = False"""
        if isinstance(it, ast.Call) and isinstance(it.func, ast.Attribute) and it.func.attr == "keys" and not it.args:
            a = it.func.value
        else:
            a = it
        k = s.target.id
        pending = []
        for x in s.body:
            if not (isinstance(x, ast.If) and not x.orelse):
                return False
            flags = [y for y in x.body if isinstance(y, ast.Assign) and len(y.targets) == 1 and isinstance(y.targets[0], ast.Name)
                     and is_const(y.value, False)]
            rest = [y for y in x.body if y not in flags and not isinstance(y, ast.Continue)]
            if rest or not flags:
                return False
            t = x.test
            if isinstance(t, ast.Compare) and len(t.ops) == 1 and isinstance(t.ops[0], ast.NotIn) and isinstance(t.left, ast.Name) \
                    and t.left.id == k:
                b = self.val(t.comparators[0])
                pending.append((flags, mk_call("__keysin__", copy.deepcopy(a), b)))
            elif isinstance(t, ast.Compare) and len(t.ops) == 1 and isinstance(t.ops[0], ast.NotEq):
                def at(e):
                    if isinstance(e, ast.Call) and isinstance(e.func, ast.Attribute) and e.func.attr == "get" and len(e.args) == 1 \
                            and isinstance(e.args[0], ast.Name) and e.args[0].id == k:
                        return self.val(e.func.value)
                    if isinstance(e, ast.Subscript) and isinstance(e.slice, ast.Name) and e.slice.id == k:
                        return self.val(e.value)
                    return None
                l, r = at(t.left), at(t.comparators[0])
                if l is None or r is None:
                    return False
                pending.append((flags, mk_call("__valseq__", l, r)))
            else:
                return False
        for flags, atom in pending:
            for y in flags:
                name = y.targets[0].id
                old = self.env.get(name)
                if old is None:
                    raise Unsupported(f"flag {name} not initialised")
                self.env[name] = simplify(ast.BoolOp(op=ast.And(), values=[old, atom]))
        return True


def method_body(repo, file, cls, func):
    return find_func(tree_of(repo, file), cls, func).body


# ------------------------------------------------------------------------------------------------ classification: __eq__
def attr_of(n):
    """`self._a` / `other.a` -> (owner, a)"""
    if isinstance(n, ast.Attribute) and isinstance(n.value, ast.Name) and n.value.id in ("self", "other"):
        return n.value.id, n.attr.lstrip("_")
    return None


def none_test(t):
    """`X is None` -> (X, True); `X is not None` -> (X, False)"""
    if isinstance(t, ast.Compare) and len(t.ops) == 1 and is_const(t.comparators[0], None):
        if isinstance(t.ops[0], ast.Is):
            return t.left, True
        if isinstance(t.ops[0], ast.IsNot):
            return t.left, False
    return None


def is_empty_call(n, name):
    return isinstance(n, ast.Call) and dotted(n.func) == name and not n.args and not n.keywords


def side(n, dec):
    """one side of a comparison -> (owner, attr, Wrap as Lean text)"""
    a = attr_of(n)
    if a:
        return a[0], a[1], ".id"
    if isinstance(n, ast.Call) and not n.keywords and len(n.args) == 1 and attr_of(n.args[0]):
        o, at = attr_of(n.args[0])
        f = dotted(n.func)
        if f in ("set", "list", "str"):
            return o, at, "." + f
        if f == "rounded_array_key":
            return o, at, f"(.rkey {dec})"
    if isinstance(n, ast.Call) and isinstance(n.func, ast.Attribute) and n.func.attr == "items" and not n.args and attr_of(n.func.value):
        o, at = attr_of(n.func.value)
        return o, at, ".items"
    if isinstance(n, ast.IfExp) and none_test(n.test):
        x, isnone = none_test(n.test)
        dflt, other = (n.body, n.orelse) if isnone else (n.orelse, n.body)
        if attr_of(x):
            o, at = attr_of(x)
            s2 = side(other, dec)
            if s2 and (s2[0], s2[1]) == (o, at):
                if is_empty_call(dflt, "set") and s2[2] == ".set":
                    return o, at, ".noneEmptySet"
                if is_const(dflt, None) and s2[2] == ".items":
                    return o, at, ".noneItems"
    if isinstance(n, ast.DictComp) and len(n.generators) == 1 and not n.generators[0].ifs \
            and isinstance(n.generators[0].target, ast.Name) and attr_of(n.generators[0].iter):
        v = n.generators[0].target.id
        if isinstance(n.value, ast.Name) and n.value.id == v and isinstance(n.key, ast.Attribute) \
                and isinstance(n.key.value, ast.Name) and n.key.value.id == v:
            o, at = attr_of(n.generators[0].iter)
            return o, at, f"(.keyedBy {lstr(n.key.attr.lstrip('_'))})"
    return None


def pair_atom(kind, l, r, dec):
    sl, sr = side(l, dec), side(r, dec)
    if not sl or not sr:
        raise Unsupported("comparison of " + ast.unparse(l)[:40] + " with " + ast.unparse(r)[:40])
    if sl[0] == "other" and sr[0] == "self":
        sl, sr = sr, sl
    attr = sl[1]
    if sl[0] == sr[0]:
        return attr, ".selfCmp"
    if sl[1] != sr[1]:
        return attr, f"(.crossed {lstr(sr[1])})"
    if sl[2] != sr[2]:
        return attr, ".asym"
    return attr, f"(.{kind} {sl[2]})"


def conj_atoms(repo, file, c, dec, depth=0):
    """conjunct expression -> [(attr, atom text)]"""
    if isinstance(c, ast.Compare) and len(c.ops) == 1 and isinstance(c.ops[0], ast.Eq):
        l, r = c.left, c.comparators[0]
        if all(isinstance(x, ast.Call) and dotted(x.func) == "len" and len(x.args) == 1 for x in (l, r)):
            return [pair_atom("lenEq", l.args[0], r.args[0], dec)]
        return [pair_atom("eq", l, r, dec)]
    if isinstance(c, ast.Call) and dotted(c.func) == "__keysin__":
        return [pair_atom("keysIn", c.args[0], c.args[1], dec)]
    if isinstance(c, ast.Call) and dotted(c.func) == "__valseq__":
        return [pair_atom("valsEq", c.args[0], c.args[1], dec)]
    if isinstance(c, ast.Call) and isinstance(c.func, ast.Attribute) and c.func.attr == "__eq__" and isinstance(c.func.value, ast.Name) \
            and [dotted(a) for a in c.args] == ["self", "other"] and depth < 3:
        _, eqs = extract_eq(repo, file, c.func.value.id, dec, depth + 1)
        return eqs
    raise Unsupported("conjunct " + ast.unparse(c)[:60])


def extract_eq(repo, file, cls, dec, depth=0):
    ex = Exec()
    ex.run(method_body(repo, file, cls, "__eq__"))
    if ex.result is None:
        raise Unsupported("no return value")
    guard = ""
    if ex.guard is not None and len(ex.guard.args) == 2 and dotted(ex.guard.args[0]) == "other":
        guard = dotted(ex.guard.args[1])
    whole = simplify(ast.BoolOp(op=ast.And(), values=ex.early + [ex.result]))
    conj = whole.values if isinstance(whole, ast.BoolOp) else [whole]
    out = []
    for c in conj:
        if is_const(c, True):
            continue
        out.extend(conj_atoms(repo, file, c, dec, depth))
    return guard, out


# ------------------------------------------------------------------------------------------------ classification: __hash__
def self_attr(n):
    a = attr_of(n)
    return a[1] if a and a[0] == "self" else None


def elem_form(e, var, dec):
    """expression over the loop variable of a generator -> HForm text"""
    if isinstance(e, ast.Name) and e.id == var:
        return ".it"
    if isinstance(e, ast.Call) and not e.keywords and len(e.args) == 1 and dotted(e.func) in ("tuple", "frozenset"):
        return f"(.{dotted(e.func)} {elem_form(e.args[0], var, dec)})"
    if isinstance(e, ast.Call) and dotted(e.func) == "rounded_array_key" and len(e.args) == 1 and not e.keywords:
        return f"(.rkey {dec})" if elem_form(e.args[0], var, dec) == ".it" else _bad(e)
    if isinstance(e, ast.Call) and dotted(e.func) == "str" and len(e.args) == 1:
        return ".str" if elem_form(e.args[0], var, dec) == ".it" else _bad(e)
    return _bad(e)


def _bad(e):
    raise Unsupported("hashed expression " + ast.unparse(e)[:60])


def hform(e, dec):
    """component of the hashed tuple -> (attr, HForm text)"""
    a = self_attr(e)
    if a:
        return a, ".it"
    if isinstance(e, ast.IfExp):
        nt = none_test(e.test)
        if nt and self_attr(nt[0]):
            at = self_attr(nt[0])
            dflt, other = (e.body, e.orelse) if nt[1] else (e.orelse, e.body)
            a2, f = hform(other, dec)
            if a2 != at:
                _bad(e)
            if is_const(dflt, None):
                return at, f"(.optNone {f})"
            if is_empty_call(dflt, "frozenset"):
                return at, f"(.optEmpty {f})"
            _bad(e)
        t = e.test
        if isinstance(t, ast.Call) and dotted(t.func) == "isinstance" and len(t.args) == 2 and dotted(t.args[1]) == "list" \
                and self_attr(t.args[0]) and self_attr(e.orelse) == self_attr(t.args[0]):
            a2, f = hform(e.body, dec)
            if a2 == self_attr(t.args[0]):
                return a2, f"(.ifList {f})"
        _bad(e)
    if isinstance(e, ast.Call) and not e.keywords and len(e.args) == 1:
        f, x = dotted(e.func), e.args[0]
        if f == "rounded_array_key" and self_attr(x):
            return self_attr(x), f"(.rkey {dec})"
        if f == "str" and self_attr(x):
            return self_attr(x), ".str"
        if f in ("tuple", "frozenset"):
            if self_attr(x):
                return self_attr(x), f"(.{f} .it)"
            # frozenset(a if a is not None else set())
            if f == "frozenset" and isinstance(x, ast.IfExp) and none_test(x.test) and self_attr(none_test(x.test)[0]):
                at = self_attr(none_test(x.test)[0])
                dflt, other = (x.body, x.orelse) if none_test(x.test)[1] else (x.orelse, x.body)
                if self_attr(other) == at and (is_empty_call(dflt, "set") or is_empty_call(dflt, "frozenset")):
                    return at, "(.optEmpty (.frozenset .it))"
            # frozenset(a.items())
            if f == "frozenset" and isinstance(x, ast.Call) and isinstance(x.func, ast.Attribute) and x.func.attr == "items" \
                    and not x.args and self_attr(x.func.value):
                return self_attr(x.func.value), "(.frozensetItems .it)"
            if isinstance(x, (ast.GeneratorExp, ast.ListComp)) and len(x.generators) == 1 and not x.generators[0].ifs:
                g = x.generators[0]
                if isinstance(g.target, ast.Name) and self_attr(g.iter):
                    return self_attr(g.iter), f"(.{f} {elem_form(x.elt, g.target.id, dec)})"
                # frozenset((k, F(v)) for k, v in a.items())
                if f == "frozenset" and isinstance(g.target, ast.Tuple) and len(g.target.elts) == 2 \
                        and all(isinstance(t, ast.Name) for t in g.target.elts) and isinstance(g.iter, ast.Call) \
                        and isinstance(g.iter.func, ast.Attribute) and g.iter.func.attr == "items" and self_attr(g.iter.func.value) \
                        and isinstance(x.elt, ast.Tuple) and len(x.elt.elts) == 2 and isinstance(x.elt.elts[0], ast.Name) \
                        and x.elt.elts[0].id == g.target.elts[0].id:
                    return self_attr(g.iter.func.value), f"(.frozensetItems {elem_form(x.elt.elts[1], g.target.elts[1].id, dec)})"
    _bad(e)


def hash_leaves(repo, file, e, dec, depth=0):
    if isinstance(e, (ast.Tuple, ast.List)):
        out = []
        for x in e.elts:
            out.extend(hash_leaves(repo, file, x, dec, depth))
        return out
    if isinstance(e, ast.Call) and dotted(e.func) == "hash" and len(e.args) == 1:
        return hash_leaves(repo, file, e.args[0], dec, depth)
    if isinstance(e, ast.Call) and isinstance(e.func, ast.Attribute) and e.func.attr == "__hash__" and isinstance(e.func.value, ast.Name) \
            and [dotted(a) for a in e.args] == ["self"] and depth < 3:
        return extract_hash(repo, file, e.func.value.id, dec, depth + 1)
    return [hform(e, dec)]


def extract_hash(repo, file, cls, dec, depth=0):
    ex = Exec()
    ex.run(method_body(repo, file, cls, "__hash__"))
    if ex.result is None or ex.early or ex.guard is not None:
        raise Unsupported("shape of __hash__")
    r = ex.result
    if isinstance(r, ast.Call) and isinstance(r.func, ast.Attribute) and r.func.attr == "__hash__":
        return hash_leaves(repo, file, r, dec, depth)
    if not (isinstance(r, ast.Call) and dotted(r.func) == "hash" and len(r.args) == 1):
        raise Unsupported("__hash__ does not return hash(...)")
    return hash_leaves(repo, file, r.args[0], dec, depth)


# ------------------------------------------------------------------------------------------------ whole classes
def decimals_default(repo):
    fn = find_func(tree_of(repo, UTIL), None, "rounded_array_key")
    names = [a.arg for a in fn.args.args]
    if names[:2] != ["array", "decimals"] or len(fn.args.defaults) != 1 or not isinstance(fn.args.defaults[0], ast.Constant):
        raise Unsupported("signature of rounded_array_key")
    d = fn.args.defaults[0].value
    # the body must round with that parameter:  np.around(<...array...>, decimals)
    ok = False
    for n in ast.walk(fn):
        if isinstance(n, ast.Call) and dotted(n.func) in ("np.around", "np.round", "numpy.around") and len(n.args) == 2 \
                and isinstance(n.args[1], ast.Name) and n.args[1].id == "decimals":
            ok = True
    if not ok or not isinstance(d, int) or d < 0:
        raise Unsupported("rounded_array_key does not round with `decimals`")
    return d


def class_text(repo, fam, file, cls, dec):
    guard, eqs = extract_eq(repo, file, cls, dec)
    hashes = extract_hash(repo, file, cls, dec)
    grouped = {}
    for a, atom in eqs:
        grouped.setdefault(a, []).append(atom)
    el = ",\n      ".join(f"⟨{lstr(a)}, [{', '.join(v)}]⟩" for a, v in grouped.items())
    hl = ",\n      ".join(f"⟨{lstr(a)}, {f}⟩" for a, f in hashes)
    return (f"/-- {file}: {cls}.__eq__ / {cls}.__hash__ -/\n"
            f"def src_{fam} : ClassSrc :=\n  {{ guard := {lstr(guard)},\n    eqs := [\n      {el}],\n    hashes := [\n      {hl}] }}\n")


# ---- State: the loops over the attribute names ---------------------------------------------------------------------
def _find_loop(body):
    loops = [s for s in body if isinstance(s, ast.For)]
    if len(loops) != 1:
        raise Unsupported("expected one loop")
    return loops[0]


def _int_local(body, name):
    for s in body:
        if isinstance(s, ast.Assign) and len(s.targets) == 1 and isinstance(s.targets[0], ast.Name) and s.targets[0].id == name \
                and isinstance(s.value, ast.Constant) and isinstance(s.value.value, int):
            return s.value.value
    raise Unsupported(f"local constant {name}")


def _round_dec(e, body):
    """second argument of np.around(..., d) / round(..., d) as a number"""
    d = e.args[1] if len(e.args) == 2 else None
    if isinstance(d, ast.Constant) and isinstance(d.value, int):
        return d.value
    if isinstance(d, ast.Name):
        return _int_local(body, d.id)
    raise Unsupported("decimals of " + ast.unparse(e)[:40])


def _around_tuple(e, owner, body):
    """tuple(np.around(<owner>.position.astype(float), d)) -> d"""
    if isinstance(e, ast.Call) and dotted(e.func) == "tuple" and len(e.args) == 1:
        r = e.args[0]
        if isinstance(r, ast.Call) and dotted(r.func) in ("np.around", "np.round") and len(r.args) == 2:
            x = r.args[0]
            if isinstance(x, ast.Call) and isinstance(x.func, ast.Attribute) and x.func.attr == "astype" \
                    and dotted(x.func.value) in (f"{owner}.position",) and [dotted(a) for a in x.args] == ["float"]:
                return _round_dec(r, body)
    raise Unsupported("position key " + ast.unparse(e)[:60])


def _is_inst(e, var, typ):
    return isinstance(e, ast.Call) and dotted(e.func) == "isinstance" and len(e.args) == 2 and dotted(e.args[0]) == var \
        and dotted(e.args[1]) == typ


def state_text(repo):
    body = [s for s in method_body(repo, STATE, "State", "__eq__") if not (isinstance(s, ast.Expr) and isinstance(s.value, ast.Constant))]
    # guard, attribute-name sets, loop, return True
    f = {"guard": "", "namesAsSets": False, "loopOver": "", "posBoth": False, "posMixedFalse": False, "posDecSelf": 99, "posDecOther": 99,
         "floatDecSelf": 99, "floatDecOther": 99, "neReturnsFalse": False, "endsTrue": False}
    loop = _find_loop(body)
    pre, post = body[:body.index(loop)], body[body.index(loop) + 1:]
    for s in pre:
        if isinstance(s, ast.If) and len(s.body) >= 1 and isinstance(s.body[-1], ast.Return) and is_const(s.body[-1].value, False):
            t = s.test
            if isinstance(t, ast.UnaryOp) and isinstance(t.op, ast.Not) and isinstance(t.operand, ast.Call) \
                    and dotted(t.operand.func) == "isinstance" and dotted(t.operand.args[0]) == "other":
                f["guard"] = dotted(t.operand.args[1])
            elif isinstance(t, ast.Compare) and len(t.ops) == 1 and isinstance(t.ops[0], ast.NotEq) \
                    and sorted(ast.unparse(x) for x in (t.left, t.comparators[0])) == ["set(other.attributes)", "set(self.attributes)"]:
                f["namesAsSets"] = True
            else:
                raise Unsupported("State.__eq__ precondition " + ast.unparse(t)[:50])
        elif isinstance(s, ast.Assign):
            pass
        else:
            raise Unsupported("State.__eq__ prologue")
    f["endsTrue"] = len(post) == 1 and isinstance(post[0], ast.Return) and is_const(post[0].value, True)
    f["loopOver"] = ast.unparse(loop.iter)
    var = loop.target.id
    vs = vo = None
    for s in loop.body:
        if isinstance(s, ast.Assign) and isinstance(s.value, ast.Call) and dotted(s.value.func) == "getattr" \
                and len(s.value.args) == 2 and dotted(s.value.args[1]) == var:
            if dotted(s.value.args[0]) == "self":
                vs = s.targets[0].id
            elif dotted(s.value.args[0]) == "other":
                vo = s.targets[0].id
            else:
                raise Unsupported("getattr owner")
        elif isinstance(s, ast.If):
            t = s.test
            u = ast.unparse(t)
            if vs is None or vo is None:
                raise Unsupported("values read after use")
            if u == f"{var} == 'position' and (isinstance({vs}, np.ndarray) or isinstance({vo}, np.ndarray))":
                inner = s.body
                if len(inner) == 1 and isinstance(inner[0], ast.If) \
                        and ast.unparse(inner[0].test) == f"isinstance({vs}, np.ndarray) and isinstance({vo}, np.ndarray)":
                    for a in inner[0].body:
                        if isinstance(a, ast.Assign) and dotted(a.targets[0]) == vs:
                            f["posDecSelf"] = _around_tuple(a.value, "self", body)
                        elif isinstance(a, ast.Assign) and dotted(a.targets[0]) == vo:
                            f["posDecOther"] = _around_tuple(a.value, "other", body)
                        else:
                            raise Unsupported("position branch")
                    f["posBoth"] = True
                    oe = inner[0].orelse
                    f["posMixedFalse"] = len(oe) == 1 and isinstance(oe[0], ast.Return) and is_const(oe[0].value, False)
                else:
                    raise Unsupported("position branch shape")
            elif _is_inst(t, vs, "float") or _is_inst(t, vo, "float"):
                v = vs if _is_inst(t, vs, "float") else vo
                a = s.body[0] if len(s.body) == 1 and not s.orelse else None
                if not (isinstance(a, ast.Assign) and dotted(a.targets[0]) == v and isinstance(a.value, ast.Call)
                        and dotted(a.value.func) == "round" and dotted(a.value.args[0]) == v):
                    raise Unsupported("float rounding")
                f["floatDecSelf" if v == vs else "floatDecOther"] = _round_dec(a.value, body)
            elif u == f"{vs} != {vo}" or u == f"{vo} != {vs}":
                f["neReturnsFalse"] = len(s.body) == 1 and isinstance(s.body[0], ast.Return) and is_const(s.body[0].value, False) \
                    and not s.orelse
            else:
                raise Unsupported("State.__eq__ loop test " + u[:60])
        else:
            raise Unsupported("State.__eq__ loop statement")
    # __hash__
    hb = [s for s in method_body(repo, STATE, "State", "__hash__") if not (isinstance(s, ast.Expr) and isinstance(s.value, ast.Constant))]
    h = {"loopOver": "", "posDec": 99, "floatDec": 99, "appends": False, "returnsTuple": False}
    loop = _find_loop(hb)
    post = hb[hb.index(loop) + 1:]
    acc = None
    for s in hb[:hb.index(loop)]:
        if isinstance(s, ast.Assign) and (is_empty_call(s.value, "list") or (isinstance(s.value, ast.List) and not s.value.elts)):
            acc = s.targets[0].id
        elif not isinstance(s, ast.Assign):
            raise Unsupported("State.__hash__ prologue")
    h["loopOver"] = ast.unparse(loop.iter)
    var = loop.target.id
    v = None
    for s in loop.body:
        if isinstance(s, ast.Assign) and isinstance(s.value, ast.Call) and dotted(s.value.func) == "getattr" \
                and [dotted(a) for a in s.value.args] == ["self", var]:
            v = s.targets[0].id
        elif isinstance(s, ast.If) and v and ast.unparse(s.test) == f"{var} == 'position' and isinstance(self.position, np.ndarray)":
            a = s.body[0] if len(s.body) == 1 and not s.orelse else None
            if not (isinstance(a, ast.Assign) and dotted(a.targets[0]) == v):
                raise Unsupported("State.__hash__ position")
            h["posDec"] = _around_tuple(a.value, "self", hb)
        elif isinstance(s, ast.If) and v and _is_inst(s.test, v, "float"):
            a = s.body[0] if len(s.body) == 1 and not s.orelse else None
            if not (isinstance(a, ast.Assign) and dotted(a.targets[0]) == v and isinstance(a.value, ast.Call)
                    and dotted(a.value.func) == "round" and dotted(a.value.args[0]) == v):
                raise Unsupported("State.__hash__ float rounding")
            h["floatDec"] = _round_dec(a.value, hb)
        elif isinstance(s, ast.Expr) and v and acc and ast.unparse(s.value) == f"{acc}.append({v})":
            h["appends"] = True
        else:
            raise Unsupported("State.__hash__ loop statement")
    h["returnsTuple"] = len(post) == 1 and isinstance(post[0], ast.Return) and acc is not None \
        and ast.unparse(post[0].value) == f"hash(tuple({acc}))"

    def b(x):
        return "true" if x else "false"
    return ("/-- commonroad/scenario/state.py: State.__eq__ / State.__hash__ (loops over the attribute names) -/\n"
            "def src_State : StateSrc :=\n"
            f"  {{ guard := {lstr(f['guard'])}, namesAsSets := {b(f['namesAsSets'])}, eqLoopOver := {lstr(f['loopOver'])},\n"
            f"    posBothArrays := {b(f['posBoth'])}, posMixedFalse := {b(f['posMixedFalse'])}, posDecSelf := {f['posDecSelf']}, "
            f"posDecOther := {f['posDecOther']},\n"
            f"    floatDecSelf := {f['floatDecSelf']}, floatDecOther := {f['floatDecOther']}, neReturnsFalse := {b(f['neReturnsFalse'])}, "
            f"endsTrue := {b(f['endsTrue'])},\n"
            f"    hashLoopOver := {lstr(h['loopOver'])}, hashPosDec := {h['posDec']}, hashFloatDec := {h['floatDec']}, "
            f"hashAppends := {b(h['appends'])}, hashReturnsTuple := {b(h['returnsTuple'])} }}\n")


def signal_text(repo):
    tree = tree_of(repo, STATE)
    slots = None
    for n in tree.body:
        if isinstance(n, ast.ClassDef) and n.name == "SignalState":
            for s in n.body:
                if isinstance(s, ast.Assign) and dotted(s.targets[0]) == "__slots__" and isinstance(s.value, (ast.List, ast.Tuple)):
                    slots = [e.value for e in s.value.elts]
    if slots is None:
        raise Unsupported("SignalState.__slots__")
    body = [s for s in method_body(repo, STATE, "SignalState", "__eq__") if not (isinstance(s, ast.Expr) and isinstance(s.value, ast.Constant))]
    f = {"guard": "", "loopOver": "", "presence": False, "values": False, "endsTrue": False}
    loop = _find_loop(body)
    for s in body[:body.index(loop)]:
        t = s.test if isinstance(s, ast.If) else None
        if isinstance(t, ast.UnaryOp) and isinstance(t.operand, ast.Call) and dotted(t.operand.func) == "isinstance" \
                and dotted(t.operand.args[0]) == "other" and isinstance(s.body[-1], ast.Return) and is_const(s.body[-1].value, False):
            f["guard"] = dotted(t.operand.args[1])
        else:
            raise Unsupported("SignalState.__eq__ prologue")
    post = body[body.index(loop) + 1:]
    f["endsTrue"] = len(post) == 1 and isinstance(post[0], ast.Return) and is_const(post[0].value, True)
    f["loopOver"] = ast.unparse(loop.iter)
    var = loop.target.id
    # symbolic run of the loop body: hasattr / getattr become symbols
    ex = Exec()
    ret = None
    for s in loop.body:
        if isinstance(s, ast.If) and len(s.body) == 1 and isinstance(s.body[0], ast.Return) and is_const(s.body[0].value, False) \
                and not s.orelse:
            ret = ex.val(s.test)
        else:
            ex.stmt(s)
    if ret is None:
        raise Unsupported("SignalState.__eq__ loop has no `return False`")
    parts = sorted(ast.unparse(p) for p in (ret.values if isinstance(ret, ast.BoolOp) and isinstance(ret.op, ast.Or) else [ret]))
    vs = f"(getattr(self, {var}) if hasattr(self, {var}) else None)"
    vo = f"(getattr(other, {var}) if hasattr(other, {var}) else None)"
    pres = {f"hasattr(self, {var}) != hasattr(other, {var})", f"hasattr(other, {var}) != hasattr(self, {var})"}
    vals = {f"{vs} != {vo}", f"{vo} != {vs}"}
    f["presence"] = any(p in pres for p in parts)
    f["values"] = any(p in vals for p in parts)
    if len(parts) != int(f["presence"]) + int(f["values"]):
        raise Unsupported("SignalState.__eq__ loop test " + " | ".join(parts)[:80])
    hb = [s for s in method_body(repo, STATE, "SignalState", "__hash__") if not (isinstance(s, ast.Expr) and isinstance(s.value, ast.Constant))]
    h = {"loopOver": "", "onlyAssigned": False, "frozenset": False}
    loop = _find_loop(hb)
    acc = None
    for s in hb[:hb.index(loop)]:
        if isinstance(s, ast.Assign) and is_empty_call(s.value, "set"):
            acc = s.targets[0].id
        else:
            raise Unsupported("SignalState.__hash__ prologue")
    h["loopOver"] = ast.unparse(loop.iter)
    var = loop.target.id
    if len(loop.body) == 1 and isinstance(loop.body[0], ast.If) and not loop.body[0].orelse \
            and ast.unparse(loop.body[0].test) == f"hasattr(self, {var})" and len(loop.body[0].body) == 1 \
            and ast.unparse(loop.body[0].body[0]) == f"{acc}.add(getattr(self, {var}))":
        h["onlyAssigned"] = True
    else:
        raise Unsupported("SignalState.__hash__ loop body")
    post = hb[hb.index(loop) + 1:]
    h["frozenset"] = len(post) == 1 and isinstance(post[0], ast.Return) and ast.unparse(post[0].value) == f"hash(frozenset({acc}))"

    def b(x):
        return "true" if x else "false"
    return ("/-- commonroad/scenario/state.py: SignalState.__slots__ / __eq__ / __hash__ -/\n"
            "def src_SignalState : SignalSrc :=\n"
            f"  {{ slots := [{', '.join(lstr(s) for s in slots)}], guard := {lstr(f['guard'])}, eqLoopOver := {lstr(f['loopOver'])},\n"
            f"    comparesPresence := {b(f['presence'])}, comparesValues := {b(f['values'])}, endsTrue := {b(f['endsTrue'])},\n"
            f"    hashLoopOver := {lstr(h['loopOver'])}, hashOnlyAssigned := {b(h['onlyAssigned'])}, hashFrozenset := {b(h['frozenset'])} }}\n")


def dataclass_text(repo):
    """every class of state.py below State: (name, the dataclass decorator keeps the inherited __eq__/__hash__)"""
    tree = tree_of(repo, STATE)
    below = {"State"}
    rows = []
    for n in tree.body:
        if isinstance(n, ast.ClassDef) and any(dotted(b) in below for b in n.bases):
            below.add(n.name)
            keeps = True
            for d in n.decorator_list:
                name = dotted(d.func) if isinstance(d, ast.Call) else dotted(d)
                if name in ("dataclass", "dataclasses.dataclass"):
                    eq_kw = [k for k in d.keywords if k.arg == "eq"] if isinstance(d, ast.Call) else []
                    keeps = bool(eq_kw) and is_const(eq_kw[0].value, False)
            own = any(isinstance(m, ast.FunctionDef) and m.name in ("__eq__", "__hash__") for m in n.body)
            rows.append(f"({lstr(n.name)}, {'true' if keeps and not own else 'false'})")
    return ("/-- state.py: every class below State, and whether it keeps State's `__eq__` / `__hash__` (a dataclass decorator\n"
            "    without `eq=False` would generate a field-tuple `__eq__` and set `__hash__` to None) -/\n"
            "def stateSubclasses : List (String × Bool) :=\n  [" + ",\n   ".join(rows) + "]\n")


def pairs_text(repo):
    """every class of the anchored files that defines `__eq__` or `__hash__`: (name, defines eq, defines hash)"""
    rows = []
    for file in ANCHOR_FILES:
        for n in tree_of(repo, file).body:
            if isinstance(n, ast.ClassDef):
                ms = {m.name for m in n.body if isinstance(m, ast.FunctionDef)}
                if "__eq__" in ms or "__hash__" in ms:
                    rows.append(f"({lstr(n.name)}, {'true' if '__eq__' in ms else 'false'}, {'true' if '__hash__' in ms else 'false'})")
    return ("/-- every class of the anchored files with a hand-written `__eq__` or `__hash__`: (class, defines __eq__, defines __hash__)\n"
            "    (a class that defines `__eq__` alone loses its `__hash__`) -/\n"
            "def eqHashPairs : List (String × Bool × Bool) :=\n  [" + ",\n   ".join(rows) + "]\n")


def _classdef(repo, file, cls):
    for n in tree_of(repo, file).body:
        if isinstance(n, ast.ClassDef) and n.name == cls:
            return n
    return None


def _find_property(repo, file, cls, a, depth=0):
    cd = _classdef(repo, file, cls)
    if cd is None or depth > 4:
        return None
    for m in cd.body:
        if isinstance(m, ast.FunctionDef) and m.name == a and any(dotted(d) == "property" for d in m.decorator_list):
            return m
    for b in cd.bases:
        r = _find_property(repo, file, dotted(b), a, depth + 1)
        if r is not None:
            return r
    return None


def _method_chain(repo, file, cls, func, depth=0):
    """the statements of cls.func and of the Base.func(self, ...) it calls"""
    body = list(method_body(repo, file, cls, func))
    out = list(body)
    for n in ast.walk(ast.Module(body=body, type_ignores=[])):
        if isinstance(n, ast.Call) and isinstance(n.func, ast.Attribute) and n.func.attr == func and isinstance(n.func.value, ast.Name) \
                and n.func.value.id not in ("self", "other") and depth < 3 and _classdef(repo, file, n.func.value.id) is not None:
            out.extend(_method_chain(repo, file, n.func.value.id, func, depth + 1))
    return out


def getters_text(repo):
    """attributes that `__eq__` / `__hash__` read under BOTH names (`self._a` and `other.a` / `self.a`): does the property `a`
    return the field `_a` (as it is, or a copy of it)?"""
    rows = []
    for fam, file, cls in FAMILIES:
        private, public = set(), set()
        for fn in ("__eq__", "__hash__"):
            for n in ast.walk(ast.Module(body=_method_chain(repo, file, cls, fn), type_ignores=[])):
                if isinstance(n, ast.Attribute) and isinstance(n.value, ast.Name) and n.value.id in ("self", "other") \
                        and not n.attr.startswith("__"):
                    (private if n.attr.startswith("_") else public).add(n.attr.lstrip("_"))
        for a in sorted(private & public):
            m = _find_property(repo, file, cls, a)
            ok = False
            if m is not None:
                body = [x for x in m.body if not (isinstance(x, ast.Expr) and isinstance(x.value, ast.Constant))]
                if len(body) == 1 and isinstance(body[0], ast.Return) and body[0].value is not None:
                    ok = ast.unparse(body[0].value) in (f"self._{a}", f"self._{a}.copy()", f"copy.copy(self._{a})",
                                                        f"copy.deepcopy(self._{a})", f"deepcopy(self._{a})")
            rows.append(f"({lstr(fam)}, {lstr(a)}, {'true' if ok else 'false'})")
    return ("/-- attributes read under both names (`self._a` on one side, the getter `a` on the other, or field in one method and getter in\n"
            "    the other): (class family, attribute, the property `a` returns the field `_a`) -/\n"
            "def mixedAccessGetters : List (String × String × Bool) :=\n  [" + ",\n   ".join(rows) + "]\n")


HEADER = """/-
  Gen.SrcC12 — GENERATED on every run by harness/translate/src_c12.py from the current source of /repo. Do not edit.
-/
import CRModel.PyExtC12
namespace Gen.C12
open CR.EqHash CR.EqHash.Src

"""


def items(repo):
    """[(name, thunk producing Lean text)]"""
    out = []
    out.append(("decimals", lambda: "/-- commonroad/common/util.py: default of `decimals` in rounded_array_key (and the body rounds with it) -/\n"
                                    f"def roundedKeyDecimals : Nat := {decimals_default(repo)}\n"))

    def dec():
        try:
            return decimals_default(repo)
        except Exception:
            return 10
    for fam, file, cls in FAMILIES:
        out.append((fam, (lambda fam=fam, file=file, cls=cls: class_text(repo, fam, file, cls, dec()))))
    out.append(("State", lambda: state_text(repo)))
    out.append(("SignalState", lambda: signal_text(repo)))
    out.append(("stateSubclasses", lambda: dataclass_text(repo)))
    out.append(("eqHashPairs", lambda: pairs_text(repo)))
    out.append(("getters", lambda: getters_text(repo)))
    return out


def regenerate(repo, gen_dir):
    _trees.clear()
    os.makedirs(gen_dir, exist_ok=True)
    os.makedirs(LASTGOOD, exist_ok=True)
    status, chunks = {}, []
    for name, thunk in items(repo):
        lg = os.path.join(LASTGOOD, f"C12_{name}.lean")
        key = f"C12_{name}"
        try:
            txt = thunk()
            status[key] = "ok"
        except (Unsupported, SyntaxError, KeyError, IndexError, AttributeError, TypeError, ValueError, OSError) as e:
            if os.path.exists(lg):
                txt = open(lg).read()
                status[key] = f"lost ({type(e).__name__}: {e}); last good translation used"
            else:
                txt = f"-- {key}: not translatable ({e})\n"
                status[key] = f"lost ({type(e).__name__}: {e}); no fallback"
        chunks.append(txt)
    fams = [f for f, _, _ in FAMILIES]
    table = ("/-- the extracted table by class family (State and SignalState: see `src_State`, `src_SignalState`) -/\n"
             "def src : Cls → ClassSrc\n" + "".join(f"  | .{f} => src_{f}\n" for f in fams)
             + "  | .State => { guard := \"State\", eqs := [], hashes := [] }\n"
             + "  | .SignalState => { guard := \"SignalState\", eqs := [], hashes := [] }\n")
    new = HEADER + "\n".join(chunks) + "\n" + table + "\nend Gen.C12\n"
    path = os.path.join(gen_dir, "SrcC12.lean")
    old = open(path).read() if os.path.exists(path) else None
    if old != new:
        with open(path, "w") as f:
            f.write(new)
    return status


def update_lastgood(repo):
    os.makedirs(LASTGOOD, exist_ok=True)
    _trees.clear()
    for name, thunk in items(repo):
        open(os.path.join(LASTGOOD, f"C12_{name}.lean"), "w").write(thunk())


if __name__ == "__main__":
    import sys
    repo = os.environ.get("VERIF_REPO", "/repo")
    if len(sys.argv) > 1 and sys.argv[1] == "--update-lastgood":
        update_lastgood(repo)
    st = regenerate(repo, os.path.join(os.path.dirname(os.path.dirname(HERE)), "lean", "Gen"))
    for k, v in st.items():
        print(k, v)
