"""py -> Lean translator for the id bookkeeping of `Scenario` (property C09; the 'T' tie of DESIGN.md §2).

`regenerate(repo, gen_dir)` parses the CURRENT source of commonroad/scenario/scenario.py with `ast` and writes one Lean
definition per target function to `<gen_dir>/SrcC09.lean` (module `Gen.SrcC09`, namespace `Gen`).  lean/CRProps/T09.lean imports
that module and proves every generated definition EQUAL to the hand model `CR.IdPool.*` (lean/CRModel/IdPool.lean) the C09
theorems are about, for all arguments and all states.  A function the translator cannot handle any more is not a verdict: its last
good translation (harness/translate/lastgood/C09_*.lean) is emitted and the status says `lost` (the correspondence still decides).

Style: functional translation in explicit state-passing form.  A method of `Scenario` that changes the scenario or may raise
becomes `def f (s : St) (args) : St × Out` (`Out` = ok | err class | id n); a query becomes a pure function of `s`.  Statements:
  x = e / x += e / self.attr = e / self.attr += e          let-bindings (self.attr -> a field of `s`)
  s.add / s.remove / s.discard / s.difference_update, d[k] = v, del d[k], l.append, l += l'
  if / elif / else (assignment-only: `let v := if c then .. else v`; otherwise the rest of the block continues in both branches)
  for x in xs  (no state change, no raise: List.foldl; otherwise PyC09.forE over the state and the assigned locals)
  raise C(..), assert, return, calls of other translated methods (list / single form chosen from the static argument type,
  default arguments read from the callee), warnings.warn (dropped), docstrings
Expressions: names, attribute reads through a table typed by the static type of the object, `in` / `not in`, `is None` (with
narrowing of Optionals), isinstance (dynamic on the `Obj` handed to add_objects, static on typed arguments), and/or/not, len, max,
set(), set().union(*[..]), set difference, list literals / + / comprehensions with filters, conditional expressions, the
LaneletNetwork calls of the fixed table in lean/CRModel/PyExtC09.lean.
Not modelled (dropped, as in the hand model): the obstacle-on-lanelet registries (`*_obstacles_on_lanelet`, property C07) except for
the AttributeError of `find_lanelet_by_id(..)` returning None; obstacles of the universe have no prediction.
"""
from __future__ import annotations

import ast
import os

from .pysrc import LASTGOOD, Unsupported, find_func, Tr

FILE = "commonroad/scenario/scenario.py"
OUT = "SrcC09.lean"
PREFIX = "C09_"

S = ("S",)                       # set of ints
OPTS = ("Opt", S)


def L(t):
    return ("L", t)


class T9:
    def __init__(self, name, func, kind, params, ret=None, static=False, doc=""):
        self.name, self.func, self.kind = name, func, kind      # kind: 'proc' (St × Out) | 'pure' (value; reads s unless static)
        self.params = params                                      # [(python name, type)]
        self.ret, self.static, self.doc = ret, static, doc


def targets():
    return [
        T9("Scenario_is_object_id_used", "_is_object_id_used", "pure", [("object_id", "Nat")], ret="Bool"),
        T9("Scenario_mark_object_id_as_used", "_mark_object_id_as_used", "proc", [("object_id", "Nat")]),
        T9("Scenario_mark_object_ids_as_used", "_mark_object_ids_as_used", "proc", [("object_ids", L("Nat"))]),
        T9("Scenario_lanelet_network_object_ids", "_lanelet_network_object_ids", "pure", [("lanelet_network", "Net")],
           ret=L("Nat"), static=True),
        T9("Scenario_generate_object_id", "generate_object_id", "proc", []),
        T9("Scenario_add_static_obstacle_to_lanelets", "_add_static_obstacle_to_lanelets", "proc",
           [("obstacle_id", "Nat"), ("lanelet_ids", OPTS)]),
        T9("Scenario_add_dynamic_obstacle_to_lanelets", "_add_dynamic_obstacle_to_lanelets", "proc", [("obstacle", "Obj")],
           doc="obstacles of the universe have no prediction"),
        T9("Scenario_add_objects", "add_objects", "proc", [("scenario_object", "Obj"), ("lanelet_ids", OPTS)],
           doc="one object (not a list)"),
        T9("Scenario_add_objects_list", "add_objects", "proc", [("scenario_object", L("Obj")), ("lanelet_ids", OPTS)],
           doc="list form"),
        T9("Scenario_remove_obstacle", "remove_obstacle", "proc", [("obstacle", "Obst")], doc="one obstacle (reduced to its id)"),
        T9("Scenario_remove_obstacle_list", "remove_obstacle", "proc", [("obstacle", L("Obst"))], doc="list form"),
        T9("Scenario_remove_traffic_sign", "remove_traffic_sign", "proc", [("traffic_sign", "Sign")]),
        T9("Scenario_remove_traffic_sign_list", "remove_traffic_sign", "proc", [("traffic_sign", L("Sign"))], doc="list form"),
        T9("Scenario_remove_traffic_light", "remove_traffic_light", "proc", [("traffic_light", "Light")]),
        T9("Scenario_remove_traffic_light_list", "remove_traffic_light", "proc", [("traffic_light", L("Light"))], doc="list form"),
        T9("Scenario_remove_intersection", "remove_intersection", "proc", [("intersection", "Inter")]),
        T9("Scenario_remove_intersection_list", "remove_intersection", "proc", [("intersection", L("Inter"))], doc="list form"),
        T9("Scenario_remove_hanging_lanelet_members", "remove_hanging_lanelet_members", "proc", [("remove_lanelet", L("Lanelet"))]),
        T9("Scenario_remove_lanelet_list", "remove_lanelet", "proc", [("lanelet", L("Lanelet")), ("referenced_elements", "Bool")],
           doc="list form"),
        T9("Scenario_remove_lanelet", "remove_lanelet", "proc", [("lanelet", "Lanelet"), ("referenced_elements", "Bool")],
           doc="one lanelet"),
        T9("Scenario_erase_lanelet_network", "erase_lanelet_network", "proc", []),
        T9("Scenario_replace_lanelet_network", "replace_lanelet_network", "proc", [("lanelet_network", "Net")]),
    ]


LEAN_TYPE = {"Nat": "Nat", "Bool": "Bool", "Net": "Net", "Obj": "Obj", "Obst": "Nat", "Sign": "Nat", "Light": "Nat", "Inc": "Nat",
             "Inter": "Inter", "Lanelet": "Lanelet", "OptNat": "Option Nat"}


def lean_type(t):
    if isinstance(t, str):
        return LEAN_TYPE[t]
    if t[0] == "L":
        return f"List ({lean_type(t[1])})"
    if t[0] == "S":
        return "List Nat"
    if t[0] == "Opt":
        return f"Option ({lean_type(t[1])})"
    if t[0] == "D":
        return "List Nat"
    raise Unsupported(f"type {t}")


# attributes of `self`
SELF_ATTRS = {
    "_id_set": ("s.idSet", S), "_id_counter": ("s.counter", "OptNat"),
    "_static_obstacles": ("s.stat", ("D", "stat")), "_dynamic_obstacles": ("s.dyn", ("D", "dyn")),
    "_environment_obstacle": ("s.env", ("D", "env")), "_phantom_obstacle": ("s.phan", ("D", "phan")),
    "_lanelet_network": ("s.net", "Net"), "lanelet_network": ("s.net", "Net"),
}
SELF_FIELD = {"_id_set": "idSet", "_id_counter": "counter", "_static_obstacles": "stat", "_dynamic_obstacles": "dyn",
              "_environment_obstacle": "env", "_phantom_obstacle": "phan", "_lanelet_network": "net", "lanelet_network": "net"}
DICT_DEL = {"stat": "PyC09.delStat", "dyn": "PyC09.delDyn", "env": "PyC09.delEnv", "phan": "PyC09.delPhan"}

# (static type of the object, attribute) -> (lean template over {x}, type)
ATTRS = {
    ("Net", "lanelets"): ("{x}.lanelets", L("Lanelet")), ("Net", "traffic_signs"): ("{x}.signs", L("Sign")),
    ("Net", "traffic_lights"): ("{x}.lights", L("Light")), ("Net", "intersections"): ("{x}.inters", L("Inter")),
    ("Lanelet", "lanelet_id"): ("{x}.id", "Nat"), ("Lanelet", "traffic_signs"): ("{x}.signs", S),
    ("Lanelet", "traffic_lights"): ("{x}.lights", S),
    ("Sign", "traffic_sign_id"): ("{x}", "Nat"), ("Light", "traffic_light_id"): ("{x}", "Nat"),
    ("Inter", "intersection_id"): ("{x}.id", "Nat"), ("Inter", "incomings"): ("{x}.incs", L("Inc")),
    ("Inc", "incoming_id"): ("{x}", "Nat"), ("Obst", "obstacle_id"): ("{x}", "Nat"),
    ("Obj", "obstacle_id"): ("(PyC09.objId {x})", "Nat"), ("Obj", "traffic_sign_id"): ("(PyC09.objId {x})", "Nat"),
    ("Obj", "traffic_light_id"): ("(PyC09.objId {x})", "Nat"), ("Obj", "lanelet_id"): ("(PyC09.objId {x})", "Nat"),
    ("Obj", "intersection_id"): ("(PyC09.objId {x})", "Nat"), ("Obj", "incomings"): ("(PyC09.asInter {x}).incs", L("Inc")),
    ("Obj", "initial_shape_lanelet_ids"): ("(PyC09.shapeLaneletIds {x})", OPTS),
    ("Obj", "prediction"): ("none", "NoneConst"),
}
REG_ATTRS = {"static_obstacles_on_lanelet", "dynamic_obstacles_on_lanelet"}

# LaneletNetwork methods: (template over {x} and positional {0},{1}; argument types; result type or None for an in-place update)
NET_UPDATE = {
    "add_lanelet": ("({x}).addLanelet {0}", ["Lanelet"]), "add_traffic_sign": ("({x}).addSign {0} {1}", ["Sign", S]),
    "add_traffic_light": ("({x}).addLight {0} {1}", ["Light", S]), "add_intersection": ("({x}).addInter {0}", ["Inter"]),
    "remove_lanelet": ("({x}).removeLanelet {0}", ["Nat"]), "remove_traffic_sign": ("({x}).removeSign {0}", ["Nat"]),
    "remove_traffic_light": ("({x}).removeLight {0}", ["Nat"]), "remove_intersection": ("({x}).removeInter {0}", ["Nat"]),
}
NET_QUERY = {
    "find_lanelet_by_id": ("(PyC09.findLanelet {x} {0})", ["Nat"], ("Opt", "Lanelet")),
    "find_traffic_sign_by_id": ("(PyC09.findSign {x} {0})", ["Nat"], ("Opt", "Sign")),
    "find_traffic_light_by_id": ("(PyC09.findLight {x} {0})", ["Nat"], ("Opt", "Light")),
    "find_intersection_by_id": ("(PyC09.findInter {x} {0})", ["Nat"], ("Opt", "Inter")),
}
# registries that are not part of the id model: calls dropped
DROPPED_PROCS = {"_remove_static_obstacle_from_lanelets", "_remove_dynamic_obstacle_from_lanelets"}

CLS = {"list": "list", "StaticObstacle": "staticObstacle", "DynamicObstacle": "dynamicObstacle",
       "EnvironmentObstacle": "environmentObstacle", "PhantomObstacle": "phantomObstacle", "Obstacle": "obstacle",
       "LaneletNetwork": "laneletNetwork", "Lanelet": "lanelet", "TrafficSign": "trafficSign", "TrafficLight": "trafficLight",
       "Intersection": "intersection"}
OBST_CLASSES = {"Obstacle", "StaticObstacle", "DynamicObstacle", "EnvironmentObstacle", "PhantomObstacle"}
STATIC_CLASSES = {"Lanelet": {"Lanelet"}, "Sign": {"TrafficSign"}, "Light": {"TrafficLight"}, "Inter": {"Intersection"},
                  "Net": {"LaneletNetwork"}, "Bool": {"bool"}, "Obst": OBST_CLASSES, "NoneConst": set(), "Nat": {"int"}}
ERR = {"ValueError": "value", "KeyError": "key", "AttributeError": "attr", "TypeError": "type", "AssertionError": "assert"}
RESERVED = {"s": "s_", "st": "st_", "o": "o_", "end": "end_", "from": "from_", "type": "type_", "at": "at_", "open": "open_",
            "k_": "k__", "fun": "fun_", "id": "id_", "in": "in_"}


class Ctx:
    """what the enclosing construct threads through a block: the Lean variables forming σ and how a block ends"""

    def __init__(self, vars_, pure=False, func=False, ret=None):
        self.vars, self.pure, self.func, self.ret = list(vars_), pure, func, ret

    def pack(self):
        return self.vars[0] if len(self.vars) == 1 else "(" + ", ".join(self.vars) + ")"

    def end(self):
        if self.pure:
            if self.func:
                raise Unsupported("path without return in a query")
            return self.pack()
        return f"({self.pack()}, .ok)"

    def raise_(self, e):
        if self.pure:
            raise Unsupported("raise in a construct translated as pure")
        return f"({self.pack()}, .err .{e})"

    def handler(self):
        if self.pure or "s" not in self.vars:
            raise Unsupported("state-changing call in a construct translated without state")
        return f"(fun s o_ => ({self.pack()}, o_))"


def unpack(vars_, st="st"):
    """let-bindings that take a σ value apart"""
    if len(vars_) == 1:
        return ""
    out = []
    for i, v in enumerate(vars_):
        proj = st + ".2" * i + (".1" if i < len(vars_) - 1 else "")
        out.append(f"let {v} := {proj}\n")
    return "".join(out)


class Tr9(Tr):
    def __init__(self, t: T9, tree, all_targets):
        self.t, self.tree, self.all = t, tree, all_targets
        self.env = {}
        self.narrow = {}        # dotted expr -> 'none' | 'some'
        self.pre = []
        self.nvar = 0

    # ------------------------------------------------------------------ helpers
    def local(self, name):
        return RESERVED.get(name, name)

    def fresh(self, base):
        self.nvar += 1
        return f"{base}{self.nvar}"

    def take_pre(self):
        p, self.pre = self.pre, []
        return p

    def wrap(self, pre, text, ctx):
        for kind, a, b in reversed(pre):
            if ctx.pure:
                raise Unsupported("partial operation in a construct translated as pure")
            if kind == "num":
                text = f"PyC09.withNum {ctx.pack()} ({b}) (fun {a} =>\n{text})"
            else:
                text = f"PyC09.requireLanelet {ctx.pack()} ({a}) ({b}) (\n{text})"
        return text

    def coerce(self, text, have, want):
        if have == want or want is None:
            return text
        nat_like = {"Nat", "Sign", "Light", "Inc", "Obst"}
        if have in nat_like and want in nat_like:
            return text
        if have == "Obj" and want == "Lanelet":
            return f"(PyC09.asLanelet {text})"
        if have == "Obj" and want in ("Sign", "Light", "Nat"):
            return f"(PyC09.objId {text})"
        if have == "Obj" and want == "Inter":
            return f"(PyC09.asInter {text})"
        if have == "Obj" and want == "Net":
            return f"(PyC09.asNet {text})"
        if have == "Net" and want == "Obj":
            return f"(Obj.network {text})"
        if isinstance(have, tuple) and isinstance(want, tuple) and have[0] == "L" and want[0] == "L":
            if isinstance(have[1], tuple) and have[1][0] == "Opt" and self.compatible(have[1][1], want[1]):
                return f"(PyC09.somes {text})"
            if self.compatible(have[1], want[1]):
                return text
        if want == S and isinstance(have, tuple) and have[0] in ("S", "L") and (have[0] == "S" or self.compatible(have[1], "Nat")):
            return text
        if want == OPTS and have == S:
            return f"(some {text})"
        if isinstance(want, tuple) and want[0] == "Opt" and have == "NoneConst":
            return "none"
        raise Unsupported(f"argument of type {have} where {want} is expected")

    def compatible(self, a, b):
        nat_like = {"Nat", "Sign", "Light", "Inc", "Obst"}
        return a == b or (a in nat_like and b in nat_like)

    def num(self, n):
        text, ty = self.e(n)
        if ty == "OptNat":
            v = self.fresh("c")
            self.pre.append(("num", v, text))
            return v, "Nat"
        return text, ty

    def key(self, n):
        d = self.dotted(n)
        return None if "?" in d else d

    def none_test(self, n):
        """(expr, is_none: bool) for `expr is None` / `expr is not None`"""
        if isinstance(n, ast.Compare) and len(n.ops) == 1 and isinstance(n.ops[0], (ast.Is, ast.IsNot)) \
                and isinstance(n.comparators[0], ast.Constant) and n.comparators[0].value is None:
            return n.left, isinstance(n.ops[0], ast.Is)
        return None

    def narrowings(self, test, outcome):
        """dotted exprs known to be None / not None when `test` evaluated to `outcome`"""
        res = {}
        nt = self.none_test(test)
        if nt and self.key(nt[0]):
            res[self.key(nt[0])] = "none" if nt[1] == outcome else "some"
        elif isinstance(test, ast.BoolOp) and isinstance(test.op, ast.Or) and not outcome:
            for v in test.values:
                res.update(self.narrowings(v, False))
        elif isinstance(test, ast.BoolOp) and isinstance(test.op, ast.And) and outcome:
            for v in test.values:
                res.update(self.narrowings(v, True))
        elif isinstance(test, ast.UnaryOp) and isinstance(test.op, ast.Not):
            res.update(self.narrowings(test.operand, not outcome))
        return res

    def narrowed(self, n, text, ty):
        k = self.key(n)
        if k in self.narrow and isinstance(ty, tuple) and ty[0] == "Opt":
            if self.narrow[k] == "none":
                return "none", "NoneConst"
            inner = ty[1]
            dflt = "[]" if isinstance(inner, tuple) else "default"
            return f"({text}.getD {dflt})", inner
        return text, ty

    # ------------------------------------------------------------------ expressions
    def e(self, n):
        if isinstance(n, ast.Constant):
            if n.value is None:
                return "none", "NoneConst"
            if isinstance(n.value, bool):
                return ("true" if n.value else "false"), "Bool"
            if isinstance(n.value, int) and n.value >= 0:
                return str(n.value), "Nat"
            if isinstance(n.value, str):
                return '""', "Str"
            raise Unsupported(f"constant {n.value!r}")
        if isinstance(n, ast.Name):
            if n.id not in self.env:
                raise Unsupported(f"name {n.id}")
            if self.env[n.id] == "OwnNet":
                return "s.net", "Net"          # a local that aliases the scenario's own (mutable) LaneletNetwork
            return self.narrowed(n, self.local(n.id), self.env[n.id])
        if isinstance(n, ast.Attribute):
            if isinstance(n.value, ast.Name) and n.value.id == "self":
                if n.attr in SELF_ATTRS:
                    if self.t.static:
                        raise Unsupported("self in a static method")
                    if n.attr == "_id_counter" and self.narrow.get(self.key(n)) == "some":
                        return "(s.counter.getD 0)", "Nat"        # read behind `is not None`
                    return SELF_ATTRS[n.attr]
                raise Unsupported(f"attribute self.{n.attr}")
            bt, bty = self.e(n.value)
            if n.attr in REG_ATTRS:
                if bty == "Lanelet":
                    return "()", "Reg"
                if bty == ("Opt", "Lanelet") and isinstance(n.value, ast.Call) and isinstance(n.value.func, ast.Attribute) \
                        and n.value.func.attr == "find_lanelet_by_id":
                    net, _ = self.e(n.value.func.value)
                    arg, _ = self.e(n.value.args[0])
                    self.pre.append(("req", net, arg))
                    return "()", "Reg"
                raise Unsupported(f"registry attribute on {bty}")
            if (bty, n.attr) in ATTRS:
                tmpl, ty = ATTRS[(bty, n.attr)]
                return self.narrowed(n, tmpl.format(x=bt), ty)
            raise Unsupported(f"attribute .{n.attr} of {bty}")
        if isinstance(n, ast.UnaryOp) and isinstance(n.op, ast.Not):
            a, ty = self.e(n.operand)
            if a in ("true", "false"):
                return ("false" if a == "true" else "true"), "Bool"
            return f"(!{a})", "Bool"
        if isinstance(n, ast.BoolOp):
            is_and = isinstance(n.op, ast.And)
            parts = []
            for v in n.values:
                a, ty = self.e(v)
                if ty != "Bool":
                    raise Unsupported(f"truth value of {ty}")
                if a == ("false" if is_and else "true"):
                    parts = [a]       # short-circuit: the remaining operands are not evaluated
                    break
                if a == ("true" if is_and else "false"):
                    continue
                parts.append(a)
            if not parts:
                return ("true" if is_and else "false"), "Bool"
            if len(parts) == 1:
                return parts[0], "Bool"
            if parts[-1] in ("true", "false") and len(parts) > 1:
                # static absorbing element after dynamic operands: their evaluation has no effect here
                return parts[-1], "Bool"
            return "(" + (" && " if is_and else " || ").join(parts) + ")", "Bool"
        if isinstance(n, ast.Compare):
            return self.compare(n)
        if isinstance(n, ast.IfExp):
            c, _ = self.e(n.test)
            save = dict(self.narrow)
            self.narrow.update(self.narrowings(n.test, True))
            a, ta = self.e(n.body)
            self.narrow = dict(save)
            self.narrow.update(self.narrowings(n.test, False))
            b, tb = self.e(n.orelse)
            self.narrow = save
            if c == "true":
                return a, ta
            if c == "false":
                return b, tb
            ty = ta if ta != "NoneConst" else tb
            if ta == "NoneConst" != tb:
                raise Unsupported("conditional expression with None")
            if not (ta == tb or (isinstance(ta, tuple) and isinstance(tb, tuple) and {ta[0], tb[0]} <= {"S", "L"})
                    or self.compatible(ta, tb)):
                raise Unsupported(f"conditional expression of types {ta} / {tb}")
            return f"(if {c} then {a} else {b})", ty
        if isinstance(n, ast.BinOp):
            if isinstance(n.op, ast.Add):
                a, ta = self.num(n.left)
                b, tb = self.num(n.right)
                if isinstance(ta, tuple) and ta[0] == "L" and isinstance(tb, tuple) and tb[0] == "L" and self.compatible(ta[1], tb[1]):
                    return f"({a} ++ {b})", ta
                if ta == "Nat" and tb == "Nat":
                    return f"({a} + {b})", "Nat"
            if isinstance(n.op, ast.Sub):
                a, ta = self.e(n.left)
                b, tb = self.e(n.right)
                if ta == S and tb == S:
                    return f"(PyC09.setDiff {a} {b})", S
            raise Unsupported(f"binary op {type(n.op).__name__}")
        if isinstance(n, ast.List):
            if not n.elts:
                raise Unsupported("empty list literal outside an assignment")
            parts = [self.e(x) for x in n.elts]
            ty = parts[0][1]
            if any(not self.compatible(p[1], ty) for p in parts):
                raise Unsupported("list literal of mixed types")
            return "[" + ", ".join(p[0] for p in parts) + "]", L(ty)
        if isinstance(n, ast.ListComp):
            return self.listcomp(n)
        if isinstance(n, ast.Call):
            return self.call(n)
        raise Unsupported(f"expression {type(n).__name__}")

    def listcomp(self, n):
        if len(n.generators) != 1 or not isinstance(n.generators[0].target, ast.Name) or n.generators[0].is_async:
            raise Unsupported("comprehension shape")
        g = n.generators[0]
        it, ity = self.e(g.iter)
        ety = self.elem_type(ity)
        var = g.target.id
        saved = self.env.get(var)
        self.env[var] = ety
        npre = len(self.pre)
        v = self.local(var)
        text = it
        for c in g.ifs:
            ct, _ = self.e(c)
            text = f"({text}.filter (fun {v} => {ct}))"
        el, elty = self.e(n.elt)
        if len(self.pre) != npre:
            raise Unsupported("partial operation inside a comprehension")
        if el != v:
            text = f"({text}.map (fun {v} => {el}))"
        if saved is None:
            del self.env[var]
        else:
            self.env[var] = saved
        return text, L(elty)

    def elem_type(self, ity):
        if isinstance(ity, tuple) and ity[0] == "L":
            return ity[1]
        if ity == S:
            return "Nat"
        raise Unsupported(f"iteration over {ity}")

    def compare(self, n):
        if len(n.ops) != 1:
            raise Unsupported("chained comparison")
        op, right = n.ops[0], n.comparators[0]
        nt = self.none_test(n)
        if nt:
            k = self.key(nt[0])
            if k in self.narrow:
                return ("true" if (self.narrow[k] == "none") == nt[1] else "false"), "Bool"
            a, ty = self.e(nt[0])
            if ty == "NoneConst":
                return ("true" if nt[1] else "false"), "Bool"
            if ty == "OptNat" or (isinstance(ty, tuple) and ty[0] == "Opt"):
                return (f"({a}).isNone" if nt[1] else f"({a}).isSome"), "Bool"
            if ty == "Reg":
                raise Unsupported("registry value in a modelled test")
            return ("false" if nt[1] else "true"), "Bool"       # a value of a non-Optional type is never None
        if isinstance(op, (ast.In, ast.NotIn)):
            a, ta = self.e(n.left)
            b, tb = self.e(right)
            if not (isinstance(tb, tuple) and tb[0] in ("S", "L", "D")) or not self.compatible(ta, "Nat"):
                raise Unsupported(f"membership of {ta} in {tb}")
            if tb[0] == "L" and not self.compatible(tb[1], "Nat"):
                raise Unsupported(f"membership in list of {tb[1]}")
            return f"decide ({a} {'∈' if isinstance(op, ast.In) else '∉'} {b})", "Bool"
        a, ta = self.num(n.left)
        b, tb = self.num(right)
        sym = {ast.Lt: "<", ast.LtE: "≤", ast.Gt: ">", ast.GtE: "≥", ast.Eq: "=", ast.NotEq: "≠"}.get(type(op))
        if sym is None or not (self.compatible(ta, "Nat") and self.compatible(tb, "Nat")):
            raise Unsupported(f"comparison {type(op).__name__} of {ta}, {tb}")
        return f"decide ({a} {sym} {b})", "Bool"

    def isinstance_(self, n):
        if len(n.args) != 2:
            raise Unsupported("isinstance arity")
        classes = [self.dotted(x) for x in n.args[1].elts] if isinstance(n.args[1], ast.Tuple) else [self.dotted(n.args[1])]
        a, ty = self.e(n.args[0])
        if ty == "Obj":
            for c in classes:
                if c not in CLS:
                    raise Unsupported(f"isinstance class {c}")
            parts = [f"PyC09.isinst {a} .{CLS[c]}" for c in classes if c != "list"]      # an `Obj` is never a list (separate target)
            if not parts:
                return "false", "Bool"
            return (parts[0] if len(parts) == 1 else "(" + " || ".join(parts) + ")"), "Bool"
        if isinstance(ty, tuple) and ty[0] == "L":
            return ("true" if "list" in classes else "false"), "Bool"
        if ty in STATIC_CLASSES:
            for c in classes:
                if c not in CLS and c not in ("bool", "int", "SetBasedPrediction", "TrajectoryPrediction"):
                    raise Unsupported(f"isinstance class {c}")
            if ty == "Obst" and not (OBST_CLASSES <= set(classes)) and (OBST_CLASSES & set(classes)):
                raise Unsupported("isinstance test that distinguishes obstacle roles on an obstacle reduced to its id")
            return ("true" if STATIC_CLASSES[ty] & set(classes) else "false"), "Bool"
        raise Unsupported(f"isinstance on {ty}")

    def call(self, n):
        f = n.func
        d = self.dotted(f)
        if d == "isinstance":
            return self.isinstance_(n)
        if n.keywords:
            raise Unsupported("keyword arguments")
        if d == "len" and len(n.args) == 1:
            a, ty = self.e(n.args[0])
            if not (isinstance(ty, tuple) and ty[0] in ("S", "L", "D")):
                raise Unsupported(f"len of {ty}")
            return f"({a}).length", "Nat"
        if d == "max" and len(n.args) == 2:
            a, ta = self.num(n.args[0])
            b, tb = self.num(n.args[1])
            if ta != "Nat" or tb != "Nat":
                raise Unsupported("max of non-numbers")
            return f"(max {a} {b})", "Nat"
        if d == "max" and len(n.args) == 1:
            a, ty = self.e(n.args[0])
            if ty != S:
                raise Unsupported(f"max of {ty}")
            return f"(PyC09.setMax {a})", "Nat"
        if d == "set" and not n.args:
            return "([] : List Nat)", S
        if d in ("set", "list", "tuple") and len(n.args) == 1:
            a, ty = self.e(n.args[0])
            if ty == S or (isinstance(ty, tuple) and ty[0] == "L"):
                return a, (S if d == "set" and self.compatible(self.elem_type(ty), "Nat") else ty)
            raise Unsupported(f"{d}() of {ty}")
        if isinstance(f, ast.Attribute) and f.attr == "union" and isinstance(f.value, ast.Call) and self.dotted(f.value.func) == "set" \
                and not f.value.args and len(n.args) == 1 and isinstance(n.args[0], ast.Starred):
            a, ty = self.e(n.args[0].value)
            if ty != L(S):
                raise Unsupported(f"set().union(*x) with x of type {ty}")
            return f"(PyC09.unionAll {a})", S
        if d == "LaneletNetwork" and not n.args:
            return "({} : Net)", "Net"
        if isinstance(f, ast.Attribute):
            # queries of other translated functions
            if isinstance(f.value, ast.Name) and f.value.id == "self":
                cands = [t for t in self.all if t.func == f.attr and t.kind == "pure"]
                if cands:
                    t = cands[0]
                    args = self.args_for(t, n.args)
                    return f"({t.name}{'' if t.static else ' s'}{''.join(' ' + a for a in args)})", t.ret
            recv, rty = self.e(f.value)
            if rty == "Net" and f.attr in NET_QUERY:
                tmpl, atys, ty = NET_QUERY[f.attr]
                if len(n.args) != len(atys):
                    raise Unsupported(f"arity of {f.attr}")
                args = [self.coerce(*self.e(a), want) for a, want in zip(n.args, atys)]
                return tmpl.format(*args, x=recv), ty
        raise Unsupported(f"call {d}")

    def args_for(self, t: T9, args):
        fn = find_func(self.tree, "Scenario", t.func)
        names = [a.arg for a in fn.args.args if a.arg != "self"]
        defaults = dict(zip(reversed(names), reversed(fn.args.defaults)))
        if len(args) > len(t.params):
            raise Unsupported(f"too many arguments for {t.func}")
        out = []
        for i, (pname, pty) in enumerate(t.params):
            if i < len(args):
                out.append(self.coerce(*self.e(args[i]), pty))
            elif pname in defaults:
                out.append(self.coerce(*self.e(defaults[pname]), pty))
            else:
                raise Unsupported(f"missing argument {pname} of {t.func}")
        return out

    def proc_for(self, name, args):
        cands = [t for t in self.all if t.func == name and t.kind == "proc"]
        if not cands:
            return None
        if len(cands) == 1 or not args:
            return cands[0]
        _, ty = self.e(args[0])
        is_list = isinstance(ty, tuple) and ty[0] == "L"
        for t in cands:
            pt = t.params[0][1]
            if (isinstance(pt, tuple) and pt[0] == "L") == is_list:
                return t
        raise Unsupported(f"no form of {name} for an argument of type {ty}")

    # ------------------------------------------------------------------ static analysis of statement lists
    def is_reg_name(self, n):
        while isinstance(n, (ast.Attribute, ast.Subscript, ast.Call)):
            n = n.func if isinstance(n, ast.Call) else n.value
        return isinstance(n, ast.Name) and self.env.get(n.id) == "Reg"

    def is_reg_stmt(self, s):
        """a statement that only reads / updates an obstacle-on-lanelet registry held in a local"""
        if isinstance(s, ast.Expr) and isinstance(s.value, ast.Call) and isinstance(s.value.func, ast.Attribute):
            return self.is_reg_name(s.value.func.value)
        if isinstance(s, ast.Assign) and len(s.targets) == 1 and isinstance(s.targets[0], ast.Subscript):
            return self.is_reg_name(s.targets[0].value)
        if isinstance(s, ast.If):
            left = s.test.left if isinstance(s.test, ast.Compare) else s.test
            return self.is_reg_name(left) and all(self.is_reg_stmt(x) for x in list(s.body) + list(s.orelse))
        return False

    def walk_stmts(self, stmts):
        for s in stmts:
            yield s
            if isinstance(s, (ast.If, ast.For, ast.While)):
                yield from self.walk_stmts(s.body)
                yield from self.walk_stmts(s.orelse)

    def self_attr(self, n):
        return isinstance(n, ast.Attribute) and isinstance(n.value, ast.Name) and n.value.id == "self"

    def own_net(self, n):
        return (self.self_attr(n) and n.attr in ("_lanelet_network", "lanelet_network")) \
            or (isinstance(n, ast.Name) and self.env.get(n.id) == "OwnNet")

    def mutates_state(self, stmts):
        for s in self.walk_stmts(stmts):
            tg = []
            if isinstance(s, ast.Assign):
                tg = s.targets
            elif isinstance(s, (ast.AugAssign, ast.AnnAssign)):
                tg = [s.target]
            elif isinstance(s, ast.Delete):
                tg = s.targets
            for t in tg:
                base = t.value if isinstance(t, ast.Subscript) else t
                if self.self_attr(base):
                    return True
            if isinstance(s, ast.Expr) and isinstance(s.value, ast.Call) and isinstance(s.value.func, ast.Attribute):
                f = s.value.func
                if self.self_attr(f) and f.attr not in DROPPED_PROCS and any(t.func == f.attr and t.kind == "proc" for t in self.all):
                    return True
                if self.self_attr(f.value) and f.value.attr in SELF_FIELD:
                    return True
                if isinstance(f.value, ast.Name) and f.attr in NET_UPDATE and (self.env.get(f.value.id) in ("OwnNet", None)):
                    return True
        return False

    def may_raise(self, stmts):
        for s in self.walk_stmts(stmts):
            if isinstance(s, (ast.Raise, ast.Delete, ast.Assert, ast.Return)):
                return True
            for x in ast.walk(s):
                if isinstance(x, ast.Attribute) and (x.attr in REG_ATTRS or (self.self_attr(x) and x.attr == "_id_counter"
                                                                             and isinstance(x.ctx, ast.Load)
                                                                             and not self.in_none_test(s, x))):
                    return True
                if isinstance(x, ast.Call) and isinstance(x.func, ast.Attribute):
                    if x.func.attr == "remove" and not (isinstance(x.func.value, ast.Name)):
                        return True
                    if self.self_attr(x.func) and x.func.attr not in DROPPED_PROCS \
                            and any(t.func == x.func.attr and t.kind == "proc" for t in self.all):
                        return True
        return False

    def in_none_test(self, stmt, attr):
        for x in ast.walk(stmt):
            if isinstance(x, ast.Compare) and x.left is attr and self.none_test(x):
                return True
        return False

    def assigned_locals(self, stmts):
        """locals (already bound outside) that the statements re-assign or update in place, in order of appearance"""
        out = []

        def add(name):
            if name in self.env and self.env[name] not in ("Reg", "OwnNet") and name not in out:
                out.append(name)
        for s in self.walk_stmts(stmts):
            if isinstance(s, ast.Assign):
                for t in s.targets:
                    if isinstance(t, ast.Name):
                        add(t.id)
            elif isinstance(s, ast.AugAssign) and isinstance(s.target, ast.Name):
                add(s.target.id)
            elif isinstance(s, ast.Expr) and isinstance(s.value, ast.Call) and isinstance(s.value.func, ast.Attribute) \
                    and isinstance(s.value.func.value, ast.Name) and s.value.func.attr in ("add", "append", "discard", "remove", "update",
                                                                                          "extend", "difference_update"):
                add(s.value.func.value.id)
        return out

    def terminates(self, stmts):
        if not stmts:
            return False
        s = stmts[-1]
        if isinstance(s, (ast.Return, ast.Raise)):
            return True
        if isinstance(s, ast.If):
            return self.terminates(s.body) and bool(s.orelse) and self.terminates(s.orelse)
        return False

    # ------------------------------------------------------------------ statements
    def block(self, stmts, ctx: Ctx) -> str:
        if not stmts:
            return ctx.end()
        s, rest = stmts[0], list(stmts[1:])
        if isinstance(s, ast.Expr) and isinstance(s.value, ast.Constant):
            return self.block(rest, ctx)                                    # docstring
        if isinstance(s, ast.Pass):
            return self.block(rest, ctx)
        if isinstance(s, ast.Expr) and isinstance(s.value, ast.Call) and self.dotted(s.value.func) == "warnings.warn":
            return self.block(rest, ctx)                                    # a warning is not part of the modelled result
        if self.is_reg_stmt(s):
            return self.block(rest, ctx)                                    # obstacle-on-lanelet registry: not in the id model
        if isinstance(s, ast.Return):
            if not ctx.func:
                raise Unsupported("return inside a loop")
            if s.value is None:
                if ctx.pure:
                    raise Unsupported("bare return in a query")
                return f"({ctx.pack()}, .ok)"
            v, ty = self.num(s.value) if not ctx.pure else self.e(s.value)
            pre = self.take_pre()
            if ctx.pure:
                return self.coerce(v, ty, ctx.ret)
            if ty != "Nat":
                raise Unsupported(f"procedure returning {ty}")
            return self.wrap(pre, f"({ctx.pack()}, .id {v})", ctx)
        if isinstance(s, ast.Raise):
            exc = s.exc.func if isinstance(s.exc, ast.Call) else s.exc
            name = self.dotted(exc) if exc is not None else "?"
            if name not in ERR:
                raise Unsupported(f"raise {name}")
            return ctx.raise_(ERR[name])
        if isinstance(s, ast.Assert):
            c, _ = self.e(s.test)
            pre = self.take_pre()
            if c == "true":
                return self.block(rest, ctx)
            if c == "false":
                return ctx.raise_("assert")
            return self.wrap(pre, f"if {c} then\n{self.block(rest, ctx)}\nelse {ctx.raise_('assert')}", ctx)
        if isinstance(s, ast.AnnAssign) and s.value is not None:
            s = ast.Assign(targets=[s.target], value=s.value)
        if isinstance(s, ast.Assign) and len(s.targets) == 1:
            return self.assign(s.targets[0], s.value, rest, ctx)
        if isinstance(s, ast.AugAssign) and isinstance(s.op, ast.Add):
            return self.assign(s.target, ast.BinOp(left=s.target, op=ast.Add(), right=s.value), rest, ctx)
        if isinstance(s, ast.Delete) and len(s.targets) == 1 and isinstance(s.targets[0], ast.Subscript):
            d, dty = self.e(s.targets[0].value)
            k = self.coerce(*self.e(s.targets[0].slice), "Nat")
            pre = self.take_pre()
            if not (isinstance(dty, tuple) and dty[0] == "D"):
                raise Unsupported(f"del on {dty}")
            return self.wrap(pre, self.try_(f"{DICT_DEL[dty[1]]} s {k}", rest, ctx), ctx)
        if isinstance(s, ast.Expr) and isinstance(s.value, ast.Call):
            return self.call_stmt(s.value, rest, ctx)
        if isinstance(s, ast.If):
            return self.if_(s, rest, ctx)
        if isinstance(s, ast.For) and not s.orelse and isinstance(s.target, ast.Name):
            return self.for_(s, rest, ctx)
        raise Unsupported(f"statement {type(s).__name__}")

    def try_(self, call, rest, ctx):
        h = ctx.handler()
        return f"PyC09.tryE ({call}) (fun s =>\n{self.block(rest, ctx)}) {h}"

    def set_state(self, field, value, rest, ctx):
        if "s" not in ctx.vars:
            raise Unsupported("state change in a construct translated without state")
        return f"let s : St := {{ s with {field} := {value} }}\n{self.block(rest, ctx)}"

    def assign(self, tg, value, rest, ctx):
        if isinstance(tg, ast.Name):
            name = tg.id
            self.narrow.pop(name, None)
            # empty containers need a type: set() / [] / list()
            if (isinstance(value, ast.List) and not value.elts) or (isinstance(value, ast.Call) and self.dotted(value.func) == "list"
                                                                   and not value.args):
                ty = self.infer_list_type(name, rest)
                self.env[name] = ty
                return f"let {self.local(name)} : {lean_type(ty)} := []\n{self.block(rest, ctx)}"
            if self.own_net(value) and not self.reassigns_net(rest):
                self.env[name] = "OwnNet"
                return self.block(rest, ctx)
            v, ty = self.e(value)
            pre = self.take_pre()
            if ty == "Reg":
                self.env[name] = "Reg"
                return self.wrap(pre, self.block(rest, ctx), ctx)
            if ty in ("NoneConst", "Str"):
                raise Unsupported(f"local of type {ty}")
            self.env[name] = ty
            return self.wrap(pre, f"let {self.local(name)} : {lean_type(ty)} := {v}\n{self.block(rest, ctx)}", ctx)
        if self.self_attr(tg) and tg.attr in SELF_FIELD:
            field = SELF_FIELD[tg.attr]
            if field == "counter":
                if isinstance(value, ast.Constant) and value.value is None:
                    v = "none"
                else:
                    v, ty = self.num(value)
                    if ty != "Nat":
                        raise Unsupported(f"_id_counter := {ty}")
                    v = f"some {v}"
            elif field == "net":
                v = self.coerce(*self.e(value), "Net")
            else:
                raise Unsupported(f"assignment to self.{tg.attr}")
            pre = self.take_pre()
            return self.wrap(pre, self.set_state(field, v, rest, ctx), ctx)
        if isinstance(tg, ast.Subscript) and self.self_attr(tg.value) and tg.value.attr in SELF_FIELD:
            d, dty = self.e(tg.value)
            if not (isinstance(dty, tuple) and dty[0] == "D"):
                raise Unsupported(f"item assignment on {dty}")
            k = self.coerce(*self.e(tg.slice), "Nat")
            self.e(value)                       # the stored object is reduced to its key; it must still be a known value
            pre = self.take_pre()
            return self.wrap(pre, self.set_state(dty[1], f"dictSet {d} {k}", rest, ctx), ctx)
        raise Unsupported("assignment target")

    def reassigns_net(self, stmts):
        for x in self.walk_stmts(stmts):
            if isinstance(x, (ast.Assign, ast.AnnAssign)):
                for t in (x.targets if isinstance(x, ast.Assign) else [x.target]):
                    if self.self_attr(t) and t.attr == "_lanelet_network":
                        return True
            if isinstance(x, ast.Expr) and isinstance(x.value, ast.Call) and self.self_attr(x.value.func) \
                    and x.value.func.attr in ("add_objects", "erase_lanelet_network", "replace_lanelet_network"):
                return True
        return False

    def infer_list_type(self, name, rest):
        """element type of a list that starts empty: from the first `name.append(x)` / `name += [..]` that follows"""
        for s in self.walk_stmts(rest):
            if isinstance(s, ast.Expr) and isinstance(s.value, ast.Call) and isinstance(s.value.func, ast.Attribute) \
                    and s.value.func.attr == "append" and isinstance(s.value.func.value, ast.Name) and s.value.func.value.id == name:
                return L(self.peek_type(s, s.value.args[0]))
        raise Unsupported(f"element type of {name}")

    def peek_type(self, stmt, expr):
        """type of `expr` inside a later statement: loop variables on the way are bound from their iterables"""
        saved_env, saved_pre = dict(self.env), list(self.pre)
        try:
            for node in self.enclosing_fors(stmt):
                _, ity = self.e(node.iter)
                self.env[node.target.id] = self.elem_type(ity)
            return self.e(expr)[1]
        finally:
            self.env, self.pre = saved_env, saved_pre

    def enclosing_fors(self, stmt):
        fn = find_func(self.tree, "Scenario", self.t.func)
        path = []

        def rec(stmts, acc):
            for s in stmts:
                if s is stmt:
                    path.extend(acc)
                    return True
                if isinstance(s, ast.For) and isinstance(s.target, ast.Name):
                    if rec(s.body, acc + [s]):
                        return True
                elif isinstance(s, ast.If):
                    if rec(s.body, acc) or rec(s.orelse, acc):
                        return True
            return False
        rec(fn.body, [])
        return path

    def call_stmt(self, c, rest, ctx):
        f = c.func
        if not isinstance(f, ast.Attribute) or c.keywords:
            raise Unsupported(f"call statement {self.dotted(f)}")
        # self.<translated procedure>(...)
        if self.self_attr(f):
            if f.attr in DROPPED_PROCS:
                return self.block(rest, ctx)
            t = self.proc_for(f.attr, c.args)
            if t is None:
                raise Unsupported(f"call of self.{f.attr}")
            args = self.args_for(t, c.args)
            pre = self.take_pre()
            return self.wrap(pre, self.try_(f"{t.name} s{''.join(' ' + a for a in args)}", rest, ctx), ctx)
        recv, rty = self.e(f.value)
        if rty == "Reg":
            pre = self.take_pre()
            return self.wrap(pre, self.block(rest, ctx), ctx)
        # updates of self._id_set
        if self.self_attr(f.value) and f.value.attr == "_id_set" and len(c.args) == 1:
            a, ta = self.e(c.args[0])
            pre = self.take_pre()
            if f.attr == "add":
                return self.wrap(pre, self.set_state("idSet", f"PyC09.setAdd s.idSet {self.coerce(a, ta, 'Nat')}", rest, ctx), ctx)
            if f.attr == "discard":
                return self.wrap(pre, self.set_state("idSet", f"PyC09.setDel s.idSet {self.coerce(a, ta, 'Nat')}", rest, ctx), ctx)
            if f.attr == "remove":
                return self.wrap(pre, self.try_(f"PyC09.idSetRemove s {self.coerce(a, ta, 'Nat')}", rest, ctx), ctx)
            if f.attr == "difference_update":
                return self.wrap(pre, self.set_state("idSet", f"PyC09.setDiffUpdate s.idSet {self.coerce(a, ta, S)}", rest, ctx), ctx)
            raise Unsupported(f"_id_set.{f.attr}")
        # in-place updates of the lanelet network held by the scenario
        if rty == "Net" and f.attr in NET_UPDATE and self.own_net(f.value):
            tmpl, atys = NET_UPDATE[f.attr]
            if len(c.args) != len(atys):
                raise Unsupported(f"arity of {f.attr}")
            args = [self.coerce(*self.e(a), want) for a, want in zip(c.args, atys)]
            pre = self.take_pre()
            return self.wrap(pre, self.set_state("net", tmpl.format(*args, x=recv), rest, ctx), ctx)
        # updates of local sets / lists
        if isinstance(f.value, ast.Name) and f.value.id in self.env and len(c.args) == 1:
            name, ty = f.value.id, self.env[f.value.id]
            a, ta = self.e(c.args[0])
            pre = self.take_pre()
            v = self.local(name)
            if self.local(name) not in ctx.vars and not ctx.func:
                raise Unsupported(f"update of {name} which is not threaded through the loop")
            if ty == S and f.attr == "add":
                return self.wrap(pre, f"let {v} : List Nat := PyC09.setAdd {v} {self.coerce(a, ta, 'Nat')}\n{self.block(rest, ctx)}", ctx)
            if ty == S and f.attr == "discard":
                return self.wrap(pre, f"let {v} : List Nat := PyC09.setDel {v} {self.coerce(a, ta, 'Nat')}\n{self.block(rest, ctx)}", ctx)
            if isinstance(ty, tuple) and ty[0] == "L" and f.attr == "append":
                if ta != ty[1] and not self.compatible(ta, ty[1]):
                    raise Unsupported(f"append of {ta} to list of {ty[1]}")
                return self.wrap(pre, f"let {v} : {lean_type(ty)} := {v} ++ [{a}]\n{self.block(rest, ctx)}", ctx)
        raise Unsupported(f"call statement {self.dotted(f)}")

    def if_(self, s, rest, ctx):
        c, _ = self.e(s.test)
        pre = self.take_pre()
        save_env, save_narrow = dict(self.env), dict(self.narrow)

        def branch(stmts, outcome, with_rest):
            self.env, self.narrow = dict(save_env), dict(save_narrow)
            self.narrow.update(self.narrowings(s.test, outcome))
            return self.block(list(stmts) + (rest if with_rest else []), ctx)

        if c in ("true", "false"):
            taken = s.body if c == "true" else s.orelse
            other_terminates = self.terminates(s.orelse if c == "true" else s.body)
            self.narrow.update(self.narrowings(s.test, c == "true"))
            out = self.block(list(taken) + ([] if self.terminates(taken) else rest), ctx)
            _ = other_terminates
            return out
        both = list(s.body) + list(s.orelse)
        simple = not self.may_raise(both) and not any(isinstance(x, ast.For) for x in self.walk_stmts(both))
        if simple and not pre:
            vars_ = (["s"] if self.mutates_state(both) else []) + [self.local(v) for v in self.assigned_locals(both)]
            if not vars_:
                # nothing modelled happens in either branch
                self.env, self.narrow = save_env, save_narrow
                return self.block(rest, ctx)
            if all(v in ctx.vars or ctx.func or v == "s" for v in vars_):
                inner = Ctx(vars_, pure=True)
                self.env, self.narrow = dict(save_env), dict(save_narrow)
                self.narrow.update(self.narrowings(s.test, True))
                a = self.block(list(s.body), inner)
                self.env, self.narrow = dict(save_env), dict(save_narrow)
                self.narrow.update(self.narrowings(s.test, False))
                b = self.block(list(s.orelse), inner)
                self.env, self.narrow = dict(save_env), dict(save_narrow)
                if len(vars_) == 1:
                    head = f"let {vars_[0]} := if {c} then (\n{a}) else (\n{b})\n"
                else:
                    head = f"let st := if {c} then (\n{a}) else (\n{b})\n" + unpack(vars_)
                return head + self.block(rest, ctx)
        a = branch(s.body, True, not self.terminates(s.body))
        b = branch(s.orelse, False, not (s.orelse and self.terminates(s.orelse)))
        self.env, self.narrow = save_env, save_narrow
        # narrowing that survives the statement: `if x is None or ..: return`
        if self.terminates(s.body) and not s.orelse:
            self.narrow.update(self.narrowings(s.test, False))
        return self.wrap(pre, f"if {c} then (\n{a}) else (\n{b})", ctx)

    def for_(self, s, rest, ctx):
        it, ity = self.e(s.iter)
        pre = self.take_pre()
        ety = self.elem_type(ity)
        x = self.local(s.target.id)
        body = list(s.body)
        saved = self.env.get(s.target.id)
        self.env[s.target.id] = ety
        mut, rz = self.mutates_state(body), self.may_raise(body)
        locs = [self.local(v) for v in self.assigned_locals(body)]
        for v in locs:
            if v not in ctx.vars and not ctx.func:
                raise Unsupported(f"loop updates {v} which the enclosing loop does not thread")
        env0 = dict(self.env)
        if not mut and not rz:
            if not locs:
                text = self.block(rest, ctx)            # nothing modelled happens in the loop
            else:
                inner = Ctx(locs, pure=True)
                b = self.block(body, inner)
                self.env = env0
                lam = f"fun {inner.pack() if len(locs) == 1 else 'st'} {x} =>\n{unpack(locs)}{b}"
                head = f"let {inner.pack() if len(locs) == 1 else 'st'} := ({it}).foldl ({lam}) {inner.pack()}\n"
                text = head + (unpack(locs) if len(locs) > 1 else "") + self.block(rest, ctx)
        else:
            vars_ = (["s"] if mut else []) + locs
            if not vars_:
                vars_ = ["s"] if "s" in ctx.vars else list(ctx.vars)
            inner = Ctx(vars_)
            src = s.iter
            while isinstance(src, ast.Call) and self.dotted(src.func) in ("list", "tuple") and len(src.args) == 1:
                src = src.args[0]                       # a copy of the list still holds the same (mutable) lanelet objects
            live = mut and ety == "Lanelet" and isinstance(src, ast.Attribute) and src.attr == "lanelets" \
                and self.e(src.value)[0] == "s.net"
            b = self.block(body, inner)
            self.env = env0
            st = inner.pack() if len(vars_) == 1 else "st"
            if live:
                if vars_ != ["s"]:
                    raise Unsupported("loop over the scenario's own lanelets with local accumulators")
                lam = f"fun s k_ => PyC09.withLanelet s k_ (fun {x} =>\n{b})"
                it = f"({it}).map (·.id)"
            else:
                lam = f"fun {st} {x} =>\n{unpack(vars_)}{b}"
            after = self.block(rest, ctx)
            if ctx.pure:
                raise Unsupported("raising loop in a construct translated as pure")
            text = (f"PyC09.tryE (PyC09.forE ({lam}) {inner.pack()} ({it})) (fun {st} =>\n{unpack(vars_)}{after}) "
                    f"(fun {st} o_ =>\n{unpack(vars_)}({ctx.pack()}, o_))")
        if saved is None:
            self.env.pop(s.target.id, None)
        else:
            self.env[s.target.id] = saved
        return self.wrap(pre, text, ctx)

    # ------------------------------------------------------------------ whole function
    def function(self):
        t = self.t
        fn = find_func(self.tree, "Scenario", t.func)
        is_static = any(self.dotted(d) == "staticmethod" for d in fn.decorator_list)
        if is_static != t.static:
            raise Unsupported("staticmethod-ness changed")
        names = [a.arg for a in fn.args.args if a.arg != "self"]
        if names != [p for p, _ in t.params] or fn.args.vararg or fn.args.kwarg or fn.args.kwonlyargs:
            raise Unsupported(f"parameters {names}")
        for p, ty in t.params:
            self.env[p] = ty
        binders = "".join(f" ({self.local(p)} : {lean_type(ty)})" for p, ty in t.params)
        if t.kind == "pure":
            ctx = Ctx(["s"], pure=True, func=True, ret=t.ret)
            body = self.block(list(fn.body), ctx)
            head = f"def {t.name}{'' if t.static else ' (s : St)'}{binders} : {lean_type(t.ret)} :=\n"
        else:
            ctx = Ctx(["s"], func=True)
            body = self.block(list(fn.body), ctx)
            head = f"def {t.name} (s : St){binders} : St × Out :=\n"
        doc = f"/-- {FILE}: Scenario.{t.func}{(' — ' + t.doc) if t.doc else ''} -/\n"
        return doc + head + indent(body) + "\n"


def indent(text):
    """indent by nesting depth of parentheses (cosmetic; Lean does not depend on it here)"""
    out, depth = [], 1
    for line in text.split("\n"):
        line = line.strip()
        if not line:
            continue
        lead = 0
        for ch in line:
            if ch in ")]}":
                lead += 1
            else:
                break
        out.append("  " * max(1, depth - lead) + line)
        depth += sum(1 for ch in line if ch in "([{") - sum(1 for ch in line if ch in ")]}")
    return "\n".join(out)


def translate_target(tree, t: T9, all_targets) -> str:
    return Tr9(t, tree, all_targets).function()


HEADER = """/-
  Gen.SrcC09 — GENERATED on every run by harness/translate/src_c09.py from the current source of
  commonroad/scenario/scenario.py. Do not edit.
-/
import CRModel.PyExtC09
set_option linter.unusedVariables false
namespace Gen
open CR CR.IdPool

"""


def regenerate(repo, gen_dir):
    os.makedirs(gen_dir, exist_ok=True)
    os.makedirs(LASTGOOD, exist_ok=True)
    status, chunks = {}, []
    ts = targets()
    try:
        tree = ast.parse(open(os.path.join(repo, FILE), encoding="utf-8").read())
        err = None
    except (OSError, SyntaxError) as e:
        tree, err = None, e
    for t in ts:
        lg = os.path.join(LASTGOOD, PREFIX + t.name + ".lean")
        try:
            if tree is None:
                raise Unsupported(f"source not readable: {err}")
            txt = translate_target(tree, t, ts)
            status[t.name] = "ok"
        except (Unsupported, SyntaxError, KeyError, IndexError, AttributeError, TypeError, ValueError, OSError, RecursionError) as e:
            if os.path.exists(lg):
                txt = open(lg).read()
                status[t.name] = f"lost ({type(e).__name__}: {e}); last good translation used"
            else:
                txt = f"-- {t.name}: not translatable ({e})\n"
                status[t.name] = f"lost ({type(e).__name__}: {e}); no fallback"
        chunks.append(txt)
    new = HEADER + "\n".join(chunks) + "\nend Gen\n"
    path = os.path.join(gen_dir, OUT)
    old = open(path).read() if os.path.exists(path) else None
    if old != new:
        with open(path, "w") as f:
            f.write(new)
    return status


def update_lastgood(repo):
    os.makedirs(LASTGOOD, exist_ok=True)
    ts = targets()
    tree = ast.parse(open(os.path.join(repo, FILE), encoding="utf-8").read())
    for t in ts:
        open(os.path.join(LASTGOOD, PREFIX + t.name + ".lean"), "w").write(translate_target(tree, t, ts))


if __name__ == "__main__":
    import sys
    repo = os.environ.get("VERIF_REPO", "/repo")
    if len(sys.argv) > 1 and sys.argv[1] == "--update-lastgood":
        update_lastgood(repo)
    here = os.path.dirname(os.path.abspath(__file__))
    st = regenerate(repo, os.path.join(os.path.dirname(os.path.dirname(here)), "lean", "Gen"))
    for k, v in st.items():
        print(k, v)
