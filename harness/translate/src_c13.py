"""py -> Lean translator for the benchmark-id code (property C13; the 'T' tie of DESIGN.md §2).

`regenerate(repo, gen_dir)` reads the CURRENT source of

    commonroad/scenario/scenario.py   class ScenarioID: benchmark_id_pattern (regex text), __init__ (+ its signature
                                      defaults), the map_name / country_id setters, __str__, from_benchmark_id,
                                      the attribute lists of __eq__ / __hash__
    commonroad/common/solution.py     PlanningProblemSolution.vehicle_id / cost_id, Solution.vehicle_ids / cost_ids /
                                      benchmark_id, CommonRoadSolutionReader._parse_benchmark_id / _parse_vehicle_id,
                                      the enums VehicleModel / VehicleType / CostFunction / SupportedCostFunctions
    commonroad/__init__.py            SCENARIO_VERSION, SUPPORTED_COMMONROAD_VERSIONS

with `ast` and writes Lean definitions to `<gen_dir>/SrcC13.lean` (module `Gen.SrcC13`, namespace `Gen`).
lean/CRProps/T13.lean proves each of them equal to the hand model CRModel/BenchId.lean, so `lake build` re-checks the
tie against what the code says NOW.  A target that cannot be translated any more is not a verdict: its last good
translation (harness/translate/lastgood/C13_<name>.lean) is emitted and the status says `lost`.

Two styles: *functional translation* by a typed translator (`TrS`, a `Tr` subclass: every expression carries a type —
Str, Int, Bool, None, Option T, List T, the scalar union Sc, the scalar-or-list union PV, enums, objects — so that
`+`, `str()`, `==`, `in`, `or`, list displays of mixed parts, `x is None` flow narrowing, comprehensions, f-strings,
`%`-formatting, `sep.join`, `split`, slices, `re.sub` with a character class, `raise`, keyword / default arguments of a
constructor call are rendered over the vocabulary of CRModel/PyExtC13.lean), and *structural extraction* (regex text ->
`RX` term, enum member tables, constants, signature defaults, compared / hashed attribute lists).
"""
from __future__ import annotations

import ast
import os

from .pysrc import LASTGOOD, Target, Tr, Unsupported, find_func  # noqa: F401

HERE = os.path.dirname(os.path.abspath(__file__))
SC_FILE = "commonroad/scenario/scenario.py"
SOL_FILE = "commonroad/common/solution.py"
INIT_FILE = "commonroad/__init__.py"

KEYWORDS = {"match", "end", "from", "type", "at", "by", "do", "then", "else", "fun", "let", "in", "if", "show", "have",
            "where", "with", "open", "id", "prefix", "local"}

SCALARS = {"Str", "Int", "None", "opt:Int", "opt:Str", "Sc"}
EXC = {"ValueError": "value", "AssertionError": "assert", "KeyError": "key", "IndexError": "index", "TypeError": "type",
       "AttributeError": "attr", "SolutionReaderException": "other", "SolutionException": "other"}


def chars(s: str) -> str:
    """a Python str as a Lean `List Char` literal"""
    def one(c):
        if c == "'":
            return "'\\''"
        if c == "\\":
            return "'\\\\'"
        if c == "\n":
            return "'\\n'"
        if c == "\t":
            return "'\\t'"
        if 32 <= ord(c) < 127:
            return f"'{c}'"
        return f"(Char.ofNat {ord(c)})"
    return "([" + ", ".join(one(c) for c in s) + "] : Str)"


def lty(t: str) -> str:
    """Lean text of a type tag"""
    if t.startswith("opt:"):
        return f"Option ({lty(t[4:])})"
    if t.startswith("list:"):
        return f"List ({lty(t[5:])})"
    if t.startswith("tuple:"):
        return " × ".join(f"({lty(x)})" for x in t[6:].split("|"))
    if t.startswith("enum:"):
        return "CR.BenchId." + t[5:]
    if t.startswith("obj:"):
        return {"Id": "CR.BenchId.Id", "SId": "CR.PyC13.SId", "Groups": "CR.BenchId.Groups", "Pps": "CR.BenchId.Pps"}[t[4:]]
    return {"Str": "Str", "Int": "Int", "Bool": "Bool", "Sc": "CR.PyC13.Sc", "PV": "CR.PyC13.PV", "Char": "Char", "Unit": "Unit"}[t]


# ------------------------------------------------------------------------------------------------ regex fragment
def parse_class(p, i):
    """p[i] == '[': returns (neg, ranges, next index)"""
    i += 1
    neg = False
    if p[i] == "^":
        neg, i = True, i + 1
    items = []
    while p[i] != "]":
        c = p[i]
        if c == "\\":
            i += 1
            c = p[i]
            if c.isalnum():
                raise Unsupported(f"regex escape \\{c}")
        items.append(c)
        i += 1
        if p[i] == "-" and p[i + 1] != "]":
            hi = p[i + 1]
            if hi == "\\":
                raise Unsupported("regex escape in range")
            items[-1] = (c, hi)
            i += 2
    return neg, [x if isinstance(x, tuple) else (x, x) for x in items], i + 1


def rx_ranges(rs):
    def ch(c):
        return chars(c)[2:-8]   # one quoted char
    return "[" + ", ".join(f"({ch(a)}, {ch(b)})" for a, b in rs) + "]"


def parse_regex(p: str) -> str:
    """the `re` fragment of PyExtC13.RX -> Lean RX term.  A group holding a single item is transparent for sequencing
    (its `{n}` copies are spliced into the enclosing sequence); sequences nest to the right."""
    pos = 0

    def seq(stop):
        nonlocal pos
        items = []
        while pos < len(p) and p[pos] not in stop:
            items.extend(item())
        return items

    def item():
        nonlocal pos
        c = p[pos]
        if c == "(":
            pos += 1
            name = ""
            if p.startswith("?P<", pos):
                j = p.index(">", pos)
                name = p[pos + 3:j]
                pos = j + 1
            elif p[pos] == "?":
                raise Unsupported("regex group extension")
            inner = seq(")|")
            if pos >= len(p) or p[pos] != ")":
                raise Unsupported("regex alternation / unbalanced group")
            pos += 1
            atoms = [f'(.group "{name}" {fold(inner)})']
            single = len(inner) == 1
        elif c == "[":
            neg, rs, pos = parse_class(p, pos)
            if neg:
                raise Unsupported("negated class inside a pattern")
            atoms, single = [f"(.cls {rx_ranges(rs)})"], True
        elif c == "\\":
            if p[pos + 1].isalnum():
                raise Unsupported(f"regex escape \\{p[pos + 1]}")
            atoms, single = [f"(.chr {chars(p[pos + 1])[2:-8]})"], True
            pos += 2
        elif c in ".^$|*+?{}":
            raise Unsupported(f"regex metacharacter {c}")
        else:
            atoms, single = [f"(.chr {chars(c)[2:-8]})"], True
            pos += 1
        _ = single
        # postfix operators
        while pos < len(p) and p[pos] in "?*+{":
            a = atoms[0] if len(atoms) == 1 else fold(atoms)
            q = p[pos]
            if q == "?":
                atoms, pos = [f"(.alt {a} .eps)"], pos + 1
            elif q == "*":
                atoms, pos = [f"(.star {a})"], pos + 1
            elif q == "+":
                atoms, pos = [f"(.seq {a} (.star {a}))"], pos + 1
            else:
                j = p.index("}", pos)
                n = int(p[pos + 1:j])
                if n < 1:
                    raise Unsupported("regex {0}")
                atoms, pos = [a] * n, j + 1
            if pos < len(p) and p[pos] in "?+" and q != "{":
                raise Unsupported("lazy / possessive quantifier")
        return atoms

    def fold(items):
        if not items:
            return ".eps"
        out = items[-1]
        for x in reversed(items[:-1]):
            out = f"(.seq {x} {out})"
        return out

    def splice_groups(items):
        return items

    items = seq("|")
    if pos != len(p):
        raise Unsupported("regex alternation at top level")
    # a named group whose body is `{n}` copies of one atom: splice the copies into the sequence (keeps the group on the first)
    return fold(splice_groups(items))


def const_str(n):
    """a (possibly implicitly concatenated) string constant"""
    if isinstance(n, ast.Constant) and isinstance(n.value, str):
        return n.value
    raise Unsupported("not a string constant")


# ------------------------------------------------------------------------------------------------ typed translator
class T13(Target):
    """Target with typed parameters.  tparams: [(python name | None, lean name, type tag | raw lean binder type)]"""

    def __init__(self, name, file, func, cls=None, tparams=(), ret="Str", tattrs=None, tnames=None, tcalls=None,
                 monadic=False, setter=False, doc="", finish=None, setters=None, int_total=False, ctor_env=None,
                 stop_before=None):
        params = [(p, f"{ln} : {lty(ty) if ty in TYPE_TAGS or ':' in ty else ty}") for p, ln, ty in tparams]
        super().__init__(name, file, func, cls, params=params, ret=ret, monadic=monadic, setter=setter, doc=doc)
        self.tparams = list(tparams)
        self.tattrs = tattrs or {}       # (var, attr) -> (lean text, type)
        self.tnames = tnames or {}       # dotted global name -> (lean text, type)
        self.tcalls = tcalls or {}       # dotted callee -> (lean fn, [param types], ret type, monadic)
        self.finish = finish             # how a path that falls off the end returns: ("attr", "self._x") / ("obj", template, fields)
        self.setters = setters or {}     # attr with a property setter -> (lean fn text, backing attr, value type, ret type, monadic)
        self.int_total = int_total       # `int(s)` on regex digit groups
        self.ctor_env = ctor_env or {}   # constructor calls: class name -> (lean fn, [(param, type)], ret type, monadic)
        self.ret_self = False
        self.stop_before = stop_before   # translate the statements before the first one that mentions this name


TYPE_TAGS = {"Str", "Int", "Bool", "Sc", "PV", "Char", "Unit"}


class TrS(Tr):
    """typed translator: `te(node, env) -> (lean text, type tag)`"""

    def __init__(self, t: T13, tree: ast.Module):
        super().__init__(t)
        self.tree = tree
        self.fresh = 0

    # ------------------------------------------------------------ helpers
    def ident(self, name):
        name = name.replace(".", "_")
        return name + "_" if name in KEYWORDS else name

    def co(self, txt, frm, to):
        if frm == to:
            return txt
        if to.startswith("opt:"):
            if frm == "None":
                return "none"
            if frm == to[4:]:
                return f"(some {txt})"
        if to == "Sc":
            m = {"None": "CR.PyC13.Sc.none", "Int": f"(CR.PyC13.Sc.int {txt})", "Str": f"(CR.PyC13.Sc.str {txt})",
                 "opt:Int": f"(CR.PyC13.Sc.ofOptInt {txt})", "opt:Str": f"(CR.PyC13.Sc.ofOptStr {txt})"}
            if frm in m:
                return m[frm]
        if to == "PV":
            if frm in SCALARS:
                return f"(CR.PyC13.PV.sc {self.co(txt, frm, 'Sc')})"
            if frm == "list:Sc":
                return f"(CR.PyC13.PV.list {txt})"
            if frm == "list:Int":
                return f"(CR.PyC13.PV.list (({txt}).map CR.PyC13.Sc.int))"
            if frm == "list:Str":
                return f"(CR.PyC13.PV.list (({txt}).map CR.PyC13.Sc.str))"
        raise Unsupported(f"no coercion {frm} -> {to}")

    def unify(self, tys):
        s = set(tys)
        if len(s) == 1:
            return tys[0]
        core = s - {"None"}
        if len(core) == 1:
            t = next(iter(core))
            return t if t.startswith("opt:") or t in ("Sc", "PV") else "opt:" + t
        if len(core) == 2:
            a, b = sorted(core, key=len)
            if b == "opt:" + a:
                return b
        if s <= SCALARS:
            return "Sc"
        if all(x in SCALARS or x in ("PV", "list:Sc", "list:Int", "list:Str") for x in s):
            return "PV"
        raise Unsupported(f"no common type for {sorted(s)}")

    def sub(self):
        """run a sub-translation and report whether it used a bind"""
        class _Ctx:
            def __enter__(c):
                c.before = self.uses_bind
                self.uses_bind = False
                return c

            def __exit__(c, *a):
                c.used = self.uses_bind
                self.uses_bind = c.before or c.used
        return _Ctx()

    def lifted(self, txt, used):
        return f"(do return {txt})" if used else f"(pure {txt})"

    def lookup(self, n, env):
        """typed value of a Name / Attribute read, or None"""
        t = self.t
        if isinstance(n, ast.Name):
            if n.id in env:
                return env[n.id]
            if n.id in t.tnames:
                return t.tnames[n.id]
            return None
        if isinstance(n, ast.Attribute):
            d = self.dotted(n)
            if d in env:
                return env[d]
            key = (self.base_name(n.value), n.attr)
            if key in t.tattrs:
                return t.tattrs[key]
            if d in t.tnames:
                return t.tnames[d]
        return None

    def narrow_key(self, n):
        if isinstance(n, ast.Name):
            return n.id
        if isinstance(n, ast.Attribute) and "?" not in self.dotted(n):
            return self.dotted(n)
        if isinstance(n, ast.Subscript) and isinstance(n.slice, ast.Constant) and isinstance(n.value, ast.Name):
            return f"{n.value.id}[{n.slice.value!r}]"
        return None

    def is_none_test(self, n):
        """`X is None` / `X is not None` -> (X node, positive?) else None"""
        if isinstance(n, ast.Compare) and len(n.ops) == 1 and isinstance(n.ops[0], (ast.Is, ast.IsNot)) \
                and isinstance(n.comparators[0], ast.Constant) and n.comparators[0].value is None:
            return n.left, isinstance(n.ops[0], ast.Is)
        return None

    # ------------------------------------------------------------ expressions
    def te(self, n, env):
        t = self.t
        if isinstance(n, ast.Constant):
            v = n.value
            if v is None:
                return "none", "None"
            if isinstance(v, bool):
                return ("true" if v else "false"), "Bool"
            if isinstance(v, int):
                return f"({v} : Int)", "Int"
            if isinstance(v, str):
                return chars(v), "Str"
            raise Unsupported(f"constant {v!r}")
        if isinstance(n, (ast.Name, ast.Attribute)):
            k = self.narrow_key(n)
            if k is not None and k in env:
                if env[k][1] == "list:?":
                    raise Unsupported("empty list of unknown element type")
                return env[k]
            r = self.lookup(n, env)
            if r is not None:
                return r
            if isinstance(n, ast.Attribute):
                base, bty = self.te(n.value, env)
                return self.attr_of(base, bty, n.attr)
            raise Unsupported(f"name {self.dotted(n)}")
        if isinstance(n, ast.JoinedStr):
            parts = []
            for v in n.values:
                if isinstance(v, ast.Constant):
                    parts.append(chars(v.value))
                elif isinstance(v, ast.FormattedValue) and v.conversion == -1 and v.format_spec is None:
                    parts.append(self.py_str(*self.te(v.value, env)))
                else:
                    raise Unsupported("f-string conversion / format spec")
            return "(" + " ++ ".join(parts) + ")", "Str"
        if isinstance(n, ast.UnaryOp) and isinstance(n.op, ast.Not):
            return f"(!{self.tbool(n.operand, env)})", "Bool"
        if isinstance(n, ast.UnaryOp) and isinstance(n.op, ast.USub):
            a, ty = self.te(n.operand, env)
            if ty != "Int":
                raise Unsupported("unary minus on a non-int")
            return f"(-{a})", "Int"
        if isinstance(n, ast.BinOp):
            return self.binop(n, env)
        if isinstance(n, ast.BoolOp):
            return self.boolop(n, env)
        if isinstance(n, ast.Compare):
            return self.compare(n, env)
        if isinstance(n, ast.IfExp):
            return self.ifexp(n, env)
        if isinstance(n, ast.Call):
            return self.tcall(n, env)
        if isinstance(n, ast.Subscript):
            return self.subscript(n, env)
        if isinstance(n, ast.List):
            return self.list_display(n, env)
        if isinstance(n, ast.Tuple):
            parts = [self.te(x, env) for x in n.elts]
            return "(" + ", ".join(p[0] for p in parts) + ")", "tuple:" + "|".join(p[1] for p in parts)
        if isinstance(n, (ast.ListComp, ast.GeneratorExp)):
            return self.comprehension(n, env)
        raise Unsupported(f"expression {type(n).__name__}")

    def attr_of(self, base, bty, attr):
        if bty.startswith("enum:"):
            if attr == "name":
                return f"({base}).name", "Str"
            if attr == "value" and bty == "enum:VType":
                return f"((({base}).value : Nat) : Int)", "Int"
        table = {("obj:Id", "scenario_version"): (".version", "Str"),
                 ("obj:Pps", "vehicle_model"): (".model", "enum:VModel"), ("obj:Pps", "vehicle_type"): (".vtype", "enum:VType"),
                 ("obj:Pps", "cost_function"): (".cost", "enum:Cost"), ("obj:Pps", "planning_problem_id"): (".pid", "Int")}
        if (bty, attr) in table:
            f, ty = table[(bty, attr)]
            return f"({base}){f}", ty
        prop = {("obj:Pps", "vehicle_id"): ("PlanningProblemSolution_vehicle_id ({b}).model ({b}).vtype", "Str"),
                ("obj:Pps", "cost_id"): ("PlanningProblemSolution_cost_id ({b}).cost", "Str")}
        if (bty, attr) in prop and (bty, attr) in self.t.tcalls:
            f, ty = prop[(bty, attr)]
            return "(" + f.format(b=base) + ")", ty
        raise Unsupported(f"attribute .{attr} of a {bty}")

    def py_str(self, txt, ty):
        """`str(x)`"""
        if ty == "Str":
            return txt
        if ty == "Int":
            return f"(CR.BenchId.intRepr {txt})"
        if ty in SCALARS:
            return f"(CR.PyC13.Sc.pyStr {self.co(txt, ty, 'Sc')})"
        if ty == "obj:Id" and "str:Id" in self.t.tcalls:
            self.uses_bind = True
            return f"(← {self.t.tcalls['str:Id'][0]} {txt})"
        raise Unsupported(f"str() of a {ty}")

    def tbool(self, n, env):
        txt, ty = self.te(n, env)
        if ty == "Bool":
            return txt
        if ty.startswith("opt:obj") or ty.startswith("opt:tuple"):
            return f"({txt}).isSome"
        if ty == "PV":
            return f"(CR.PyC13.PV.truthy {txt})"
        if ty in SCALARS:
            return f"(CR.PyC13.Sc.truthy {self.co(txt, ty, 'Sc')})"
        if ty.startswith("list:"):
            return f"(!({txt}).isEmpty)"
        raise Unsupported(f"truth value of a {ty}")

    def binop(self, n, env):
        if isinstance(n.op, ast.Mod) and isinstance(n.left, ast.Constant) and isinstance(n.left.value, str):
            fmt = n.left.value
            args = list(n.right.elts) if isinstance(n.right, ast.Tuple) else [n.right]
            pieces = fmt.split("%s")
            if "%" in "".join(pieces) or len(pieces) != len(args) + 1:
                raise Unsupported("%-format other than %s")
            out = []
            for i, p in enumerate(pieces):
                if p:
                    out.append(chars(p))
                if i < len(args):
                    out.append(self.py_str(*self.te(args[i], env)))
            return "(" + " ++ ".join(out or ["([] : Str)"]) + ")", "Str"
        a, ta = self.te(n.left, env)
        b, tb = self.te(n.right, env)
        if isinstance(n.op, ast.Add):
            if ta == tb == "Str" or (ta == tb and ta.startswith("list:")):
                return f"({a} ++ {b})", ta
            if ta == tb == "Int":
                return f"({a} + {b})", "Int"
        if isinstance(n.op, ast.Sub) and ta == tb == "Int":
            return f"({a} - {b})", "Int"
        raise Unsupported(f"{type(n.op).__name__} on {ta}, {tb}")

    def boolop(self, n, env):
        is_or = isinstance(n.op, ast.Or)
        first, t0 = self.te(n.values[0], env)
        if t0 != "Bool":
            # value-`or`: `x or default`
            if is_or and len(n.values) == 2:
                b, tb = self.te(n.values[1], env)
                if t0 == "PV":
                    return f"(CR.PyC13.PV.orElse {first} {self.co(b, tb, 'PV')})", "PV"
                if t0 == "opt:Int" and tb == "Int":
                    return f"(CR.PyC13.optIntOr {first} {b})", "Int"
                if t0 == "None":
                    return b, tb
            raise Unsupported(f"and/or on a {t0}")
        acc = None
        # right to left so that a partial right operand is only evaluated when Python evaluates it
        vals = list(n.values)
        with self.sub() as c:
            last = self.tbool(vals[-1], env)
        acc, acc_m = last, c.used
        for v in reversed(vals[:-1]):
            with self.sub() as c:
                x = self.tbool(v, env)
            if c.used:
                raise Unsupported("partial operand left of a partial and/or")
            if acc_m:
                short = "pure true" if is_or else "pure false"
                acc = f"(if {x} then {short} else (do return {acc}))" if is_or else f"(if {x} then (do return {acc}) else {short})"
            else:
                acc = f"({x} || {acc})" if is_or else f"({x} && {acc})"
        if acc_m:
            self.uses_bind = True
            return f"(← {acc})", "Bool"
        return acc, "Bool"

    def compare(self, n, env):
        if len(n.ops) != 1:
            raise Unsupported("chained comparison")
        op, left, right = n.ops[0], n.left, n.comparators[0]
        nt = self.is_none_test(n)
        if nt is not None:
            x, ty = self.te(nt[0], env)
            pos = nt[1]
            if ty == "None":
                return ("true" if pos else "false"), "Bool"
            if ty.startswith("opt:"):
                return (f"({x}).isNone" if pos else f"({x}).isSome"), "Bool"
            if ty == "PV":
                return (f"(CR.PyC13.PV.isNone {x})" if pos else f"(!CR.PyC13.PV.isNone {x})"), "Bool"
            if ty == "Sc":
                return (f"(CR.PyC13.Sc.isNone {x})" if pos else f"(!CR.PyC13.Sc.isNone {x})"), "Bool"
            return ("false" if pos else "true"), "Bool"
        if isinstance(op, (ast.Is, ast.IsNot)) and isinstance(right, ast.Constant) and isinstance(right.value, bool):
            x, ty = self.te(left, env)
            if ty != "Bool":
                raise Unsupported("`is True` on a non-bool")
            r = x if right.value else f"(!{x})"
            return (r if isinstance(op, ast.Is) else f"(!{r})"), "Bool"
        if isinstance(op, (ast.In, ast.NotIn)):
            x, tx = self.te(left, env)
            if isinstance(right, (ast.List, ast.Tuple, ast.Set)):
                parts = [self.te(e, env) for e in right.elts]
                ty = self.unify([tx] + [p[1] for p in parts])
                lst = "[" + ", ".join(self.co(p[0], p[1], ty) for p in parts) + "]"
                r = f"(({lst} : List ({lty(ty)})).contains {self.co(x, tx, ty)})"
            else:
                l, tl = self.te(right, env)
                if not tl.startswith("list:"):
                    raise Unsupported(f"`in` a {tl}")
                r = f"(({l}).contains {self.co(x, tx, tl[5:])})"
            return (r if isinstance(op, ast.In) else f"(!{r})"), "Bool"
        a, ta = self.te(left, env)
        b, tb = self.te(right, env)
        if isinstance(op, (ast.Eq, ast.NotEq)):
            ty = self.unify([ta, tb])
            r = f"decide ({self.co(a, ta, ty)} = {self.co(b, tb, ty)})"
            return (r if isinstance(op, ast.Eq) else f"(!{r})"), "Bool"
        sym = {ast.Lt: "<", ast.LtE: "≤", ast.Gt: ">", ast.GtE: "≥"}.get(type(op))
        if sym is None:
            raise Unsupported(f"comparison {type(op).__name__}")
        if ta == tb == "Int":
            return f"decide ({a} {sym} {b})", "Bool"
        if sym == ">" and tb == "Int" and ta in ("Sc", "opt:Int"):
            self.uses_bind = True
            f = "CR.PyC13.Sc.gt" if ta == "Sc" else "CR.PyC13.optGt"
            return f"(← {f} {a} {b})", "Bool"
        raise Unsupported(f"comparison {sym} on {ta}, {tb}")

    def ifexp(self, n, env):
        nt = self.is_none_test(n.test)
        if nt is not None:
            x, ty = self.te(nt[0], env)
            key = self.narrow_key(nt[0])
            if ty.startswith("opt:") and key is not None:
                v = f"v{self.fresh}"
                self.fresh += 1
                env_some = dict(env)
                env_some[key] = (v, ty[4:])
                env_none = dict(env)
                env_none[key] = ("none", "None")
                pos_none = nt[1]
                with self.sub() as c1:
                    a = self.te(n.body, env_none if pos_none else env_some)
                with self.sub() as c2:
                    b = self.te(n.orelse, env_some if pos_none else env_none)
                rty = self.unify([a[1], b[1]])
                ta, tb = self.co(a[0], a[1], rty), self.co(b[0], b[1], rty)
                some_txt, none_txt = (tb, ta) if pos_none else (ta, tb)
                some_used, none_used = (c2.used, c1.used) if pos_none else (c1.used, c2.used)
                if some_used or none_used:
                    self.uses_bind = True
                    return (f"(← (match {x} with | some {v} => {self.lifted(some_txt, some_used)} "
                            f"| none => {self.lifted(none_txt, none_used)} : Res ({lty(rty)})))"), rty
                return f"(match {x} with | some {v} => {some_txt} | none => {none_txt})", rty
        test = self.tbool(n.test, env)
        if test in ("true", "false"):
            return self.te(n.body if test == "true" else n.orelse, env)
        with self.sub() as c1:
            a = self.te(n.body, env)
        with self.sub() as c2:
            b = self.te(n.orelse, env)
        rty = self.unify([a[1], b[1]])
        ta, tb = self.co(a[0], a[1], rty), self.co(b[0], b[1], rty)
        if c1.used or c2.used:
            self.uses_bind = True
            return f"(← (if {test} then {self.lifted(ta, c1.used)} else {self.lifted(tb, c2.used)} : Res ({lty(rty)})))", rty
        return f"(if {test} then {ta} else {tb})", rty

    def list_display(self, n, env):
        parts = [self.te(e, env) for e in n.elts]
        if not parts:
            raise Unsupported("empty list display")
        if len(parts) == 1 and parts[0][1] == "PV":
            return f"(CR.PyC13.PV.list1 {parts[0][0]})", "PV"
        ty = self.unify([p[1] for p in parts])
        if ty == "None":
            ty = "Sc"
        return "[" + ", ".join(self.co(p[0], p[1], ty) for p in parts) + "]", "list:" + ty

    def iter_of(self, n, env):
        """the iterated list of a `for x in <n>`: (lean text, element type)"""
        if isinstance(n, ast.Name) and n.id in ENUMS and n.id not in env:
            return f"CR.BenchId.{ENUMS[n.id]}.all", "enum:" + ENUMS[n.id]
        txt, ty = self.te(n, env)
        if ty.startswith("list:"):
            return txt, ty[5:]
        if ty == "PV":
            self.uses_bind = True
            return f"(← CR.PyC13.PV.iter {txt})", "Sc"
        raise Unsupported(f"iteration over a {ty}")

    def comprehension(self, n, env):
        if len(n.generators) != 1 or not isinstance(n.generators[0].target, ast.Name) or n.generators[0].is_async:
            raise Unsupported("comprehension shape")
        g = n.generators[0]
        it, ety = self.iter_of(g.iter, env)
        var = self.ident(g.target.id)
        env2 = dict(env)
        env2[g.target.id] = (var, ety)
        for k in [k for k in env2 if k.startswith(g.target.id + ".") or k.startswith(g.target.id + "[")]:
            del env2[k]
        src = f"({it})"
        for cond in g.ifs:
            with self.sub() as c:
                ct = self.tbool(cond, env2)
            if c.used:
                raise Unsupported("partial filter in a comprehension")
            src = f"({src}.filter (fun {var} => {ct}))"
        with self.sub() as c:
            body, bty = self.te(n.elt, env2)
        if c.used:
            raise Unsupported("partial element expression in a comprehension")
        if body == var:
            return src, "list:" + bty
        return f"({src}.map (fun {var} => {body}))", "list:" + bty

    def subscript(self, n, env):
        k = self.narrow_key(n)
        if k is not None and k in env:
            return env[k]
        if isinstance(n.value, ast.Name) and n.value.id in ENUMS and n.value.id not in env:
            e = ENUMS[n.value.id]
            x, tx = self.te(n.slice, env)
            if tx != "Str":
                raise Unsupported("enum lookup by a non-str")
            self.uses_bind = True
            return f"(← CR.PyC13.enumByName CR.BenchId.{e}.all CR.BenchId.{e}.name {x})", "enum:" + e
        base, bty = self.te(n.value, env)
        if bty == "obj:Groups":
            if not isinstance(n.slice, ast.Constant):
                raise Unsupported("match group by a computed name")
            g = {"cooperative": (f"(if ({base}).coop then some {chars('C-')} else none)", "opt:Str"),
                 "country_id": (f"({base}).country", "Str"), "map_name": (f"({base}).mapName", "Str"),
                 "map_id": (f"({base}).mapId", "Str"), "configuration_id": (f"({base}).config", "opt:Str"),
                 "prediction_type": (f"(({base}).predType.map (fun c => [c]))", "opt:Str"),
                 "prediction_ids": (f"({base}).predIds", "opt:Str")}
            if n.slice.value not in g:
                raise Unsupported(f"unknown group {n.slice.value}")
            return g[n.slice.value]
        if isinstance(n.slice, ast.Slice):
            s = n.slice
            if s.step is not None or not (bty == "Str" or bty.startswith("list:")):
                raise Unsupported("slice")
            if s.upper is None and isinstance(s.lower, ast.Constant) and isinstance(s.lower.value, int) and s.lower.value >= 0:
                return f"(({base}).drop {s.lower.value})", bty
            if s.lower is None and isinstance(s.upper, ast.UnaryOp) and isinstance(s.upper.op, ast.USub) \
                    and isinstance(s.upper.operand, ast.Constant) and s.upper.operand.value == 1:
                return f"({base}).dropLast", bty
            raise Unsupported("slice bounds")
        i, ti = self.te(n.slice, env)
        if ti != "Int":
            raise Unsupported("index type")
        self.uses_bind = True
        if bty == "Str":
            return f"[(← CR.Py.getItem {base} {i})]", "Str"
        if bty.startswith("list:"):
            return f"(← CR.Py.getItem {base} {i})", bty[5:]
        raise Unsupported(f"indexing a {bty}")

    def resolve_const_str(self, n, env):
        if isinstance(n, ast.Constant) and isinstance(n.value, str):
            return n.value
        if isinstance(n, ast.Name) and ("const:" + n.id) in env:
            return env["const:" + n.id]
        raise Unsupported("regex pattern is not a constant")

    def tcall(self, n, env):
        t = self.t
        f = n.func
        d = self.dotted(f)
        if d == "str" and len(n.args) == 1:
            return self.py_str(*self.te(n.args[0], env)), "Str"
        if d == "int" and len(n.args) == 1:
            x, tx = self.te(n.args[0], env)
            if tx == "Int":
                return x, "Int"
            if tx != "Str":
                raise Unsupported(f"int() of a {tx}")
            if t.int_total:
                return f"(CR.PyC13.intOfDigits {x})", "Int"
            self.uses_bind = True
            return f"(← CR.PyC13.pyInt {x})", "Int"
        if d == "len" and len(n.args) == 1:
            x, tx = self.te(n.args[0], env)
            if tx == "Str" or tx.startswith("list:"):
                return f"((({x}).length : Nat) : Int)", "Int"
            raise Unsupported(f"len() of a {tx}")
        if d == "list" and len(n.args) == 1:
            x, tx = self.te(n.args[0], env)
            if tx.startswith("list:"):
                return x, tx
        if d == "isinstance" and len(n.args) == 2 and self.dotted(n.args[1]) == "list":
            x, tx = self.te(n.args[0], env)
            if tx == "PV":
                return f"(CR.PyC13.PV.isList {x})", "Bool"
            return ("true" if tx.startswith("list:") else "false"), "Bool"
        if d == "all" and len(n.args) == 1 and isinstance(n.args[0], (ast.GeneratorExp, ast.ListComp)):
            g = n.args[0]
            if len(g.generators) != 1 or g.generators[0].ifs or not isinstance(g.generators[0].target, ast.Name):
                raise Unsupported("all() shape")
            it, ety = self.iter_of(g.generators[0].iter, env)
            var = self.ident(g.generators[0].target.id)
            env2 = dict(env)
            env2[g.generators[0].target.id] = (var, ety)
            with self.sub() as c:
                body = self.tbool(g.elt, env2)
            if c.used:
                self.uses_bind = True
                return f"(← CR.PyC13.allM (fun {var} => (do return {body})) {it})", "Bool"
            return f"(({it}).all (fun {var} => {body}))", "Bool"
        if d == "any" and len(n.args) == 1 and isinstance(n.args[0], ast.List):
            return "(" + " || ".join(self.tbool(e, env) for e in n.args[0].elts) + ")", "Bool"
        if isinstance(f, ast.Attribute) and f.attr == "join" and len(n.args) == 1:
            sep = const_str(f.value)
            l, tl = self.te(n.args[0], env)
            if tl != "list:Str":
                raise Unsupported(f"join of a {tl}")
            return f"(CR.PyC13.joinS {chars(sep)} {l})", "Str"
        if isinstance(f, ast.Attribute) and f.attr == "split" and len(n.args) == 1:
            sep = const_str(n.args[0])
            if len(sep) != 1:
                raise Unsupported("split separator")
            x, tx = self.te(f.value, env)
            if tx != "Str":
                raise Unsupported(f"split of a {tx}")
            return f"(CR.PyC13.split {x} {chars(sep)[2:-8]})", "list:Str"
        if isinstance(f, ast.Attribute) and f.attr == "replace" and len(n.args) == 2:
            a, b = const_str(n.args[0]), const_str(n.args[1])
            if len(a) != 1 or b != "":
                raise Unsupported("replace arguments")
            x, tx = self.te(f.value, env)
            if tx != "Str":
                raise Unsupported(f"replace on a {tx}")
            return f"(CR.PyC13.removeChar {chars(a)[2:-8]} {x})", "Str"
        if isinstance(f, ast.Attribute) and f.attr == "format" and isinstance(f.value, ast.Constant):
            for a in n.args:
                self.te(a, env)
            return "([] : Str)", "Str"          # only used for messages; never part of a modelled value
        if d == "re.sub" and len(n.args) == 3:
            pat = self.resolve_const_str(n.args[0], env)
            if const_str(n.args[1]) != "":
                raise Unsupported("re.sub replacement")
            if not (pat.startswith("[") and pat.endswith("]")):
                raise Unsupported("re.sub pattern is not one character class")
            neg, rs, end = parse_class(pat, 0)
            if end != len(pat):
                raise Unsupported("re.sub pattern is not one character class")
            x, tx = self.te(n.args[2], env)
            if tx != "Str":
                raise Unsupported(f"re.sub on a {tx}")
            return f"(CR.PyC13.delClass {'true' if neg else 'false'} {rx_ranges(rs)} {x})", "Str"
        if isinstance(f, ast.Name) and f.id in ENUMS and f.id not in env and len(n.args) == 1 and ENUMS[f.id] == "VType":
            x, tx = self.te(n.args[0], env)
            if tx != "Int":
                raise Unsupported("enum by a non-int value")
            self.uses_bind = True
            return f"(← CR.PyC13.enumByValue CR.BenchId.VType.all (fun m => ((m.value : Nat) : Int)) {x})", "enum:VType"
        if d in t.ctor_env:
            return self.ctor_call(n, env, d)
        if d in t.tcalls:
            fn, ptys, rty, monadic = t.tcalls[d]
            if len(n.args) != len(ptys) or n.keywords:
                raise Unsupported(f"arguments of {d}")
            args = [self.co(*self.te(a, env), p) for a, p in zip(n.args, ptys)]
            txt = fn + "".join(" " + a for a in args)
            if monadic:
                self.uses_bind = True
                return f"(← {txt})", rty
            return f"({txt})", rty
        raise Unsupported(f"call {d}")

    def ctor_call(self, n, env, d):
        """`ScenarioID(...)`: bind positional / keyword arguments and the CURRENT signature defaults of `__init__`"""
        fn, cls, ptys, rty, monadic = self.t.ctor_env[d]
        init = find_func(self.tree, cls, "__init__")
        a = init.args
        if a.vararg or a.kwarg or a.kwonlyargs or a.posonlyargs:
            raise Unsupported("constructor signature")
        names = [x.arg for x in a.args][1:]
        if len(names) != len(ptys):
            raise Unsupported("constructor signature changed")
        defaults = dict(zip(names[len(names) - len(a.defaults):], a.defaults))
        given = {}
        if len(n.args) > len(names):
            raise Unsupported("too many arguments")
        for nm, x in zip(names, n.args):
            given[nm] = self.te(x, env)
        for kw in n.keywords:
            if kw.arg is None or kw.arg in given or kw.arg not in names:
                raise Unsupported("keyword argument")
            given[kw.arg] = self.te(kw.value, env)
        args = []
        for nm, pty in zip(names, ptys):
            if nm in given:
                args.append(self.co(*given[nm], pty))
            elif nm in defaults:
                args.append(self.co(*self.te(defaults[nm], {}), pty))
            else:
                raise Unsupported(f"missing argument {nm}")
        txt = fn + "".join(" " + x for x in args)
        if monadic:
            self.uses_bind = True
            return f"(← {txt})", rty
        return f"({txt})", rty

    # ------------------------------------------------------------ statements
    def tblock(self, stmts, env, ind):
        pad = "  " * ind
        t = self.t
        if not stmts:
            return pad + self.finish(env)
        s, rest = stmts[0], list(stmts[1:])
        if isinstance(s, ast.Expr) and isinstance(s.value, ast.Constant):
            return self.tblock(rest, env, ind)
        if isinstance(s, ast.Expr) and isinstance(s.value, ast.Call) and self.dotted(s.value.func) in ("warnings.warn", "print"):
            return self.tblock(rest, env, ind)
        if isinstance(s, ast.Pass):
            return self.tblock(rest, env, ind)
        if isinstance(s, ast.Return):
            if s.value is None:
                return pad + self.finish(env)
            v, ty = self.te(s.value, env)
            return f"{pad}return {self.co_ret(v, ty)}"
        if isinstance(s, ast.Raise):
            exc = s.exc.func if isinstance(s.exc, ast.Call) else s.exc
            name = self.dotted(exc) if exc is not None else "?"
            if name not in EXC:
                raise Unsupported(f"raise {name}")
            return f"{pad}throw CR.Err.{EXC[name]}"
        if isinstance(s, ast.Assert):
            return f"{pad}CR.Py.assert {self.paren(self.tbool(s.test, env))}\n" + self.tblock(rest, env, ind)
        if isinstance(s, ast.AnnAssign) and s.value is not None:
            s = ast.Assign(targets=[s.target], value=s.value)
        if isinstance(s, ast.Assign) and len(s.targets) == 1 and isinstance(s.targets[0], ast.Name) \
                and isinstance(s.value, ast.List) and not s.value.elts:
            env = dict(env)                      # `acc = []`: the element type is fixed by the loop that fills it
            self.forget(env, s.targets[0].id)
            env[s.targets[0].id] = ("[]", "list:?")
            return self.tblock(rest, env, ind)
        if isinstance(s, ast.For) and isinstance(s.target, ast.Name) and not s.orelse and len(s.body) == 1:
            # `for x in xs: [if c:] acc.append(e)`  ==  acc += [e for x in xs if c]
            b, ifs = s.body[0], []
            while isinstance(b, ast.If) and not b.orelse and len(b.body) == 1:
                ifs.append(b.test)
                b = b.body[0]
            if isinstance(b, ast.Expr) and isinstance(b.value, ast.Call) and isinstance(b.value.func, ast.Attribute) \
                    and b.value.func.attr == "append" and isinstance(b.value.func.value, ast.Name) \
                    and len(b.value.args) == 1 and not b.value.keywords and b.value.func.value.id in env \
                    and env[b.value.func.value.id][1].startswith("list:"):
                acc = b.value.func.value.id
                if any(isinstance(x, ast.Name) and x.id == acc for e in [b.value.args[0], s.iter] + ifs for x in ast.walk(e)):
                    raise Unsupported("loop reads its own accumulator")
                comp = ast.ListComp(elt=b.value.args[0],
                                    generators=[ast.comprehension(target=s.target, iter=s.iter, ifs=ifs, is_async=0)])
                v, ty = self.comprehension(comp, env)
                prev, pty = env[acc]
                if pty == "list:?":
                    txt = v
                elif pty == ty:
                    txt = f"({prev} ++ {v})"
                else:
                    raise Unsupported("accumulator element type")
                env = dict(env)
                x = self.ident(acc)
                env[acc] = (x, ty)
                return f"{pad}let {x} : {lty(ty)} := {txt}\n" + self.tblock(rest, env, ind)
            raise Unsupported("for loop shape")
        if isinstance(s, ast.Assign) and len(s.targets) == 1:
            tg = s.targets[0]
            if isinstance(tg, ast.Name):
                env = dict(env)
                if isinstance(s.value, ast.Constant) and isinstance(s.value.value, str):
                    env["const:" + tg.id] = s.value.value
                else:
                    env.pop("const:" + tg.id, None)
                v, ty = self.te(s.value, env)
                x = self.ident(tg.id)
                self.forget(env, tg.id)
                if ty == "None":
                    env[tg.id] = ("none", "None")
                    return self.tblock(rest, env, ind)
                env[tg.id] = (x, ty)
                return f"{pad}let {x} : {lty(ty)} := {v}\n" + self.tblock(rest, env, ind)
            if isinstance(tg, ast.Attribute) and self.base_name(tg.value) == "self":
                env = dict(env)
                if tg.attr in t.setters:
                    fn, backing, vty, rty, monadic = t.setters[tg.attr]
                    v = self.co(*self.te(s.value, env), vty)
                    x = self.ident("self." + backing)
                    self.forget(env, "self." + backing)
                    env["self." + backing] = (x, rty)
                    env["self." + tg.attr] = (x, rty)
                    arrow = "←" if monadic else ":="
                    return f"{pad}let {x} : {lty(rty)} {arrow} {fn} {v}\n" + self.tblock(rest, env, ind)
                v, ty = self.te(s.value, env)
                key = "self." + tg.attr
                self.forget(env, key)
                if ty == "None":
                    env[key] = ("none", "None")
                    return self.tblock(rest, env, ind)
                x = self.ident(key)
                env[key] = (x, ty)
                return f"{pad}let {x} : {lty(ty)} := {v}\n" + self.tblock(rest, env, ind)
            if isinstance(tg, ast.Tuple) and all(isinstance(x, ast.Name) for x in tg.elts):
                v, ty = self.te(s.value, env)
                if not ty.startswith("tuple:") or len(ty[6:].split("|")) != len(tg.elts):
                    raise Unsupported("tuple assignment")
                env = dict(env)
                names = []
                for x, xty in zip(tg.elts, ty[6:].split("|")):
                    self.forget(env, x.id)
                    env[x.id] = (self.ident(x.id), xty)
                    names.append(self.ident(x.id))
                return f"{pad}let ({', '.join(names)}) := {v}\n" + self.tblock(rest, env, ind)
            raise Unsupported("assignment target")
        if isinstance(s, ast.If):
            cont_then = list(s.body) + ([] if self.returns(s.body) else rest)
            cont_else = list(s.orelse) + ([] if s.orelse and self.returns(s.orelse) else rest)
            nt = self.is_none_test(s.test)
            if nt is not None:
                x, ty = self.te(nt[0], env)
                key = self.narrow_key(nt[0])
                if ty.startswith("opt:") and key is not None:
                    if key.replace(".", "_").isidentifier():
                        v = self.ident(key) + "'"
                    else:
                        v = f"v{self.fresh}'"
                        self.fresh += 1
                    env_some, env_none = dict(env), dict(env)
                    env_some[key] = (v, ty[4:])
                    env_none[key] = ("none", "None")
                    some_b = self.tblock(cont_else if nt[1] else cont_then, env_some, ind + 1)
                    none_b = self.tblock(cont_then if nt[1] else cont_else, env_none, ind + 1)
                    return f"{pad}match {x} with\n{pad}| some {v} =>\n{some_b}\n{pad}| none =>\n{none_b}"
            test = self.tbool(s.test, env)
            if test == "true":
                return self.tblock(cont_then, env, ind)
            if test == "false":
                return self.tblock(cont_else, env, ind)
            then = self.tblock(cont_then, env, ind + 1)
            els = self.tblock(cont_else, env, ind + 1)
            return f"{pad}if {test} then\n{then}\n{pad}else\n{els}"
        raise Unsupported(f"statement {type(s).__name__}")

    def paren(self, x):
        return x if x.startswith("(") and x.endswith(")") else f"({x})"

    def returns(self, stmts):
        if stmts and isinstance(stmts[-1], ast.Raise):
            return True
        return super().returns(stmts)

    def forget(self, env, key):
        """drop narrowings that depend on a re-assigned name"""
        for k in [k for k in env if k == key or k.startswith(key + ".") or k.startswith(key + "[")]:
            del env[k]

    def co_ret(self, v, ty):
        return self.co(v, ty, self.t.rty)

    def finish(self, env):
        f = self.t.finish
        if f is None:
            raise Unsupported("path without return")
        if f[0] == "attr":
            if f[1] not in env:
                raise Unsupported(f"{f[1]} not assigned on this path")
            v, ty = env[f[1]]
            return f"return {self.co(v, ty, self.t.rty)}"
        if f[0] == "tuple":
            parts = []
            for nm in f[1]:
                if nm not in env:
                    raise Unsupported(f"{nm} not assigned on this path")
                parts.append(env[nm])
            return "return " + self.co("(" + ", ".join(p[0] for p in parts) + ")", "tuple:" + "|".join(p[1] for p in parts), self.t.rty)
        if f[0] == "obj":
            fields = []
            for lean_field, attr, fty in f[1]:
                if attr not in env:
                    raise Unsupported(f"{attr} not assigned on this path")
                v, ty = env[attr]
                fields.append(f"{lean_field} := {self.co(v, ty, fty)}")
            return "return { " + ", ".join(fields) + " }"
        raise Unsupported("finish")

    def function(self, fn: ast.FunctionDef) -> str:
        t = self.t
        env = {}
        for p, ln, ty in t.tparams:
            if p is not None:
                env[p] = (ln, ty)
        pynames = [a.arg for a in fn.args.args if a.arg not in ("self", "cls")]
        declared = [p for p, _, _ in t.tparams if p is not None and p not in ("self", "cls") and not p.startswith("self.")]
        if pynames != declared:
            raise Unsupported(f"signature changed: {pynames}")
        stmts = list(fn.body)
        if t.stop_before is not None:
            for i, st in enumerate(stmts):
                if any(isinstance(x, ast.Name) and x.id == t.stop_before for x in ast.walk(st)):
                    stmts = stmts[:i]
                    break
            else:
                raise Unsupported(f"no statement mentions {t.stop_before}")
        body = self.tblock(stmts, env, 1)
        binders = " ".join(f"({p})" for _, p in t.params)
        if t.monadic:
            head = f"def {t.name} {binders} : Res ({lty(t.rty)}) := do\n{body}\n"
        else:
            if self.uses_bind:
                raise Unsupported("partial operation in a target declared pure")
            head = f"def {t.name} {binders} : {lty(t.rty)} := Id.run do\n{body}\n"
        doc = f"/-- {t.file}: {(t.cls + '.') if t.cls else ''}{t.func}{(' — ' + t.doc) if t.doc else ''} -/\n"
        return doc + head


ENUMS = {"VehicleModel": "VModel", "VehicleType": "VType", "CostFunction": "Cost"}


# ------------------------------------------------------------------------------------------------ targets
def fn_targets():
    cs = (None, "cs", "List Str")
    sid_fields = [("coop", "self.cooperative", "Bool"), ("country", "self._country_id", "Str"), ("mapName", "self._map_name", "Str"),
                  ("mapId", "self.map_id", "Int"), ("config", "self.configuration_id", "opt:Int"),
                  ("beh", "self.obstacle_behavior", "opt:Str"), ("pred", "self.prediction_id", "PV"),
                  ("version", "self.scenario_version", "Str")]
    init_ptys = ["Bool", "opt:Str", "Str", "Int", "opt:Int", "opt:Str", "PV", "Str"]
    glob = {"SCENARIO_VERSION": ("SCENARIO_VERSION", "Str"),
            "SUPPORTED_COMMONROAD_VERSIONS": ("SUPPORTED_COMMONROAD_VERSIONS", "list:Str"),
            "iso3166.countries_by_alpha3": ("cs", "list:Str")}
    ts = []

    def add(name, file, func, cls, tparams, rty, **kw):
        t = T13(name, file, func, cls, tparams=tparams, **kw)
        t.rty = rty
        ts.append(t)

    add("ScenarioID_set_map_name", SC_FILE, "map_name", "ScenarioID", [("map_name", "map_name", "Str")], "Str",
        setter=True, finish=("attr", "self._map_name"), doc="property setter: the value `_map_name` is left with")
    add("ScenarioID_set_country_id", SC_FILE, "country_id", "ScenarioID", [cs, ("country_id", "country_id", "opt:Str")], "Str",
        setter=True, finish=("attr", "self._country_id"), monadic=True, tnames=glob,
        doc="property setter: the value `_country_id` is left with; `iso3166.countries_by_alpha3` is the parameter cs")
    add("ScenarioID_str", SC_FILE, "__str__", "ScenarioID", [("self", "self", "obj:Id")], "Str", monadic=True,
        tattrs={("self", "cooperative"): ("self.coop", "Bool"), ("self", "country_id"): ("self.country", "Str"),
                ("self", "map_name"): ("self.mapName", "Str"), ("self", "map_id"): ("self.mapId", "Int"),
                ("self", "configuration_id"): ("self.config", "opt:Int"), ("self", "obstacle_behavior"): ("self.beh", "opt:Str"),
                ("self", "prediction_id"): ("(CR.PyC13.predToPV self.pred)", "PV"),
                ("self", "scenario_version"): ("self.version", "Str")})
    add("ScenarioID_init", SC_FILE, "__init__", "ScenarioID",
        [cs, ("cooperative", "cooperative", "Bool"), ("country_id", "country_id", "opt:Str"), ("map_name", "map_name", "Str"),
         ("map_id", "map_id", "Int"), ("configuration_id", "configuration_id", "opt:Int"),
         ("obstacle_behavior", "obstacle_behavior", "opt:Str"), ("prediction_id", "prediction_id", "PV"),
         ("scenario_version", "scenario_version", "Str")], "obj:SId", monadic=True, tnames=glob,
        finish=("obj", sid_fields),
        setters={"country_id": ("ScenarioID_set_country_id cs", "_country_id", "opt:Str", "Str", True),
                 "map_name": ("ScenarioID_set_map_name", "_map_name", "Str", "Str", False)},
        doc="the attributes the constructor leaves (prediction_id dynamically typed)")
    ctor = {"ScenarioID": ("ScenarioID_init cs", "ScenarioID", init_ptys, "obj:SId", True)}
    add("ScenarioID_from_benchmark_id", SC_FILE, "from_benchmark_id", "ScenarioID",
        [cs, ("benchmark_id", "benchmark_id", "Str"), ("scenario_version", "scenario_version", "Str")], "obj:SId",
        monadic=True, tnames=glob, int_total=True, ctor_env=ctor,
        tcalls={"ScenarioID.benchmark_id_pattern.fullmatch": ("CR.BenchId.matchId", ["Str"], "opt:obj:Groups", False),
                "cls.benchmark_id_pattern.fullmatch": ("CR.BenchId.matchId", ["Str"], "opt:obj:Groups", False)},
        doc="`benchmark_id_pattern.fullmatch` is the model's deterministic matcher `matchId` (the pattern text itself is tied "
            "separately: ScenarioID_benchmark_id_pattern); match[\"name\"] reads the field of `Groups`")
    add("PlanningProblemSolution_vehicle_id", SOL_FILE, "vehicle_id", "PlanningProblemSolution",
        [(None, "vehicle_model", "enum:VModel"), (None, "vehicle_type", "enum:VType")], "Str",
        tattrs={("self", "vehicle_model"): ("vehicle_model", "enum:VModel"), ("self", "vehicle_type"): ("vehicle_type", "enum:VType")})
    add("PlanningProblemSolution_cost_id", SOL_FILE, "cost_id", "PlanningProblemSolution",
        [(None, "cost_function", "enum:Cost")], "Str", tattrs={("self", "cost_function"): ("cost_function", "enum:Cost")})
    pp_calls = {("obj:Pps", "vehicle_id"): True, ("obj:Pps", "cost_id"): True}
    add("Solution_vehicle_ids", SOL_FILE, "vehicle_ids", "Solution", [(None, "pps", "list:obj:Pps")], "list:Str",
        tattrs={("self", "planning_problem_solutions"): ("pps", "list:obj:Pps")}, tcalls=dict(pp_calls),
        doc="`self.planning_problem_solutions` is the parameter pps")
    add("Solution_cost_ids", SOL_FILE, "cost_ids", "Solution", [(None, "pps", "list:obj:Pps")], "list:Str",
        tattrs={("self", "planning_problem_solutions"): ("pps", "list:obj:Pps")}, tcalls=dict(pp_calls))
    add("Solution_benchmark_id", SOL_FILE, "benchmark_id", "Solution", [(None, "pps", "list:obj:Pps"), (None, "sid", "obj:Id")], "Str",
        monadic=True,
        tattrs={("self", "vehicle_ids"): ("(Solution_vehicle_ids pps)", "list:Str"), ("self", "cost_ids"): ("(Solution_cost_ids pps)", "list:Str"),
                ("self", "scenario_id"): ("sid", "obj:Id")},
        tcalls={"str:Id": ("ScenarioID_str", ["obj:Id"], "Str", True)})
    add("Reader_parse_benchmark_id", SOL_FILE, "_parse_benchmark_id", "CommonRoadSolutionReader",
        [cs, ("benchmark_id", "benchmark_id", "Str")], "tuple:list:Str|list:Str|obj:SId", monadic=True,
        tcalls={"ScenarioID.from_benchmark_id": ("ScenarioID_from_benchmark_id cs", ["Str", "Str"], "obj:SId", True)})
    add("Reader_parse_vehicle_id", SOL_FILE, "_parse_vehicle_id", "CommonRoadSolutionReader",
        [("vehicle_id", "vehicle_id", "Str")], "tuple:enum:VModel|enum:VType", monadic=True)
    add("Reader_parse_pps_ids", SOL_FILE, "_parse_planning_problem_solution", "CommonRoadSolutionReader",
        [("vehicle_id", "vehicle_id", "Str"), ("cost_id", "cost_id", "Str"), ("trajectory_node", "trajectory_node", "Unit")],
        "tuple:enum:VModel|enum:VType|enum:Cost", monadic=True, stop_before="trajectory_node",
        finish=("tuple", ["vehicle_model", "vehicle_type", "cost_function"]),
        tcalls={"cls._parse_vehicle_id": ("Reader_parse_vehicle_id", ["Str"], "tuple:enum:VModel|enum:VType", True),
                "CommonRoadSolutionReader._parse_vehicle_id": ("Reader_parse_vehicle_id", ["Str"], "tuple:enum:VModel|enum:VType", True)},
        doc="the statements before the trajectory node is read: (vehicle model, vehicle type, cost function)")
    return ts


def translate_fn(repo, t: T13) -> str:
    src = open(os.path.join(repo, t.file), encoding="utf-8").read()
    tree = ast.parse(src)
    fn = find_func(tree, t.cls, t.func, t.setter)
    return TrS(t, tree).function(fn)


# ------------------------------------------------------------------------------------------------ structural extraction
def class_body(tree, cls):
    for n in tree.body:
        if isinstance(n, ast.ClassDef) and n.name == cls:
            return n.body
    raise Unsupported(f"class {cls} not found")


def flat_str(n):
    """string constant, possibly spread over adjacent literals (already merged by the parser) or `+`"""
    if isinstance(n, ast.Constant) and isinstance(n.value, str):
        return n.value
    if isinstance(n, ast.BinOp) and isinstance(n.op, ast.Add):
        return flat_str(n.left) + flat_str(n.right)
    raise Unsupported("pattern is not a string constant")


def ex_pattern(repo):
    tree = ast.parse(open(os.path.join(repo, SC_FILE), encoding="utf-8").read())
    for n in class_body(tree, "ScenarioID"):
        if isinstance(n, ast.Assign) and len(n.targets) == 1 and isinstance(n.targets[0], ast.Name) \
                and n.targets[0].id == "benchmark_id_pattern":
            v = n.value
            if not (isinstance(v, ast.Call) and Tr(None).dotted(v.func) == "re.compile" and len(v.args) == 1 and not v.keywords):
                raise Unsupported("benchmark_id_pattern is not re.compile(<text>)")
            text = flat_str(v.args[0])
            return ("/-- scenario/scenario.py: ScenarioID.benchmark_id_pattern — the regex text\n    "
                    + text.replace("-/", "- /") + "\n    read into the `RX` syntax -/\n"
                    + "def ScenarioID_benchmark_id_pattern : CR.PyC13.RX :=\n  " + parse_regex(text) + "\n")
    raise Unsupported("benchmark_id_pattern not found")


def ex_constants(repo):
    tree = ast.parse(open(os.path.join(repo, INIT_FILE), encoding="utf-8").read())
    vals = {}
    for n in tree.body:
        if isinstance(n, ast.Assign) and len(n.targets) == 1 and isinstance(n.targets[0], ast.Name):
            vals[n.targets[0].id] = n.value
    v = vals.get("SCENARIO_VERSION")
    s = vals.get("SUPPORTED_COMMONROAD_VERSIONS")
    if v is None or s is None:
        raise Unsupported("version constants not found")
    if not isinstance(s, (ast.Set, ast.List, ast.Tuple)):
        raise Unsupported("SUPPORTED_COMMONROAD_VERSIONS is not a display")
    items = [const_str(e) for e in s.elts]
    if isinstance(s, ast.Set):
        items = sorted(set(items))
    return ("/-- commonroad/__init__.py: SCENARIO_VERSION -/\n"
            f"def SCENARIO_VERSION : Str := {chars(const_str(v))}\n\n"
            "/-- commonroad/__init__.py: SUPPORTED_COMMONROAD_VERSIONS (a set: members in sorted order; only used for `in`) -/\n"
            f"def SUPPORTED_COMMONROAD_VERSIONS : List Str := [{', '.join(chars(x) for x in items)}]\n")


def ex_defaults(repo):
    """the signature defaults of ScenarioID.__init__ as the `Raw` a call without arguments passes"""
    tree = ast.parse(open(os.path.join(repo, SC_FILE), encoding="utf-8").read())
    init = find_func(tree, "ScenarioID", "__init__")
    names = [a.arg for a in init.args.args][1:]
    want = ["cooperative", "country_id", "map_name", "map_id", "configuration_id", "obstacle_behavior", "prediction_id",
            "scenario_version"]
    if names != want or len(init.args.defaults) != len(want):
        raise Unsupported("constructor signature changed")
    t = T13("defaults", SC_FILE, "__init__", "ScenarioID")
    t.tnames = {"SCENARIO_VERSION": ("SCENARIO_VERSION", "Str")}
    tr = TrS(t, tree)
    tys = ["Bool", "opt:Str", "Str", "Int", "opt:Int", "opt:Str", "PV", "Str"]
    fields = ["coop", "country", "mapName", "mapId", "config", "beh", "pred", "version"]
    vals = [tr.co(*tr.te(d, {}), ty) for d, ty in zip(init.args.defaults, tys)]
    return ("/-- scenario/scenario.py: ScenarioID.__init__ — the default values of its eight parameters, in order -/\n"
            "def ScenarioID_init_defaults : CR.PyC13.Args :=\n  { "
            + ", ".join(f"{f} := {v}" for f, v in zip(fields, vals)) + " }\n")


def ex_eq_hash(repo):
    tree = ast.parse(open(os.path.join(repo, SC_FILE), encoding="utf-8").read())
    eq = find_func(tree, "ScenarioID", "__eq__")
    hs = find_func(tree, "ScenarioID", "__hash__")
    eq_attrs = []
    for n in ast.walk(eq):
        if isinstance(n, ast.Compare) and len(n.ops) == 1 and isinstance(n.ops[0], ast.Eq) \
                and isinstance(n.left, ast.Attribute) and isinstance(n.comparators[0], ast.Attribute) \
                and isinstance(n.left.value, ast.Name) and isinstance(n.comparators[0].value, ast.Name) \
                and n.left.value.id == "self" and n.comparators[0].value.id == "other":
            if n.left.attr != n.comparators[0].attr:
                raise Unsupported("__eq__ compares different attributes")
            eq_attrs.append((n.lineno, n.col_offset, n.left.attr))
    eq_attrs = [a for _, _, a in sorted(eq_attrs)]
    # every comparison must sit in one `and` chain whose value is returned
    ands = [n for n in ast.walk(eq) if isinstance(n, ast.BoolOp)]
    if len(ands) != 1 or not isinstance(ands[0].op, ast.And) or len(ands[0].values) != len(eq_attrs):
        raise Unsupported("__eq__ is not one conjunction of attribute comparisons")
    rets = [n for n in ast.walk(hs) if isinstance(n, ast.Return)]
    if len(rets) != 1 or not (isinstance(rets[0].value, ast.Call) and Tr(None).dotted(rets[0].value.func) == "hash"
                              and len(rets[0].value.args) == 1 and isinstance(rets[0].value.args[0], ast.Tuple)):
        raise Unsupported("__hash__ is not hash(<tuple>)")
    hash_attrs = []
    local = {}
    for n in hs.body:
        if isinstance(n, ast.Assign) and isinstance(n.targets[0], ast.Name):
            srcs = {x.attr for x in ast.walk(n.value) if isinstance(x, ast.Attribute) and isinstance(x.value, ast.Name) and x.value.id == "self"}
            if len(srcs) == 1:
                local[n.targets[0].id] = next(iter(srcs))
    for e in rets[0].value.args[0].elts:
        if isinstance(e, ast.Attribute) and isinstance(e.value, ast.Name) and e.value.id == "self":
            hash_attrs.append(e.attr)
        elif isinstance(e, ast.Name) and e.id in local:
            hash_attrs.append(local[e.id])
        else:
            raise Unsupported("__hash__ tuple element")

    def sl(xs):
        return "[" + ", ".join(f'"{x}"' for x in xs) + "]"
    return ("/-- scenario/scenario.py: ScenarioID.__eq__ — the attributes compared (one conjunction of `self.a == other.a`) -/\n"
            f"def ScenarioID_eq_attrs : List String := {sl(eq_attrs)}\n\n"
            "/-- scenario/scenario.py: ScenarioID.__hash__ — the attributes in the hashed tuple -/\n"
            f"def ScenarioID_hash_attrs : List String := {sl(hash_attrs)}\n")


def ex_enums(repo):
    tree = ast.parse(open(os.path.join(repo, SOL_FILE), encoding="utf-8").read())
    out = []
    members = {}
    for cls in ("VehicleModel", "VehicleType", "CostFunction"):
        rows = []
        for n in class_body(tree, cls):
            if isinstance(n, ast.Assign) and len(n.targets) == 1 and isinstance(n.targets[0], ast.Name):
                if not (isinstance(n.value, ast.Constant) and isinstance(n.value.value, int)):
                    raise Unsupported(f"{cls} member value")
                rows.append((n.targets[0].id, n.value.value))
        members[cls] = [r[0] for r in rows]
        out.append(f"/-- common/solution.py: enum {cls} — (member name, value) in definition order -/\n"
                   f"def {cls}_members : List (Str × Int) := [" + ", ".join(f"({chars(a)}, ({b} : Int))" for a, b in rows) + "]\n")
    rows = []
    for n in class_body(tree, "SupportedCostFunctions"):
        if isinstance(n, ast.Assign) and len(n.targets) == 1 and isinstance(n.targets[0], ast.Name):
            v = n.value
            if isinstance(v, ast.List):
                names = []
                for e in v.elts:
                    if not (isinstance(e, ast.Attribute) and isinstance(e.value, ast.Name) and e.value.id == "CostFunction"):
                        raise Unsupported("SupportedCostFunctions element")
                    names.append(e.attr)
            elif isinstance(v, ast.ListComp) and len(v.generators) == 1 and not v.generators[0].ifs \
                    and isinstance(v.generators[0].iter, ast.Name) and v.generators[0].iter.id == "CostFunction" \
                    and isinstance(v.elt, ast.Name) and isinstance(v.generators[0].target, ast.Name) \
                    and v.elt.id == v.generators[0].target.id:
                names = list(members["CostFunction"])
            elif isinstance(v, ast.Call) and isinstance(v.func, ast.Name) and v.func.id == "list" and len(v.args) == 1 \
                    and isinstance(v.args[0], ast.Name) and v.args[0].id == "CostFunction":
                names = list(members["CostFunction"])
            else:
                raise Unsupported("SupportedCostFunctions value")
            rows.append((n.targets[0].id, names))
    out.append("/-- common/solution.py: enum SupportedCostFunctions — (vehicle model name, supported cost function names) -/\n"
               "def SupportedCostFunctions_members : List (Str × List Str) := ["
               + ", ".join(f"({chars(a)}, [{', '.join(chars(x) for x in b)}])" for a, b in rows) + "]\n")
    return "\n".join(out)


EXTRACTIONS = [("constants", ex_constants), ("ScenarioID_benchmark_id_pattern", ex_pattern), ("ScenarioID_init_defaults", ex_defaults),
               ("ScenarioID_eq_hash_attrs", ex_eq_hash), ("solution_enums", ex_enums)]


HEADER = """/-
  Gen.SrcC13 — GENERATED on every run by harness/translate/src_c13.py from the current source of /repo. Do not edit.
-/
import CRModel.PyExt
import CRModel.PyExtC13
import CRModel.BenchId
set_option linter.unusedVariables false
namespace Gen
open CR CR.BenchId

"""

ERRORS = (Unsupported, SyntaxError, KeyError, IndexError, AttributeError, OSError, ValueError, TypeError)


def units():
    """(name, thunk(repo) -> lean text) in emission order"""
    us = [(n, f) for n, f in EXTRACTIONS]
    for t in fn_targets():
        us.append((t.name, (lambda repo, t=t: translate_fn(repo, t))))
    return us


def regenerate(repo, gen_dir):
    os.makedirs(gen_dir, exist_ok=True)
    os.makedirs(LASTGOOD, exist_ok=True)
    status, chunks = {}, []
    for name, f in units():
        lg = os.path.join(LASTGOOD, "C13_" + name + ".lean")
        try:
            txt = f(repo)
            status["C13." + name] = "ok"
        except ERRORS as e:
            if os.path.exists(lg):
                txt = open(lg).read()
                status["C13." + name] = f"lost ({type(e).__name__}: {e}); last good translation used"
            else:
                txt = f"-- {name}: not translatable ({e})\n"
                status["C13." + name] = f"lost ({type(e).__name__}: {e}); no fallback"
        chunks.append(txt)
    new = HEADER + "\n".join(chunks) + "\nend Gen\n"
    path = os.path.join(gen_dir, "SrcC13.lean")
    old = open(path).read() if os.path.exists(path) else None
    if old != new:
        with open(path, "w") as f:
            f.write(new)
    return status


def update_lastgood(repo):
    os.makedirs(LASTGOOD, exist_ok=True)
    for name, f in units():
        open(os.path.join(LASTGOOD, "C13_" + name + ".lean"), "w").write(f(repo))


if __name__ == "__main__":
    import sys
    repo = os.environ.get("VERIF_REPO", "/repo")
    if len(sys.argv) > 1 and sys.argv[1] == "--update-lastgood":
        update_lastgood(repo)
    st = regenerate(repo, os.path.join(os.path.dirname(os.path.dirname(HERE)), "lean", "Gen"))
    for k, v in st.items():
        print(k, v)
