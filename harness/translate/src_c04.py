"""py -> Lean translator, second part of the C04 / C16 / C17 translator tie (the first part is pysrc.py -> Gen/Src.lean).

`regenerate(repo, gen_dir)` parses the CURRENT source of the target functions with `ast` and writes Lean definitions to
`<gen_dir>/SrcC04.lean` (module `Gen.SrcC04`, namespace `Gen`, importing `Gen.Src` so that a translated function can call the
functions translated there).  lean/CRProps/T04.lean / T16.lean / T17.lean prove each generated definition equal to the hand model.
A function the translator cannot handle any more is not a verdict: its last good translation (lastgood/C04x_*.lean) is emitted
and the status says `lost` (the correspondence tie still stands).

On top of the subset of pysrc.Tr:  keyword arguments;  `for x in xs: ... return x` (early return: position of the first element
for which the body returns, `CR.PyC04.firstIdx`);  `for` loops whose body assigns locals, re-binds the loop variable, sets an
attribute of it and appends to ONE accumulator (a left fold);  `if c: <loops / appends on the accumulator>` without `else`
(`let acc := if c then .. else acc`);  nested function definitions (inlined at the call);  `in` on mapped containers;  `hasattr` /
`getattr` / dynamic `isinstance` through per-target tables;  `x is None` on an argument declared non-optional (static);
`del self.attr`;  calls of `self` methods that change `self` (`let self := f self`);  subscripts with a constant index.
"""
from __future__ import annotations

import ast
import os
import re

from .pysrc import LASTGOOD, Target, Tr, Unsupported, find_func

OUT = "SrcC04.lean"
PREFIX = "C04x_"


class T4(Target):
    def __init__(self, *a, tmpl=None, dyn_isinstance=None, kwnames=None, del_attrs=None, self_calls=None, ret_with_self=False,
                 ret_index=False, points=(), **k):
        super().__init__(*a, **k)
        self.tmpl = tmpl or {}                    # normalised dotted expression -> lean template ({v}: loop variable, {x}: operand)
        self.dyn_isinstance = dyn_isinstance or {}  # (normalised dotted expression, class name) -> lean template
        self.kwnames = kwnames or {}              # callee -> parameter names in positional order (for keyword arguments)
        self.del_attrs = del_attrs or {}          # (var, attr) -> lean template of the object after `del var.attr`
        self.self_calls = self_calls or {}        # `self.m()` statement -> lean function applied to self
        self.ret_with_self = ret_with_self        # `return v` of a method that also changes self: (v, self)
        self.ret_index = ret_index                # a returned loop element is identified by its position in the list
        self.points = set(points)                 # lean texts that are 2-vectors: `a + b` on them is Pt.add


class Tr4(Tr):
    def __init__(self, t):
        super().__init__(t)
        self.loopvars = []
        self.localfuncs = {}

    # ------------------------------------------------------------ names
    def dotted(self, n):
        if isinstance(n, ast.Subscript) and isinstance(n.slice, ast.Constant) and isinstance(n.slice.value, int):
            return f"{self.dotted(n.value)}[{n.slice.value}]"
        if isinstance(n, ast.Attribute):
            return self.dotted(n.value) + "." + n.attr
        return super().dotted(n)

    def norm(self, d):
        head, sep, rest = d.partition(".")
        if head in self.loopvars:
            return "*" + sep + rest
        return d

    def head(self, d):
        return self.local(d.partition(".")[0].partition("[")[0])

    def fmt(self, tmpl, d, *args, x=""):
        lv = self.local(self.loopvars[-1]) if self.loopvars else ""
        return tmpl.format(*args, v=self.head(d), lv=lv, x=x)

    # ------------------------------------------------------------ expressions
    def e(self, n):
        t = self.t
        if isinstance(n, (ast.Attribute, ast.Subscript)):
            d = self.dotted(n)
            nd = self.norm(d)
            if nd in t.tmpl:
                return self.fmt(t.tmpl[nd], d)
        if isinstance(n, ast.Constant) and isinstance(n.value, float) and n.value != int(n.value):
            from fractions import Fraction
            q = Fraction(n.value)                      # the exact value of the float literal
            return f"(({q.numerator} : Rat) / {q.denominator})"
        if isinstance(n, ast.Constant) and isinstance(n.value, str):
            return '"' + n.value.replace('\\', '\\\\').replace('"', '\\"') + '"'
        if isinstance(n, ast.BinOp) and isinstance(n.op, ast.Add):
            a, b = self.e(n.left), self.e(n.right)
            if a in t.points and b in t.points:
                return f"(CR.Place.Pt.add {a} {b})"
            if b in t.points:
                return f"(CR.PyC04.addAll {a} {b})"
        if isinstance(n, ast.Compare) and len(n.ops) == 1:
            op, right = n.ops[0], n.comparators[0]
            if isinstance(op, (ast.In, ast.NotIn)):
                key = "in:" + self.norm(self.dotted(right))
                if key not in t.tmpl:
                    raise Unsupported(f"membership in {self.dotted(right)}")
                r = self.fmt(t.tmpl[key], self.dotted(right), x=self.e(n.left))
                return r if isinstance(op, ast.In) else f"(!{r})"
            if isinstance(op, (ast.Is, ast.IsNot)) and isinstance(right, ast.Constant) and right.value is None \
                    and isinstance(n.left, ast.Name) and t.types.get(n.left.id) in ("int", "num", "notnone"):
                return "false" if isinstance(op, ast.Is) else "true"
        if isinstance(n, ast.BoolOp):
            vals = [self.e(v) for v in n.values]
            if isinstance(n.op, ast.And):
                if "false" in vals:
                    return "false"
                vals = [v for v in vals if v != "true"] or ["true"]
                return vals[0] if len(vals) == 1 else "(" + " && ".join(vals) + ")"
            if "true" in vals:
                return "true"
            vals = [v for v in vals if v != "false"] or ["false"]
            return vals[0] if len(vals) == 1 else "(" + " || ".join(vals) + ")"
        if isinstance(n, ast.IfExp):
            c = self.e(n.test)
            if c == "true":
                return self.e(n.body)
            if c == "false":
                return self.e(n.orelse)
        if isinstance(n, ast.UnaryOp) and isinstance(n.op, ast.Not):
            v = self.e(n.operand)
            return {"true": "false", "false": "true"}.get(v, f"(!{v})")
        if isinstance(n, ast.ListComp) and len(n.generators) == 1 and not n.generators[0].ifs \
                and isinstance(n.generators[0].target, ast.Name):
            g = n.generators[0]
            self.loopvars.append(g.target.id)
            try:
                body = self.e(n.elt)
            finally:
                self.loopvars.pop()
            return f"(({self.e(g.iter)}).map (fun {self.local(g.target.id)} => {body}))"
        return super().e(n)

    def call(self, n):
        t = self.t
        d = self.dotted(n.func)
        nd = self.norm(d)
        if d == "isinstance" and len(n.args) == 2:
            key = (self.norm(self.dotted(n.args[0])), self.dotted(n.args[1]))
            if key in t.dyn_isinstance:
                return self.fmt(t.dyn_isinstance[key], self.dotted(n.args[0]))
        if d in ("hasattr", "getattr") and len(n.args) == 2 and isinstance(n.args[1], ast.Constant):
            key = f"{d}:{self.norm(self.dotted(n.args[0]))}:{n.args[1].value}"
            if key in t.tmpl:
                return self.fmt(t.tmpl[key], self.dotted(n.args[0]))
            raise Unsupported(key)
        if d in ("list", "set", "tuple") and len(n.args) == 1 and not n.keywords:
            return self.e(n.args[0])
        if d in self.localfuncs:
            return self.inline(self.localfuncs[d], n)
        args = list(n.args)
        if n.keywords:
            if nd not in t.kwnames:
                raise Unsupported(f"keyword arguments of {d}")
            order = t.kwnames[nd]
            slots = {order[i]: a for i, a in enumerate(args)}
            for kw in n.keywords:
                if kw.arg not in order or kw.arg in slots:
                    raise Unsupported(f"keyword {kw.arg} of {d}")
                slots[kw.arg] = kw.value
            if any(p not in slots for p in order):
                raise Unsupported(f"missing argument of {d}")
            args = [slots[p] for p in order]
        if nd in t.calls and "{" in t.calls[nd][0]:
            spec = t.calls[nd]
            used = {int(k) for k in re.findall(r"\{(\d+)\}", spec[0])}          # only the arguments the template mentions
            vals = [self.e(a) if i in used else "_" for i, a in enumerate(args)]
            txt = self.fmt(spec[0], d, *(vals + ["none"] * 3))      # an omitted optional argument is None
            if spec[1]:
                self.uses_bind = True
                return f"(← {txt})"
            return txt
        if nd in t.calls and nd != d:
            return self.mcall(t.calls[nd], [self.e(a) for a in args])
        if n.keywords:
            n = ast.Call(func=n.func, args=args, keywords=[])
        return super().call(n)

    def inline(self, fn, call):
        """A nested `def f(p): if c: return A; return B` applied to an argument: `let p := arg; if c then A else B`."""
        params = [a.arg for a in fn.args.args]
        if len(params) != len(call.args) or call.keywords:
            raise Unsupported("call of a local function")
        lets = "".join(f"let {self.local(p)} := {self.e(a)}; " for p, a in zip(params, call.args))
        return f"({lets}{self.fexpr(list(fn.body))})"

    def fexpr(self, stmts):
        if not stmts:
            raise Unsupported("local function without return")
        s, rest = stmts[0], stmts[1:]
        if isinstance(s, ast.Expr) and isinstance(s.value, ast.Constant):
            return self.fexpr(rest)
        if isinstance(s, ast.Return) and s.value is not None:
            return self.e(s.value)
        if isinstance(s, ast.If):
            c = self.e(s.test)
            a = self.fexpr(list(s.body) + ([] if self.returns(s.body) else rest))
            b = self.fexpr(list(s.orelse) + ([] if s.orelse and self.returns(s.orelse) else rest))
            return f"(if {c} then {a} else {b})"
        if isinstance(s, ast.Assign) and len(s.targets) == 1 and isinstance(s.targets[0], ast.Name):
            return f"(let {self.local(s.targets[0].id)} := {self.e(s.value)}; {self.fexpr(rest)})"
        raise Unsupported(f"local function statement {type(s).__name__}")

    # ------------------------------------------------------------ statements
    def has_return(self, stmts):
        return any(isinstance(x, ast.Return) for s in stmts for x in ast.walk(s))

    def block(self, stmts, ind):
        t = self.t
        pad = "  " * ind
        if stmts:
            s, rest = stmts[0], stmts[1:]
            if isinstance(s, ast.FunctionDef):
                self.localfuncs[s.name] = s
                return self.block(rest, ind)
            if isinstance(s, ast.Return) and s.value is not None and t.ret_with_self:
                return f"{pad}return ({self.e(s.value)}, self)"
            if isinstance(s, ast.Return) and isinstance(s.value, ast.Subscript) and isinstance(s.value.value, ast.Attribute) \
                    and (self.base_name(s.value.value.value), s.value.value.attr) in t.index_attrs and t.ret.startswith("Option"):
                return f"{pad}return {self.e(s.value)}"          # a mapped lookup already is an Option
            if isinstance(s, ast.Expr) and isinstance(s.value, ast.Call) and self.dotted(s.value.func) in t.self_calls \
                    and not s.value.args and not s.value.keywords:
                return f"{pad}let self := {t.self_calls[self.dotted(s.value.func)]} self\n" + self.block(rest, ind)
            if isinstance(s, ast.Delete) and len(s.targets) == 1 and isinstance(s.targets[0], ast.Attribute):
                tg = s.targets[0]
                key = (self.base_name(tg.value), tg.attr)
                if key not in t.del_attrs:
                    raise Unsupported(f"del {self.dotted(tg)}")
                return f"{pad}let {key[0]} := {t.del_attrs[key]}\n" + self.block(rest, ind)
            if isinstance(s, ast.For) and isinstance(s.target, ast.Name) and not s.orelse and self.has_return(s.body):
                var = s.target.id
                self.loopvars.append(var)
                try:
                    cond = self.ret_cond(list(s.body), var)
                finally:
                    self.loopvars.pop()
                if not t.ret_index:
                    raise Unsupported("early return in a loop of a target that does not return positions")
                return (f"{pad}match CR.PyC04.firstIdx (fun {self.local(var)} => {cond}) ({self.e(s.iter)}) with\n"
                        f"{pad}| some i_ => return some i_\n{pad}| none =>\n" + self.block(rest, ind + 1))
            if isinstance(s, ast.For) and isinstance(s.target, ast.Name) and not s.orelse:
                acc = self.the_acc([s])
                return f"{pad}let {acc} := {self.acc_term([s], acc)}\n" + self.block(rest, ind)
            if isinstance(s, ast.If) and not s.orelse and not self.has_return(s.body) and self.only_acc(s.body):
                c = self.e(s.test)
                acc = self.the_acc(s.body)
                if c == "false":
                    return self.block(rest, ind)
                body = self.acc_term(list(s.body), acc)
                if c == "true":
                    return f"{pad}let {acc} := {body}\n" + self.block(rest, ind)
                return f"{pad}let {acc} := (if {c} then {body} else {acc})\n" + self.block(rest, ind)
        return super().block(stmts, ind)

    def ret_cond(self, stmts, var):
        """Bool: does one pass of the loop body return (the loop variable)?"""
        if not stmts:
            return "false"
        s, rest = stmts[0], stmts[1:]
        if isinstance(s, ast.Return):
            if not (isinstance(s.value, ast.Name) and s.value.id == var):
                raise Unsupported("loop returns something else than its element")
            return "true"
        if isinstance(s, ast.If):
            c = self.e(s.test)
            a = self.ret_cond(list(s.body) + ([] if self.returns(s.body) else rest), var)
            b = self.ret_cond(list(s.orelse) + ([] if s.orelse and self.returns(s.orelse) else rest), var)
            return f"(if {c} then {a} else {b})"
        if isinstance(s, ast.Assign) and len(s.targets) == 1 and isinstance(s.targets[0], ast.Name) and s.targets[0].id != var:
            return f"(let {self.local(s.targets[0].id)} := {self.e(s.value)}; {self.ret_cond(rest, var)})"
        if isinstance(s, ast.Expr) and isinstance(s.value, ast.Constant):
            return self.ret_cond(rest, var)
        raise Unsupported(f"statement {type(s).__name__} in a loop with early return")

    def appended(self, stmts):
        found = set()
        for n in ast.walk(ast.Module(body=list(stmts), type_ignores=[])):
            if isinstance(n, ast.Call) and isinstance(n.func, ast.Attribute) and n.func.attr == "append" \
                    and isinstance(n.func.value, ast.Name):
                found.add(n.func.value.id)
        return found

    def the_acc(self, stmts):
        found = self.appended(stmts)
        if len(found) != 1 or next(iter(found)) not in self.t.accs:
            raise Unsupported(f"loop accumulators {sorted(found)}")
        return next(iter(found))

    def only_acc(self, stmts):
        """the statements only run loops / appends on one declared accumulator (no other visible effect)"""
        found = self.appended(stmts)
        if len(found) != 1 or next(iter(found)) not in self.t.accs:
            return False
        return all(isinstance(s, (ast.For, ast.If, ast.Expr)) for s in stmts)

    def acc_term(self, stmts, acc):
        """Lean term for the accumulator after running `stmts`."""
        if not stmts:
            return acc
        s, rest = stmts[0], stmts[1:]
        k = self.acc_term
        if isinstance(s, ast.For) and isinstance(s.target, ast.Name) and not s.orelse:
            it = self.e(s.iter)
            before, self.uses_bind = self.uses_bind, False
            self.loopvars.append(s.target.id)
            try:
                body = k(list(s.body), acc)
            finally:
                self.loopvars.pop()
            if self.uses_bind:
                raise Unsupported("partial operation inside a loop")
            self.uses_bind = before
            upd = f"(({it}).foldl (fun {acc} {self.local(s.target.id)} => {body}) {acc})"
            return upd if not rest else f"(let {acc} := {upd}; {k(rest, acc)})"
        if isinstance(s, ast.If):
            c = self.e(s.test)
            if c == "true":
                return k(list(s.body) + rest, acc)
            if c == "false":
                return k(list(s.orelse) + rest, acc)
            return f"(if {c} then {k(list(s.body) + rest, acc)} else {k(list(s.orelse) + rest, acc)})"
        if isinstance(s, ast.Expr) and isinstance(s.value, ast.Call) and isinstance(s.value.func, ast.Attribute) \
                and s.value.func.attr == "append" and self.base_name(s.value.func.value) == acc and len(s.value.args) == 1:
            upd = f"({acc} ++ [{self.e(s.value.args[0])}])"
            return upd if not rest else f"(let {acc} := {upd}; {k(rest, acc)})"
        if isinstance(s, ast.Expr) and isinstance(s.value, ast.Constant):
            return k(rest, acc)
        if isinstance(s, ast.Assign) and len(s.targets) == 1:
            tg = s.targets[0]
            if isinstance(tg, ast.Name) and tg.id != acc:
                return f"(let {self.local(tg.id)} := {self.e(s.value)}; {k(rest, acc)})"
            if isinstance(tg, ast.Attribute) and (self.norm(self.dotted(tg.value)), tg.attr) in self.t.assign_attrs:
                tmpl = self.t.assign_attrs[(self.norm(self.dotted(tg.value)), tg.attr)][0]
                var = self.local(self.dotted(tg.value))
                return f"(let {var} := {tmpl.format(v=self.e(s.value), o=var)}; {k(rest, acc)})"
        raise Unsupported(f"loop statement {type(s).__name__}")


# ---------------------------------------------------------------------------------------------------- targets
def targets():
    OB = "commonroad/scenario/obstacle.py"
    PR = "commonroad/prediction/prediction.py"
    SC = "commonroad/scenario/scenario.py"
    SH = "commonroad/geometry/shape.py"
    U = "commonroad/common/util.py"
    V = "commonroad/common/validity.py"
    TLF = "commonroad/scenario/traffic_light.py"
    I = {("self", "_start"): "self.lo", ("self", "start"): "self.lo", ("self", "_end"): "self.hi", ("self", "end"): "self.hi"}
    occ_kw = {"Occupancy": ["time_step", "shape"]}
    occ_call = {"Occupancy": ("(CR.PyC04.occupancy {0} {1})", False)}
    roles = {"ObstacleRole.DYNAMIC": "CR.Occ.Role.dynamic", "ObstacleRole.STATIC": "CR.Occ.Role.static",
             "ObstacleRole.Phantom": "CR.Occ.Role.phantom", "ObstacleRole.ENVIRONMENT": "CR.Occ.Role.environment"}
    scn = {"self._static_obstacles.values": ("(CR.PyC04.values s.st)", False),
           "self._dynamic_obstacles.values": ("(CR.PyC04.values s.dy)", False),
           "self._phantom_obstacle.values": ("(CR.PyC04.values s.ph)", False),
           "self._environment_obstacle.values": ("(CR.PyC04.values s.en)", False)}
    scn = {k: (v[0] + "{x}", v[1]) for k, v in scn.items()}     # templated form (no arguments)
    OBJ = "CR.TL.Hist.Obj"
    ts = [
        # ------------------------------------------------------------------ C04: per-obstacle dispatch
        T4("StaticObstacle_occupancy_at_time", OB, "occupancy_at_time", "StaticObstacle", [("time_step", "time_step : Int")],
           "Option (Int × CR.Occ.Occ)",
           attrs={("self", "_initial_occupancy_shape"): "CR.Occ.Occ.init", ("self", "_obstacle_shape"): "CR.Occ.Occ.shape",
                  ("self", "obstacle_shape"): "CR.Occ.Occ.shape"}, kwnames=occ_kw,
           calls=occ_call, doc="`self._initial_occupancy_shape` is the symbolic `Occ.init`"),
        T4("StaticObstacle_state_at_time", OB, "state_at_time", "StaticObstacle", [("time_step", "time_step : Int")],
           "Option CR.Occ.StRef", attrs={("self", "initial_state"): "CR.Occ.StRef.init", ("self", "_initial_state"): "CR.Occ.StRef.init"}),
        T4("EnvironmentObstacle_occupancy_at_time", OB, "occupancy_at_time", "EnvironmentObstacle",
           [("time_step", "time_step : Int")], "Option (Int × CR.Occ.Occ)",
           attrs={("self", "_obstacle_shape"): "CR.Occ.Occ.shape", ("self", "obstacle_shape"): "CR.Occ.Occ.shape"}, kwnames=occ_kw,
           calls=occ_call, doc="`self._obstacle_shape` is the symbolic `Occ.shape`"),
        T4("PhantomObstacle_state_at_time", OB, "state_at_time", "PhantomObstacle", [], "Option CR.Occ.StRef"),
        T4("Prediction_occupancy_at_time_step", PR, "occupancy_at_time_step", "Prediction",
           [(None, "occs : List CR.Occ.TS"), ("time_step", "time_step : Int")], "Option Nat",
           attrs={("self", "occupancy_set"): "occs", ("self", "_occupancy_set"): "occs"}, types={"time_step": "int"},
           tmpl={"*.time_step": "(CR.PyC04.tsInt {v})"},
           dyn_isinstance={("*.time_step", "Interval"): "(CR.PyC04.tsIsInterval {v})",
                           ("*.time_step", "int"): "(CR.PyC04.tsIsInt {v})"},
           calls={"*.time_step.contains": ("(Interval_contains_num (CR.PyC04.tsInterval {v}) (({0} : Int) : Rat))", False)},
           monadic=True, ret_index=True,
           doc="the stored occupancies are given by their time stamps; the returned occupancy by its position in the list; "
               "`Interval.contains` is the function translated in Gen.Src"),
        T4("SetBasedPrediction_occupancy_set", PR, "occupancy_set", "SetBasedPrediction", [(None, "occs : List CR.Occ.TS")],
           "List CR.Occ.TS", attrs={("self", "_occupancy_set"): "occs"}),
        T4("TrajectoryPrediction_create_occupancy_set", PR, "_create_occupancy_set", "TrajectoryPrediction",
           [(None, "wb : Option (List Rat)"), (None, "states : List CR.PyC04.TState")], "List (Int × CR.PyC04.Region)",
           attrs={("self", "_shape"): "CR.PyC04.ShapeRef.own", ("self", "wheelbase_lengths"): "wb",
                  ("self", "_wheelbase_lengths"): "wb"},
           opt_attrs={("self", "wheelbase_lengths"): "wb", ("self", "_wheelbase_lengths"): "wb"},
           names={"self._trajectory.state_list": "states", "self._trajectory._state_list": "states",
                  "self.trajectory.state_list": "states", "self._shape.shapes": "CR.PyC04.ShapeRef.members",
                  "self.shape.shapes": "CR.PyC04.ShapeRef.members"},
           tmpl={"*.time_step": "{v}.time_step", "*.velocity": '"velocity"', "*.velocity_y": '"velocity_y"',
                 "hasattr:*:orientation": "{v}.hasOrientation", "getattr:*:velocity_y": '"velocity_y"',
                 "getattr:*:velocity": '"velocity"'},
           calls={"math.atan2": ("(CR.PyC04.Heading.atan2 {0} {1})", False), "np.arctan2": ("(CR.PyC04.Heading.atan2 {0} {1})", False),
                  "copy.copy": ("(CR.PyC04.copyState {0})", False), "copy": ("(CR.PyC04.copyState {0})", False),
                  "occupancy_shape_from_state": ("(CR.PyC04.regionOf {0} {1})", False),
                  "shape_group_occupancy_shape_from_state": ("(CR.PyC04.regionTrailer {0} {1} {2})", False), **occ_call},
           kwnames=occ_kw, assign_attrs={("*", "orientation"): ("{{ {o} with heading := {v} }}", False, False)},
           accs={"occupancy_set": "Int × CR.PyC04.Region"},
           doc="one occupancy per state: (the state's own time step, the region placed at THAT state); a state without "
               "orientation gets atan2 of two named attributes"),
        T4("TrajectoryPrediction_occupancy_set", PR, "occupancy_set", "TrajectoryPrediction",
           [(None, "wb : Option (List Rat)"), (None, "states : List CR.PyC04.TState")], "List (Int × CR.PyC04.Region)",
           calls={"self._create_occupancy_set": ("(TrajectoryPrediction_create_occupancy_set wb states{x})", False)},
           doc="cached property: its value is what _create_occupancy_set computes"),
        # ------------------------------------------------------------------ C04: scenario level
        T4("Scenario_obstacles", SC, "obstacles", "Scenario", [(None, "s : CR.Occ.Scn")], "List (Nat × CR.Occ.Obst)",
           calls={**scn, "itertools.chain": ("(CR.PyC04.chain4 {0} {1} {2} {3})", False)},
           doc="the four dictionaries in the order static, dynamic, phantom, environment"),
        T4("Scenario_dynamic_obstacles", SC, "dynamic_obstacles", "Scenario", [(None, "s : CR.Occ.Scn")],
           "List (Nat × CR.Occ.Obst)", calls=scn),
        T4("Scenario_static_obstacles", SC, "static_obstacles", "Scenario", [(None, "s : CR.Occ.Scn")],
           "List (Nat × CR.Occ.Obst)", calls=scn),
        T4("Scenario_phantom_obstacle", SC, "phantom_obstacle", "Scenario", [(None, "s : CR.Occ.Scn")],
           "List (Nat × CR.Occ.Obst)", calls=scn),
        T4("Scenario_environment_obstacle", SC, "environment_obstacle", "Scenario", [(None, "s : CR.Occ.Scn")],
           "List (Nat × CR.Occ.Obst)", calls=scn),
        T4("Scenario_obstacle_by_id", SC, "obstacle_by_id", "Scenario", [(None, "s : CR.Occ.Scn"), ("obstacle_id", "obstacle_id : Nat")],
           "Option (Nat × CR.Occ.Obst)",
           tmpl={"in:self._static_obstacles": "(CR.PyC04.hasKey s.st {x})", "in:self._dynamic_obstacles": "(CR.PyC04.hasKey s.dy {x})",
                 "in:self._phantom_obstacle": "(CR.PyC04.hasKey s.ph {x})", "in:self._environment_obstacle": "(CR.PyC04.hasKey s.en {x})"},
           index_attrs={("self", "_static_obstacles"): "(CR.PyC04.getKey s.st {i})", ("self", "_dynamic_obstacles"): "(CR.PyC04.getKey s.dy {i})",
                        ("self", "_phantom_obstacle"): "(CR.PyC04.getKey s.ph {i})",
                        ("self", "_environment_obstacle"): "(CR.PyC04.getKey s.en {i})"},
           calls={"is_integer_number": ("const:true", False)}, monadic=True,
           doc="the dictionaries are looked up in the order static, dynamic, phantom, environment"),
        T4("Scenario_obstacles_by_position_intervals", SC, "obstacles_by_position_intervals", "Scenario",
           [(None, "obs : List (Nat × CR.Occ.Obst)"), (None, "ctr : Nat → Option (Rat × Rat)"), (None, "ix iy : CR.Iv.I"),
            ("obstacle_role", "obstacle_role : List CR.Occ.Role"), ("time_step", "time_step : Int")], "List (Nat × CR.Occ.Obst)",
           attrs={("self", "dynamic_obstacles"): "(obs.filter (fun o => decide (o.2.role = .dynamic)))",
                  ("self", "static_obstacles"): "(obs.filter (fun o => decide (o.2.role = .static)))",
                  ("self", "phantom_obstacle"): "(obs.filter (fun o => decide (o.2.role = .phantom)))",
                  ("self", "environment_obstacle"): "(obs.filter (fun o => decide (o.2.role = .environment)))"},
           names=roles, types={"time_step": "int"},
           tmpl={"in:obstacle_role": "(decide ({x} ∈ obstacle_role))",
                 "hasattr:occ.shape:center": "(ctr {lv}.1).isSome", "occ.shape.center": "((ctr {lv}.1).getD (0, 0))",
                 "hasattr:*.obstacle_shape:center": "(ctr {v}.1).isSome", "*.obstacle_shape.center": "((ctr {v}.1).getD (0, 0))",
                 "*.initial_state.position": "((ctr {v}.1).getD (0, 0))",
                 "position[0]": "position.1", "position[1]": "position.2"},
           calls={"*.occupancy_at_time": ("(CR.Occ.occupancyAt {v}.2 {0})", False),
                  "position_intervals[0].contains": ("(Interval_contains_num ix {0})", False),
                  "position_intervals[1].contains": ("(Interval_contains_num iy {0})", False)},
           accs={"obstacle_list": "Nat × CR.Occ.Obst"},
           doc="`ctr i` is the centre obstacle i offers at the time step (none: its shape has no `center`); "
               "`position_intervals` = [ix, iy]; `self.<role>_obstacles` are the obstacles of that role in scenario order"),
        # ------------------------------------------------------------------ C04: placement geometry
        T4("Rectangle_rotate_translate_local", SH, "rotate_translate_local", "Rectangle",
           [(None, "τ : Rat"), (None, "l w : Rat"), (None, "ctr : CR.Rigid.Pt"), (None, "θ : Rat"),
            ("translation", "translation : CR.Rigid.Pt"), ("angle", "angle : Rat")], "CR.Rigid.Shape",
           attrs={("self", "_center"): "ctr", ("self", "center"): "ctr", ("self", "_orientation"): "θ", ("self", "orientation"): "θ",
                  ("self", "_length"): "l", ("self", "length"): "l", ("self", "_width"): "w", ("self", "width"): "w"},
           calls={"make_valid_orientation": ("(CR.Iv.makeValid τ {0})", False), "Rectangle": ("(CR.Rigid.Shape.rect {0} {1} {2} {3})", False)},
           kwnames={"Rectangle": ["length", "width", "center", "orientation"]}, points=["ctr", "translation"],
           doc="`make_valid_orientation` is the model's makeValid (tied in T16)"),
        T4("Circle_rotate_translate_local", SH, "rotate_translate_local", "Circle",
           [(None, "r : Rat"), (None, "ctr : CR.Rigid.Pt"), ("translation", "translation : CR.Rigid.Pt"), ("angle", "angle : Rat")],
           "CR.Rigid.Shape", attrs={("self", "_center"): "ctr", ("self", "center"): "ctr", ("self", "_radius"): "r", ("self", "radius"): "r"},
           calls={"is_real_number_vector": ("const:true", False), "Circle": ("(CR.Rigid.Shape.circ {0} {1})", False)},
           kwnames={"Circle": ["radius", "center"]}, monadic=True, points=["ctr", "translation"]),
        T4("Polygon_rotate_translate_local", SH, "rotate_translate_local", "Polygon",
           [(None, "τ : Rat"), (None, "cosf sinf : Rat → Rat"), (None, "vs : List CR.Rigid.Pt"), ("translation", "translation : CR.Rigid.Pt"),
            ("angle", "angle : Rat")],
           "CR.Rigid.Shape", attrs={("self", "_shapely_polygon"): "vs", ("self", "shapely_object"): "vs"}, points=["translation"],
           tmpl={"rotated_shapely_polygon.exterior.coords": "rotated_shapely_polygon"},
           calls={"is_real_number_vector": ("const:true", False), "is_valid_orientation": ("(CR.Iv.validOrientation τ {0})", False),
                  "shapely.affinity.rotate": ("(CR.PyC04.shapelyRotate cosf sinf {0} {1} {2} {3})", False),
                  "np.array": ("{0}", False), "Polygon": ("(CR.Rigid.Shape.poly {0})", False)},
           kwnames={"shapely.affinity.rotate": ["geom", "angle", "origin", "use_radians"], "Polygon": ["vertices"]}, monadic=True,
           doc="cosf / sinf stand for cos / sin; shapely's rotation is CR.PyC04.shapelyRotate"),
        T4("ShapeGroup_rotate_translate_local", SH, "rotate_translate_local", "ShapeGroup",
           [(None, "τ : Rat"), (None, "cosf sinf : Rat → Rat"), (None, "ss : List CR.Rigid.Shape"), ("translation", "translation : CR.Rigid.Pt"),
            ("angle", "angle : Rat")],
           "CR.Rigid.Shape", attrs={("self", "_shapes"): "ss", ("self", "shapes"): "ss"},
           calls={"is_real_number_vector": ("const:true", False), "is_valid_orientation": ("(CR.Iv.validOrientation τ {0})", False),
                  "*.rotate_translate_local": ("(CR.Place.place (cosf {1}) (sinf {1}) {1} τ {0} {v})", False),
                  "ShapeGroup": ("(CR.Rigid.Shape.group {0})", False)},
           kwnames={"ShapeGroup": ["shapes"]}, accs={"new_shapes": "CR.Rigid.Shape"}, monadic=True,
           doc="`s.rotate_translate_local` on a member is the model's dispatch Place.place (its branches are the ties of this file)"),
        T4("occupancy_shape_from_state_exact", SH, "occupancy_shape_from_state", None,
           [(None, "τ : Rat"), (None, "cosf sinf : Rat → Rat"), ("shape", "shape : CR.Rigid.Shape"), (None, "pos : CR.Rigid.Pt"),
            (None, "ori : Rat")], "CR.Rigid.Shape",
           tmpl={"state.is_uncertain_position": "false", "state.is_uncertain_orientation": "false", "state.position": "pos",
                 "state.orientation": "ori"},
           dyn_isinstance={("shape", "ShapeGroup"): "(CR.PyC04.isGroup shape)"},
           calls={"shape.rotate_translate_local": ("CR.Place.placeChk (cosf {1}) (sinf {1}) {1} τ {0} shape", True)}, monadic=True,
           doc="exact state (position a point, orientation a number): the uncertain branches are statically dead; "
               "`shape.rotate_translate_local` is the dispatch placeChk whose four branches are the ties above"),
        T4("occupancy_shape_from_state_uncertain", SH, "occupancy_shape_from_state", None,
           [(None, "cosf sinf arctanf : Rat → Rat"), (None, "lv wv : Rat"), (None, "sc : CR.Rigid.Pt"), (None, "olo ohi : Rat"),
            (None, "ls ws : Rat"), (None, "pc : CR.Rigid.Pt")], "CR.Rigid.Shape",
           types={"shape": "Rectangle", "state.position": "Rectangle"}, points=["center", "sc"],
           tmpl={"state.is_uncertain_position": "true", "state.is_uncertain_orientation": "true",
                 "state.orientation.start": "olo", "state.orientation.length": "(ohi - olo)", "state.position.center": "pc",
                 "shape.center": "sc"},
           dyn_isinstance={("shape", "ShapeGroup"): "false", ("shape", "Rectangle"): "true", ("shape", "Polygon"): "false",
                           ("shape", "Circle"): "false", ("state.position", "Rectangle"): "true",
                           ("state.position", "Polygon"): "false", ("state.position", "Circle"): "false"},
           calls={"_centered_extent": ("(CR.PyC04.extentOf {0} lv wv ls ws)", False),
                  "state.position.rotate_translate_local": ("(CR.PyC04.ShapeTag.rotatedRegion {1})", False),
                  "np.arctan": ("(arctanf {0})", False), "np.cos": ("(cosf {0})", False), "np.sin": ("(sinf {0})", False),
                  "np.abs": ("(CR.PyC04.absR {0})", False), "np.array": ("(0 : Rat)", False),
                  "Rectangle": ("(CR.Rigid.Shape.rect {0} {1} {2} {3})", False)},
           names={"shape": "CR.PyC04.ShapeTag.shape"},
           kwnames={"Rectangle": ["length", "width", "center", "orientation"]}, monadic=True,
           doc="rectangle / polygon shape, orientation an AngleInterval [olo, ohi], position a rectangle / polygon region with "
               "centre pc: (lv, wv) = _centered_extent(shape), (ls, ws) = _centered_extent(region turned by -psi_d), sc = shape.center"),
        # ------------------------------------------------------------------ C16
        T4("Interval_round", U, "__round__", "Interval", [(None, "rnd : Option Int → Rat → Rat"), ("self", "self : CR.Iv.I"), ("n", "n : Option Int")],
           "CR.Iv.I", attrs=dict(I), monadic=True,
           calls={"round": ("(rnd {1} {0})", False), "type(self)": ("Interval_new", True), "Interval": ("Interval_new", True)},
           doc="`round(x, n)` is the parameter `rnd n x`; the constructor is the one translated in Gen.Src"),
        T4("Interval_dunder_contains", U, "__contains__", "Interval", [("self", "self : CR.Iv.I"), ("value", "value : Rat")], "Bool",
           attrs=dict(I), calls={"self.contains": ("Interval_contains_num self", False)}),
        T4("AngleInterval_add", U, "__add__", "Interval",
           [(None, "τ : Rat"), (None, "fuel : Nat"), ("self", "self : CR.Iv.I"), ("other", "other : Rat")], "CR.Iv.I",
           attrs=dict(I), monadic=True, calls={"type(self)": ("AngleInterval_new τ fuel", True)},
           doc="Interval.__add__ run on an AngleInterval: `type(self)` is the AngleInterval constructor translated in Gen.Src"),
        T4("AngleInterval_sub", U, "__sub__", "Interval",
           [(None, "τ : Rat"), (None, "fuel : Nat"), ("self", "self : CR.Iv.I"), ("other", "other : Rat")], "CR.Iv.I",
           attrs=dict(I), monadic=True, calls={"type(self)": ("AngleInterval_new τ fuel", True)},
           doc="Interval.__sub__ run on an AngleInterval"),
        T4("is_in_interval", V, "is_in_interval", None, [("x", "x : Rat"), ("x_min", "x_min : Rat"), ("x_max", "x_max : Rat")], "Bool",
           types={"x": "num", "x_min": "num", "x_max": "num"}, monadic=True,
           calls={"is_real_number": ("const:true", False), "npy.greater": ("decide ({0} > {1})", False),
                  "npy.greater_equal": ("decide ({0} ≥ {1})", False), "np.greater": ("decide ({0} > {1})", False),
                  "np.greater_equal": ("decide ({0} ≥ {1})", False)},
           doc="scalar arguments, both bounds given"),
        T4("is_valid_orientation", V, "is_valid_orientation", None, [(None, "τ : Rat"), ("theta", "theta : Rat")], "Bool",
           names={"TWO_PI": "τ"}, monadic=True, calls={"is_in_interval": ("is_in_interval", True)}),
        # ------------------------------------------------------------------ C17: the cycle object and its memoised table
        T4("TrafficLightCycle_invalidate", TLF, "_invalidate_cycle_init_timesteps", "TrafficLightCycle", [("self", f"self : {OBJ}")], OBJ,
           tmpl={"hasattr:self:_cycle_init_timesteps": "(self.table).isSome"},
           del_attrs={("self", "_cycle_init_timesteps"): "{ self with table := none }"}, setter=False,
           doc="drops the memoised table"),
        T4("TrafficLightCycle_set_time_offset", TLF, "time_offset", "TrafficLightCycle",
           [("self", f"self : {OBJ}"), ("time_offset", "time_offset : Int")], OBJ, setter=True,
           assign_attrs={("self", "_time_offset"): ("{{ self with off := {v} }}", False, False)},
           self_calls={"self._invalidate_cycle_init_timesteps": "TrafficLightCycle_invalidate"}),
        T4("TrafficLightCycle_set_cycle_elements", TLF, "cycle_elements", "TrafficLightCycle",
           [("self", f"self : {OBJ}"), ("cycle_elements", "cycle_elements : List CR.TL.Elem × List Nat")], OBJ, setter=True,
           assign_attrs={("self", "_cycle_elements"): ("{{ self with es := ({v}).1, cls := ({v}).2 }}", False, False)},
           self_calls={"self._invalidate_cycle_init_timesteps": "TrafficLightCycle_invalidate"},
           doc="the new list comes with the identity classes of its element objects"),
        T4("TrafficLightCycle_cycle_init_timesteps_memo", TLF, "cycle_init_timesteps", "TrafficLightCycle", [("self", f"self : {OBJ}")],
           f"List Int × {OBJ}", ret_with_self=True,
           attrs={("self", "_cycle_elements"): "self.es", ("self", "cycle_elements"): "self.es", ("self", "time_offset"): "self.off",
                  ("self", "_time_offset"): "self.off", ("self", "_cycle_init_timesteps"): "(self.table.getD [])",
                  ("*", "duration"): "{v}.2"},
           tmpl={"hasattr:self:_cycle_init_timesteps": "(self.table).isSome", "*.duration": "{v}.2"},
           assign_attrs={("self", "_cycle_init_timesteps"): ("{{ self with table := some {v} }}", False, False)},
           calls={"np.array_equal": ("decide ({0} = {1})", False), "np.diff": ("(CR.PyC04.diffs {0})", False)},
           doc="the memoised property as a whole: (returned table, object afterwards)"),
    ]
    for t in ts:
        if t.name == "TrafficLightCycle_invalidate":
            t.ret_self = True
    return ts


def translate_target(repo, t):
    src = open(os.path.join(repo, t.file), encoding="utf-8").read()
    fn = find_func(ast.parse(src), t.cls, t.func, t.setter)
    return Tr4(t).function(fn)


HEADER = """/-
  Gen.SrcC04 — GENERATED on every run by harness/translate/src_c04.py from the current source of the repository. Do not edit.
-/
import Gen.Src
import CRModel.PyExtC04
set_option linter.unusedVariables false
namespace Gen
open CR

/-- (fixed text) `Interval(a, b)`: the constructor translated in Gen.Src, its two fields read back -/
def Interval_new (a b : Rat) : Res CR.Iv.I := do
  match (← Interval_init a b) with
  | (some lo, some hi) => return ⟨lo, hi⟩
  | _ => throw .assert

/-- (fixed text) `AngleInterval(a, b)`: the constructor translated in Gen.Src, its two fields read back -/
def AngleInterval_new (τ : Rat) (fuel : Nat) (a b : Rat) : Res CR.Iv.I := do
  match (← AngleInterval_init τ fuel a b) with
  | (some lo, some hi) => return ⟨lo, hi⟩
  | _ => throw .assert

"""


def regenerate(repo, gen_dir):
    os.makedirs(gen_dir, exist_ok=True)
    os.makedirs(LASTGOOD, exist_ok=True)
    status, chunks = {}, []
    for t in targets():
        lg = os.path.join(LASTGOOD, PREFIX + t.name + ".lean")
        try:
            txt = translate_target(repo, t)
            status[PREFIX + t.name] = "ok"
        except (Unsupported, SyntaxError, KeyError, IndexError, AttributeError, OSError, ValueError, TypeError) as e:
            if os.path.exists(lg):
                txt = open(lg).read()
                status[PREFIX + t.name] = f"lost ({type(e).__name__}: {e}); last good translation used"
            else:
                txt = f"-- {t.name}: not translatable ({e})\n"
                status[PREFIX + t.name] = f"lost ({type(e).__name__}: {e}); no fallback"
        chunks.append(txt)
    new = HEADER + "\n".join(chunks) + "\nend Gen\n"
    path = os.path.join(gen_dir, OUT)
    old = open(path).read() if os.path.exists(path) else None
    if old != new:
        with open(path, "w") as f:
            f.write(new)
    return status


def update_lastgood(repo):
    os.makedirs(LASTGOOD, exist_ok=True)
    for t in targets():
        open(os.path.join(LASTGOOD, PREFIX + t.name + ".lean"), "w").write(translate_target(repo, t))


if __name__ == "__main__":
    import sys
    repo = os.environ.get("VERIF_REPO", "/repo")
    if len(sys.argv) > 1 and sys.argv[1] == "--update-lastgood":
        update_lastgood(repo)
    st = regenerate(repo, os.path.join(os.path.dirname(os.path.dirname(os.path.dirname(os.path.abspath(__file__)))), "lean", "Gen"))
    for k, v in st.items():
        print(k, v)
