"""py -> Lean translator for the protobuf codec of commonroad-io (translator tie T02 of property C02).

  source   commonroad/common/writer/file_writer_protobuf.py   (XxxMessage.create_message, the three `_add…` helpers)
           commonroad/common/reader/file_reader_protobuf.py   (XxxFactory.create_from_message)
           commonroad/scenario_definition/protobuf_format/generated_scripts/*_pb2.py  (the descriptors the code runs with)
  output   lean/Gen/SrcC02.lean  (module Gen.SrcC02, namespace Gen; rewritten only when the text changes)
  fallback harness/translate/lastgood/C02_<target>.lean (a target that cannot be translated any more => `lost`, last good text)

WRITER (functional translation by symbolic execution).  A `create_message` body fills ONE protobuf message object:
  m = xxx_pb2.X()                         the message; its fields and their types come from the descriptor in *_pb2.py
  m.f = e                                 singular scalar  -> ("f", PB.<u32|i32|dbl|bool|str> e) by the DESCRIPTOR's field type
  m.f = pb2.E.Value(x.name | "LIT")       enum by member NAME -> ("f", PB.enum "E" x)
  m.f.CopyFrom(sub)                       sub-message      -> ("f", sub)
  m.f.append(e)                           repeated field   -> one more element of the list behind ("f", PB.rep …)
  for v in xs: …append…                   -> List.map (fun v => element) xs appended to that list
  if x is not None: …                     x : Option -> PB.ofOpt (Option.map (fun v => …) x) / match;  x not optional in the
                                          snapshot types (the accessor never returns None) -> the guard is statically true
  if b: … else: …                         b : Bool -> if b then … else …
  if isinstance(x, C): … elif …           x of a declared sum type -> match x with | ctor … (per field, or hoisted to the top)
  local = <expr>, return m
Setting DISTINCT fields of a protobuf message commutes, so the fields are emitted in a fixed canonical order (table CANON;
fields the table does not know follow in statement order) — reordering independent statements of the writer gives the same
Lean text; a dropped, added, re-guarded, re-typed or re-sourced field does not.  Null padding (`("f", PB.null)` for a field
that is not set) is the model's convention for optional fields and carries no content.

READER (functional translation of the same statement forms, read direction) — see ReaderTr below.

The python attribute -> snapshot field maps of the targets are the same correspondence harness/c02_snapshot.py implements."""
from __future__ import annotations

import ast
import copy
import glob
import os

try:
    from translate.pysrc import Unsupported, find_func
except ImportError:  # run as a script
    import sys
    sys.path.insert(0, os.path.dirname(os.path.dirname(os.path.abspath(__file__))))
    from translate.pysrc import Unsupported, find_func

HERE = os.path.dirname(os.path.abspath(__file__))
LASTGOOD = os.path.join(HERE, "lastgood")
WRITER = "commonroad/common/writer/file_writer_protobuf.py"
READER = "commonroad/common/reader/file_reader_protobuf.py"
PB2_DIR = "commonroad/scenario_definition/protobuf_format/generated_scripts"

# ------------------------------------------------------------------------------------------------ descriptors

_TYPES = {1: "double", 5: "int32", 8: "bool", 9: "string", 11: "message", 13: "uint32", 14: "enum"}
_LABELS = {1: "optional", 2: "required", 3: "repeated"}


def load_descriptors(repo):
    """message name -> [(field, label, type, type name, oneof name | None)] read from the serialized descriptors inside the
    *_pb2.py files WITHOUT importing them; enums: enum name -> [member names]."""
    from google.protobuf import descriptor_pb2
    msgs, enums = {}, {}

    def walk(m, prefix=""):
        fields = []
        for f in m.field:
            ty = _TYPES.get(f.type)
            if ty is None:
                raise Unsupported(f"field type {f.type} of {m.name}.{f.name}")
            oneof = m.oneof_decl[f.oneof_index].name if f.HasField("oneof_index") else None
            fields.append((f.name, _LABELS[f.label], ty, f.type_name.split(".")[-1] if f.type_name else "", oneof))
        msgs[m.name] = fields
        for e in m.enum_type:
            enums[e.name] = [v.name for v in e.value]
        for n in m.nested_type:
            walk(n)

    for path in sorted(glob.glob(os.path.join(repo, PB2_DIR, "*_pb2.py"))):
        tree = ast.parse(open(path, encoding="utf-8").read())
        blob = None
        for n in ast.walk(tree):
            if isinstance(n, ast.keyword) and n.arg == "serialized_pb":
                v = n.value
                if isinstance(v, ast.Call) and v.args and isinstance(v.args[0], ast.Constant):
                    c = v.args[0].value
                    blob = c.encode("latin1") if isinstance(c, str) else c
                elif isinstance(v, ast.Constant):
                    blob = v.value if isinstance(v.value, bytes) else v.value.encode("latin1")
                break
            if isinstance(n, ast.Call) and isinstance(n.func, ast.Attribute) and n.func.attr == "AddSerializedFile" and n.args \
                    and isinstance(n.args[0], ast.Constant) and isinstance(n.args[0].value, bytes):
                blob = n.args[0].value
                break
        if blob is None:
            raise Unsupported(f"no serialized descriptor in {os.path.basename(path)}")
        fdp = descriptor_pb2.FileDescriptorProto.FromString(blob)
        for m in fdp.message_type:
            walk(m)
        for e in fdp.enum_type:
            enums[e.name] = [v.name for v in e.value]
    return msgs, enums


def q(s):
    return '"' + s.replace("\\", "\\\\").replace('"', '\\"') + '"'


# ------------------------------------------------------------------------------------------------ symbolic values

class V:
    """symbolic value: Lean text + a type tag (Int, Dbl, Bool, Str, Name, Enum, Msg, `List T`, `Option T`, a structure name)"""
    __slots__ = ("lean", "ty", "extra")

    def __init__(self, lean, ty, extra=None):
        self.lean, self.ty, self.extra = lean, ty, extra

    def __repr__(self):
        return f"V({self.lean!r}, {self.ty!r})"


class Ctor:
    """one constructor of a sum-typed python value: Lean pattern, the python classes it stands for, the value the variable is
    refined to inside the branch (text handed on to callees) and extra refinements (expression text -> V)"""

    def __init__(self, pat, classes, refined, extra=None, other=False, absent=False):
        self.pat, self.classes, self.refined, self.extra = pat, list(classes), refined, extra or {}
        self.other = other        # taken by the `else` branch of a dispatch (any class not tested)
        self.absent = absent      # the value does not exist: the statement is not reached at all


class WT:
    """one writer target"""

    def __init__(self, name, cls, params, vals, func="create_message", sums=None, hoist=False, ignore=(), static_false=(),
                 msgvar=None, msgtype=None, doc="", model="", calls=None, unroll=None):
        self.name, self.cls, self.func = name, cls, func
        self.params = params          # lean binder text
        self.vals = vals              # python expression text -> V
        self.sums = sums or {}        # python expression text -> [Ctor]  (isinstance dispatch)
        self.hoist = hoist            # emit the dispatch as ONE match at the top (each branch its own message)
        self.ignore = set(ignore)     # fields that are not content (date stamp)
        self.static_false = set(static_false)   # isinstance tests that are False for every snapshot value
        self.msgvar, self.msgtype = msgvar, msgtype   # pre-existing message (the writer's self._commonroad_msg)
        self.doc, self.model = doc, model
        self.calls = calls or {}      # per-target override of CALLS
        self.unroll = unroll or {}    # loop over attribute NAMES: iterable text -> [("const", name) | ("generic", list, binder, name V, value V)]
        self.file = WRITER


# calls of other translated builders / of model functions: python callee text -> (lean function, [argument type tags])
CALLS = {
    "PointMessage.create_message": ("W_Point", ["Pt"]),
    "RectangleMessage.create_message": ("W_Rectangle", ["RectArgs"]),
    "CircleMessage.create_message": ("W_Circle", ["CircArgs"]),
    "PolygonMessage.create_message": ("W_Polygon", ["List Pt"]),
    "ShapeGroupMessage.create_message": ("W_ShapeGroup rec", ["List Shape"]),
    "IntegerIntervalMessage.create_message": ("W_IntegerInterval", ["IntIvArgs"]),
    "FloatIntervalMessage.create_message": ("W_FloatInterval", ["FloatIvArgs"]),
    "IntegerExactOrIntervalMessage.create_message": ("W_IntegerExactOrInterval", ["IntEOI"]),
    "FloatExactOrIntervalMessage.create_message": ("W_FloatExactOrInterval", ["FloatEOI"]),
    # ShapeMessage is recursive through ShapeGroupMessage: the generated W_Shape is ONE layer with the recursive call as a
    # parameter `rec`; tie_W_Shape proves the model's encShape is its fixed point, so callers use encShape
    "ShapeMessage.create_message": ("CR.PBF.encShape", ["Shape"]),
    # message `State` / `SignalState` are filled by getattr/setattr loops over attribute NAMES: translated separately (W_State…)
    # message `State` is filled through getattr(msg, <name>): W_State is tied to encState up to null padding (tie_W_State), so the
    # callers use the model's encState
    "StateMessage.create_message": ("CR.PBF.encState", ["St"]),
    "SignalStateMessage.create_message": ("W_SignalState", ["Sig"]),
    "TimeStampMessage.create_message": ("W_TimeStamp", ["Tm"]),
    "GeoTransformationMessage.create_message": ("W_GeoTransformation", ["Geo"]),
    "EnvironmentMessage.create_message": ("W_Environment", ["Envr"]),
    "BoundMessage.create_message": ("W_Bound", ["List Pt", "Option Enum"]),
    "StopLineMessage.create_message": ("W_StopLine", ["Stop"]),
    "TrafficSignElementMessage.create_message": ("W_TrafficSignElement", ["SignEl"]),
    "CycleElementMessage.create_message": ("W_CycleElement", ["CycEl"]),
    "IncomingMessage.create_message": ("W_Incoming", ["Incoming"]),
    "TrajectoryMessage.create_message": ("W_Trajectory", ["TrajArgs"]),
    "OccupancySetMessage.create_message": ("W_OccupancySet", ["List Occ"]),
    "OccupancyMessage.create_message": ("W_Occupancy", ["Occ"]),
    "TrajectoryPredictionMessage.create_message": ("W_TrajectoryPrediction", ["TrajPredArgs"]),
    "SetBasedPredictionMessage.create_message": ("W_SetBasedPrediction", ["SetPred"]),
    "GoalStateMessage.create_message": ("W_GoalState", ["St", "List Int"]),
    "ScenarioInformationMessage.create_message": ("W_ScenarioInformation", ["Str", "Str", "Str", "Str", "Str", "Dbl"]),
    "ScenarioTagsMessage.create_message": ("W_ScenarioTags", ["List Enum"]),
    "LocationMessage.create_message": ("W_Location", ["Loc"]),
    "LaneletMessage.create_message": ("W_Lanelet", ["Lanelet"]),
    "TrafficSignMessage.create_message": ("W_TrafficSign", ["Sign"]),
    "TrafficLightMessage.create_message": ("W_TrafficLight", ["Light"]),
    "IntersectionMessage.create_message": ("W_Intersection", ["Inter"]),
    "StaticObstacleMessage.create_message": ("W_StaticObstacle", ["StaticObs"]),
    "DynamicObstacleMessage.create_message": ("W_DynamicObstacle", ["DynObs"]),
    "EnvironmentObstacleMessage.create_message": ("W_EnvironmentObstacle", ["EnvObs"]),
    "PhantomObstacleMessage.create_message": ("W_PhantomObstacle", ["Phantom"]),
    "PlanningProblemMessage.create_message": ("W_PlanningProblem", ["PPRaw"]),
}

# canonical field order per message (see module docstring); any fixed order would do
CANON = {
    "Rectangle": ["length", "width", "center", "orientation"],
    "Circle": ["radius", "center"],
    "IntegerInterval": ["start", "end"], "FloatInterval": ["start", "end"],
    "Point": ["x", "y"],
    "SignalState": ["time_step", "horn", "indicator_left", "indicator_right", "braking_lights", "hazard_warning_lights",
                    "flashing_blue_lights"],
    "Occupancy": ["time_step", "shape"],
    "State": ["point", "shape", "*", "time_step"],
    "SetBasedPrediction": ["initial_time_step", "occupancy_set"],
    "Trajectory": ["initial_time_step", "states"],
    "TrajectoryPrediction": ["trajectory", "shape"],
    "StaticObstacle": ["static_obstacle_id", "obstacle_type", "shape", "initial_state", "initial_signal_state", "signal_series"],
    "DynamicObstacle": ["dynamic_obstacle_id", "obstacle_type", "shape", "initial_state", "initial_signal_state", "signal_series",
                        "trajectory_prediction", "set_based_prediction"],
    "EnvironmentObstacle": ["environment_obstacle_id", "obstacle_type", "obstacle_shape"],
    "PhantomObstacle": ["obstacle_id", "prediction"],
    "GoalState": ["state", "goal_position_lanelets"],
    "PlanningProblem": ["planning_problem_id", "initial_state", "goal_states"],
    "Bound": ["points", "line_marking"],
    "StopLine": ["points", "line_marking", "traffic_sign_refs", "traffic_light_refs"],
    "Lanelet": ["lanelet_id", "left_bound", "right_bound", "predecessors", "successors", "adjacent_left", "adjacent_right",
                "adjacent_left_dir", "adjacent_right_dir", "stop_line", "lanelet_types", "user_one_way", "user_bidirectional",
                "traffic_sign_refs", "traffic_light_refs"],
    "TrafficSign": ["traffic_sign_id", "traffic_sign_elements", "first_occurrences", "position", "virtual"],
    "CycleElement": ["duration", "color"],
    "TrafficLight": ["traffic_light_id", "cycle_elements", "position", "time_offset", "direction", "active"],
    "Incoming": ["incoming_id", "incoming_lanelets", "successors_right", "successors_straight", "successors_left", "is_left_of"],
    "Intersection": ["intersection_id", "incomings", "crossing_lanelets"],
    "TimeStamp": ["year", "month", "day", "hour", "minute"],
    "Environment": ["time", "time_of_day", "weather", "underground"],
    "GeoTransformation": ["geo_reference", "x_translation", "y_translation", "z_rotation", "scaling"],
    "Location": ["geo_name_id", "gps_latitude", "gps_longitude", "geo_transformation", "environment"],
    "ScenarioInformation": ["common_road_version", "benchmark_id", "author", "affiliation", "source", "time_step_size"],
    "CommonRoad": ["information", "scenario_tags", "location", "lanelets", "traffic_signs", "traffic_lights", "intersections",
                   "static_obstacles", "dynamic_obstacles", "environment_obstacles", "phantom_obstacles", "planning_problems"],
}

SIGN_COUNTRIES = ["Germany", "Zamunda", "Usa", "China", "Spain", "Russia", "Argentina", "Belgium", "France", "Greece", "Croatia",
                  "Italy", "PuertoRico"]


def signal_slots(repo):
    tree = ast.parse(open(os.path.join(repo, "commonroad/scenario/state.py"), encoding="utf-8").read())
    for n in tree.body:
        if isinstance(n, ast.ClassDef) and n.name == "SignalState":
            for x in n.body:
                if isinstance(x, ast.Assign) and ast.unparse(x.targets[0]) == "__slots__":
                    return {"SignalState.__slots__": [("const", e.value) for e in x.value.elts]}
    raise Unsupported("SignalState.__slots__ not found")


def writer_targets():
    I, D, B, S = "Int", "Dbl", "Bool", "Str"
    shape_sum = [Ctor(".rect l w c o", ["Rectangle"], V("l w c o", "RectArgs")),
                 Ctor(".circ r c", ["Circle"], V("r c", "CircArgs")),
                 Ctor(".poly v", ["Polygon"], V("v", "List Pt")),
                 Ctor(".group s", ["ShapeGroup"], V("s", "List Shape"))]
    ts = [
        WT("W_Point", "PointMessage", "(p : Pt)", {"point[0]": V("p.x", D), "point[1]": V("p.y", D)}, model="encPt"),
        WT("W_Rectangle", "RectangleMessage", "(l w : Dbl) (c : Pt) (o : Dbl)",
           {"rectangle": V("l w c o", "RectArgs"), "rectangle.length": V("l", D), "rectangle.width": V("w", D),
            "rectangle.center": V("c", "Pt"), "rectangle.orientation": V("o", D)},
           doc="Rectangle.center / .orientation are never None (constructor defaults): the guards are statically true"),
        WT("W_Circle", "CircleMessage", "(r : Dbl) (c : Pt)",
           {"circle.radius": V("r", D), "circle.center": V("c", "Pt")}),
        WT("W_Polygon", "PolygonMessage", "(v : List Pt)", {"polygon.vertices": V("v", "List Pt")}),
        WT("W_ShapeGroup", "ShapeGroupMessage", "(rec : Shape → PB) (s : List Shape)", {"shape_group.shapes": V("s", "List Shape")},
           calls={"ShapeMessage.create_message": ("rec", ["Shape"])}, doc="`ShapeMessage.create_message(shape)` inside the loop is the recursive call `rec`"),
        WT("W_Shape", "ShapeMessage", "(rec : Shape → PB) (shape : Shape)", {"shape": V("shape", "Shape")}, sums={"Shape": shape_sum}, hoist=True,
           doc="one layer of the recursion ShapeMessage -> ShapeGroupMessage -> ShapeMessage", model="encShape"),
        WT("W_IntegerInterval", "IntegerIntervalMessage", "(a b : Int)", {"interval.start": V("a", I), "interval.end": V("b", I)}),
        WT("W_FloatInterval", "FloatIntervalMessage", "(a b : Dbl)", {"interval.start": V("a", D), "interval.end": V("b", D)}),
        WT("W_IntegerExactOrInterval", "IntegerExactOrIntervalMessage", "(value : IntEOI)", {"value": V("value", "IntEOI")}, hoist=True,
           sums={"IntEOI": [Ctor(".exact i", ["int"], V("i", I)), Ctor(".interval a b", ["Interval"], V("a b", "IntIvArgs"))]},
           model="encIntEOI"),
        WT("W_FloatExactOrInterval", "FloatExactOrIntervalMessage", "(value : FloatEOI)", {"value": V("value", "FloatEOI")}, hoist=True,
           sums={"FloatEOI": [Ctor(".exact d", ["float", "int"], V("d", D)),
                           Ctor(".interval a b", ["Interval"], V("a b", "FloatIvArgs"))]},
           doc="an exact value is a python float or int (both tests needed)", model="encFloatEOI"),
        WT("W_State", "StateMessage", "(s : St)",
           {"state.time_step": V("s.t", "IntEOI"), "state.position": V("s.pos", "OptPos")},
           sums={"OptPos": [Ctor("some (.point p)", ["np.ndarray"], V("p", "Pt")),
                            Ctor("some (.shape sh)", ["Shape"], V("sh", "Shape"), other=True),
                            Ctor("none", ["NoneType"], V("()", "None"), absent=True)]},
           unroll={"state.used_attributes": [("const", "position"), ("const", "time_step"),
                                             ("generic", "s.attrs", "kv", "kv.1", V("kv.2", "FloatEOI"), "state")]},
           doc="`used_attributes` = position (iff the state has one), time_step, the populated float attributes `s.attrs` "
               "(never None); a float attribute goes to the field of its (mapped) NAME, which raises AttributeError when message "
               "State has no such field", model="encState"),
        WT("W_SignalState", "SignalStateMessage", "(s : Sig)",
           {"signal_state.time_step": V("s.t", "Option IntEOI"), "signal_state.horn": V("s.horn", "Option Bool"),
            "signal_state.indicator_left": V("s.indicator_left", "Option Bool"),
            "signal_state.indicator_right": V("s.indicator_right", "Option Bool"),
            "signal_state.braking_lights": V("s.braking_lights", "Option Bool"),
            "signal_state.hazard_warning_lights": V("s.hazard_warning_lights", "Option Bool"),
            "signal_state.flashing_blue_lights": V("s.flashing_blue_lights", "Option Bool")},
           unroll=signal_slots,
           doc="the loop over SignalState.__slots__ (read from scenario/state.py) unrolled; a slot that is not set at all "
               "(hasattr False) is the snapshot's None", model="encSig"),
        WT("W_TimeStamp", "TimeStampMessage", "(t : Tm)",
           {"time_stamp.year": V("t.year", "Option Int"), "time_stamp.month": V("t.month", "Option Int"),
            "time_stamp.day": V("t.day", "Option Int"), "time_stamp.hours": V("t.h", I), "time_stamp.minutes": V("t.m", I)},
           static_false=[("time_stamp", "datetime.datetime")],
           doc="the `Time` branch (a datetime is written only into the date stamp, which is not content)", model="encTm"),
        WT("W_GeoTransformation", "GeoTransformationMessage", "(g : Geo)",
           {"geo_transformation.geo_reference": V("g.ref", S), "geo_transformation.x_translation": V("g.x", D),
            "geo_transformation.y_translation": V("g.y", D), "geo_transformation.z_rotation": V("g.rot", D),
            "geo_transformation.scaling": V("g.scaling", D)}, model="encGeo"),
        WT("W_Environment", "EnvironmentMessage", "(e : Envr)",
           {"environment.time": V("e.time", "Option Tm"), "environment.time_of_day": V("e.time_of_day", "Option Enum"),
            "environment.weather": V("e.weather", "Option Enum"), "environment.underground": V("e.underground", "Option Enum")},
           model="encEnvr"),
        WT("W_Location", "LocationMessage", "(l : Loc)",
           {"location.geo_name_id": V("l.geo_name_id", I), "location.gps_latitude": V("l.lat", D),
            "location.gps_longitude": V("l.lon", D), "location.geo_transformation": V("l.geo", "Option Geo"),
            "location.environment": V("l.env", "Option Envr")}, model="encLoc"),
        WT("W_ScenarioInformation", "ScenarioInformationMessage", "(version benchmark_id author affiliation source : String) (dt : Dbl)",
           {"commonroad_version": V("version", S), "benchmark_id": V("benchmark_id", S), "author": V("author", S),
            "affiliation": V("affiliation", S), "source": V("source", S), "time_step_size": V("dt", D)}, ignore=["date"],
           doc="the date stamp (today) is not content and is left out", model="encInfo"),
        WT("W_ScenarioTags", "ScenarioTagsMessage", "(tags : List String)", {"tags": V("tags", "List Enum")}),
        WT("W_Bound", "BoundMessage", "(vertices : List Pt) (line_marking : Option String)",
           {"vertices": V("vertices", "List Pt"), "line_marking": V("line_marking", "Option Enum")}, model="encBound"),
        WT("W_StopLine", "StopLineMessage", "(s : Stop)",
           {"stop_line.start": V("s.start", "Pt"), "stop_line.end": V("s.end", "Pt"), "stop_line.line_marking": V("s.lm", "Enum"),
            "stop_line.traffic_sign_ref": V("s.signs", "List Int"), "stop_line.traffic_light_ref": V("s.lights", "List Int")},
           doc="start/end are never None; a reference set that is None is the empty list of the snapshot", model="encStop"),
        WT("W_Lanelet", "LaneletMessage", "(l : Lanelet)",
           {"lanelet.lanelet_id": V("l.id", I), "lanelet.left_vertices": V("l.left", "List Pt"),
            "lanelet.right_vertices": V("l.right", "List Pt"),
            "lanelet.line_marking_left_vertices": V("l.lm_left", "Option Enum"),
            "lanelet.line_marking_right_vertices": V("l.lm_right", "Option Enum"),
            "lanelet.predecessor": V("l.pred", "List Int"), "lanelet.successor": V("l.succ", "List Int"),
            "lanelet.adj_left": V("l.adj_left", "Option Int"), "lanelet.adj_right": V("l.adj_right", "Option Int"),
            "lanelet.adj_left_same_direction": V("l.adj_left_same", "Option Bool"),
            "lanelet.adj_right_same_direction": V("l.adj_right_same", "Option Bool"),
            "lanelet.stop_line": V("l.stop", "Option Stop"), "lanelet.lanelet_type": V("l.types", "List Enum"),
            "lanelet.user_one_way": V("l.one_way", "List Enum"), "lanelet.user_bidirectional": V("l.bidir", "List Enum"),
            "lanelet.traffic_signs": V("l.signs", "List Int"), "lanelet.traffic_lights": V("l.lights", "List Int")},
           model="encLanelet"),
        WT("W_TrafficSignElement", "TrafficSignElementMessage", "(e : SignEl)",
           {"traffic_sign_element.traffic_sign_element_id": V("e", "SignId"),
            "traffic_sign_element.additional_values": V("e.values", "List Str")},
           sums={"SignId": [Ctor(f"TrafficSignID{c}", [f"TrafficSignID{c}"], V("e.name", "Enum")) for c in SIGN_COUNTRIES]},
           hoist=True, doc="dispatch on the CLASS of the element id (the snapshot's `country` is the class name)", model="encSignEl"),
        WT("W_TrafficSign", "TrafficSignMessage", "(s : Sign)",
           {"traffic_sign.traffic_sign_id": V("s.id", I), "traffic_sign.traffic_sign_elements": V("s.elements", "List SignEl"),
            "traffic_sign.first_occurrence": V("s.first", "List Int"), "traffic_sign.position": V("s.pos", "Option Pt"),
            "traffic_sign.virtual": V("s.virtual", "Option Bool")}, model="encSign"),
        WT("W_CycleElement", "CycleElementMessage", "(e : CycEl)",
           {"cycle_element.duration": V("e.dur", I), "cycle_element.state": V("e.state", "Enum")}, model="encCycEl"),
        WT("W_TrafficLight", "TrafficLightMessage", "(t : Light)",
           {"traffic_light.traffic_light_id": V("t.id", I),
            "traffic_light.traffic_light_cycle.cycle_elements": V("t.cycle", "List CycEl"),
            "traffic_light.position": V("t.pos", "Option Pt"),
            "traffic_light.traffic_light_cycle.time_offset": V("t.offset", "Option Int"),
            "traffic_light.direction": V("t.direction", "Option Enum"), "traffic_light.active": V("t.active", "Option Bool")},
           model="encLight"),
        WT("W_Incoming", "IncomingMessage", "(i : Incoming)",
           {"incoming.incoming_id": V("i.id", I), "incoming.incoming_lanelets": V("i.lanelets", "List Int"),
            "incoming.successors_right": V("i.right", "List Int"), "incoming.successors_straight": V("i.straight", "List Int"),
            "incoming.successors_left": V("i.left", "List Int"), "incoming.left_of": V("i.left_of", "Option Int")},
           model="encIncoming"),
        WT("W_Intersection", "IntersectionMessage", "(i : Inter)",
           {"intersection.intersection_id": V("i.id", I), "intersection.incomings": V("i.incomings", "List Incoming"),
            "intersection.crossings": V("i.crossings", "List Int")}, model="encInter"),
        WT("W_Occupancy", "OccupancyMessage", "(o : Occ)", {"occupancy.time_step": V("o.t", "IntEOI"), "occupancy.shape": V("o.shape", "Shape")},
           model="encOcc"),
        WT("W_OccupancySet", "OccupancySetMessage", "(occ : List Occ)", {"occupancy_set": V("occ", "List Occ")}),
        WT("W_SetBasedPrediction", "SetBasedPredictionMessage", "(p : SetPred)",
           {"set_based_prediction.initial_time_step": V("p.t0", I), "set_based_prediction.occupancy_set": V("p.occ", "List Occ")},
           model="encSetPred"),
        WT("W_Trajectory", "TrajectoryMessage", "(t0 : Int) (states : List St)",
           {"trajectory.initial_time_step": V("t0", I), "trajectory.state_list": V("states", "List St")}),
        WT("W_TrajectoryPrediction", "TrajectoryPredictionMessage", "(t0 : Int) (states : List St) (shape : Shape)",
           {"trajectory_prediction.trajectory": V("t0 states", "TrajArgs"), "trajectory_prediction.shape": V("shape", "Shape")}),
        WT("W_StaticObstacle", "StaticObstacleMessage", "(o : StaticObs)",
           {"static_obstacle.obstacle_id": V("o.id", I), "static_obstacle.obstacle_type": V("o.type", "Enum"),
            "static_obstacle.obstacle_shape": V("o.shape", "Shape"), "static_obstacle.initial_state": V("o.init", "St"),
            "static_obstacle.initial_signal_state": V("o.sig0", "Option Sig"),
            "static_obstacle.signal_series": V("o.series", "List Sig")},
           doc="signal_series None is the empty list of the snapshot", model="encStatic"),
        WT("W_DynamicObstacle", "DynamicObstacleMessage", "(o : DynObs)",
           {"dynamic_obstacle.obstacle_id": V("o.id", I), "dynamic_obstacle.obstacle_type": V("o.type", "Enum"),
            "dynamic_obstacle.obstacle_shape": V("o.shape", "Shape"), "dynamic_obstacle.initial_state": V("o.init", "St"),
            "dynamic_obstacle.initial_signal_state": V("o.sig0", "Option Sig"),
            "dynamic_obstacle.signal_series": V("o.series", "List Sig"), "dynamic_obstacle.prediction": V("o.pred", "OptPred")},
           sums={"OptPred": [
               Ctor("some (.traj t0 states shape)", ["TrajectoryPrediction"], V("t0 states shape", "TrajPredArgs")),
               Ctor("some (.set p)", ["SetBasedPrediction"], V("p", "SetPred")),
               Ctor("none", ["NoneType"], V("()", "None"))]},
           model="encDynamic"),
        WT("W_EnvironmentObstacle", "EnvironmentObstacleMessage", "(o : EnvObs)",
           {"environment_obstacle.obstacle_id": V("o.id", I), "environment_obstacle.obstacle_type": V("o.type", "Enum"),
            "environment_obstacle.obstacle_shape": V("o.shape", "Shape")}, model="encEnvObs"),
        WT("W_PhantomObstacle", "PhantomObstacleMessage", "(o : Phantom)",
           {"phantom_obstacle.obstacle_id": V("o.id", I), "phantom_obstacle.prediction": V("o.pred", "Option SetPred")},
           model="encPhantom"),
        WT("W_GoalState", "GoalStateMessage", "(state : St) (lanelets : List Int)",
           {"state": V("state", "St"), "lanelets_of_goal_position": V("lanelets", "List Int")}, model="encGoal"),
    ]
    return ts


# ------------------------------------------------------------------------------------------------ writer: symbolic execution

class Field:
    """value of one field of the message being built"""
    __slots__ = ("single", "parts", "cond")

    def __init__(self, single=None, parts=None, cond=False):
        self.single = single            # Lean text of a PB (singular field) or None
        self.parts = parts              # list of Lean texts of `List PB` (repeated field) or None
        self.cond = cond                # set on some paths only

    def key(self):
        return (self.single, tuple(self.parts) if self.parts is not None else None)


class State:
    def __init__(self):
        self.env = {}        # local name -> V (or a poison string)
        self.ref = {}        # refinements: expression text -> V
        self.fields = {}     # field name -> Field   (insertion order = statement order)
        self.dyn = []        # Lean texts of `List (String × PB)`: fields set through getattr(msg, <computed name>)
        self.ignored = set() # fields that are set but are not content

    def copy(self):
        s = State()
        s.env, s.ref = dict(self.env), dict(self.ref)
        s.dyn = list(self.dyn)
        s.fields = {k: Field(f.single, list(f.parts) if f.parts is not None else None, f.cond) for k, f in self.fields.items()}
        s.ignored = set(self.ignored)
        return s


class Poison:
    def __init__(self, why):
        self.why = why


class WriterTr:
    def __init__(self, t: WT, msgs, enums, tree=None):
        self.t, self.msgs, self.enums, self.tree = t, msgs, enums, tree
        self.msgvar, self.msgtype = t.msgvar, t.msgtype
        self.n = 0
        self.rows = []       # one dict field -> "set" | "set?" per `return` reached (hoisted dispatch: one per constructor)

    # ---- helpers
    def fresh(self):
        self.n += 1
        return f"x{self.n}"

    def fdesc(self, field):
        for f in self.msgs.get(self.msgtype, []):
            if f[0] == field:
                return f
        raise Unsupported(f"message {self.msgtype} has no field {field}")

    @staticmethod
    def text(n):
        return ast.unparse(n)

    def canon(self, n, st):
        """expression text, with getattr(x, <constant attribute name>) written x.<name>"""
        if isinstance(n, ast.Call) and self.text(n.func) == "getattr" and len(n.args) == 2:
            try:
                a = self.ev(n.args[1], st)
            except Unsupported:
                return self.text(n)
            if a.ty == "Const":
                return f"{self.text(n.args[0])}.{a.extra}"
        return self.text(n)

    # ---- expressions
    def ev(self, n, st: State) -> V:
        txt = self.canon(n, st)
        if txt in st.ref:
            return st.ref[txt]
        if isinstance(n, ast.Name) and n.id in st.env:
            v = st.env[n.id]
            if isinstance(v, Poison):
                raise Unsupported(f"local {n.id}: {v.why}")
            return v
        if txt in self.t.vals:
            return self.t.vals[txt]
        if isinstance(n, ast.Attribute) and n.attr == "name":
            base = self.ev(n.value, st)
            if base.ty == "Enum":
                return V(base.lean, "Name")
            raise Unsupported(f".name of a {base.ty}")
        if isinstance(n, ast.Constant) and isinstance(n.value, str):
            return V(q(n.value), "Name")
        if isinstance(n, ast.IfExp):
            kind = self.classify(n.test, st)
            if kind[0] == "static":
                return self.ev(n.body if kind[1] else n.orelse, st)
            if kind[0] == "bool":
                a, b = self.ev(n.body, st), self.ev(n.orelse, st)
                if a.ty != b.ty or a.extra != b.extra:
                    raise Unsupported("conditional expression with branches of different type")
                return V(f"(if {kind[1].lean} then {a.lean} else {b.lean})", a.ty, a.extra)
            raise Unsupported(f"conditional expression on {self.text(n.test)}")
        if isinstance(n, ast.Call):
            f = self.text(n.func)
            if f == "getattr" and len(n.args) == 2:
                a = self.ev(n.args[1], st)
                if a.ty == "AttrName" and self.text(n.args[0]) == a.extra[0]:
                    return a.extra[1]                      # value of the generic attribute
                raise Unsupported(f"getattr {txt}")
            if f.endswith("._map_to_pb_prop") and len(n.args) == 1:
                a = self.ev(n.args[0], st)
                if a.ty != "AttrName":
                    raise Unsupported("_map_to_pb_prop of something else than an attribute name")
                self.check_map_to_pb_prop(f)
                return V(f"(CR.PyC02.mapToPbProp {a.lean})", "FieldName")
            if f == "list" and len(n.args) == 1:
                return self.ev(n.args[0], st)
            if f == "list" and not n.args:
                return V("[]", "List Int")
            if f.endswith(".Value") and len(n.args) == 1:
                # xxx_pb2.<Enum>Enum.<Enum>.Value(member name)
                parts = f.split(".")
                ety = parts[-2]
                if ety not in self.enums:
                    raise Unsupported(f"unknown enum {ety}")
                name = self.ev(n.args[0], st)
                if name.ty != "Name":
                    raise Unsupported(f"enum member given by a {name.ty}")
                return V(name.lean, "EnumValue", ety)
            if f in self.t.calls or f in CALLS:
                fn, tys = self.t.calls.get(f) or CALLS[f]
                if len(n.args) != len(tys) or n.keywords:
                    raise Unsupported(f"call {f} with {len(n.args)} arguments")
                args = []
                for a, ty in zip(n.args, tys):
                    v = self.ev(a, st)
                    if v.ty != ty:
                        raise Unsupported(f"argument of {f}: {v.ty} where {ty} is expected")
                    args.append(v.lean if " " not in v.lean or ty.endswith("Args") else f"({v.lean})")
                return V(f"({fn} {' '.join(args)})", "Msg", f.split(".")[0][:-len("Message")] if f.split(".")[0].endswith("Message") else None)
        raise Unsupported(f"expression {txt}")

    def check_map_to_pb_prop(self, f):
        cls = f.split(".")[0]
        fn = find_func(self.tree, cls, "_map_to_pb_prop")
        body = [x for x in fn.body if not (isinstance(x, ast.Expr) and isinstance(x.value, ast.Constant))]
        want = "return re.sub('(?<!^)(?=[A-Z])', '_', prop).lower()"
        if len(body) != 1 or ast.unparse(body[0]) != want or [a.arg for a in fn.args.args] != ["prop"]:
            raise Unsupported(f"{f} is not the camel-case -> snake-case map any more")

    def leaf(self, field, v: V) -> str:
        _, _, ty, tyname, _ = self.fdesc(field)
        want = {"uint32": "Int", "int32": "Int", "double": "Dbl", "bool": "Bool", "string": "Str"}
        con = {"uint32": "PB.u32", "int32": "PB.i32", "double": "PB.dbl", "bool": "PB.bool", "string": "PB.str"}
        if ty in want:
            if v.ty != want[ty]:
                raise Unsupported(f"field {field} ({ty}) set from a {v.ty}")
            return f"({con[ty]} {v.lean})"
        if ty == "enum":
            if v.ty != "EnumValue":
                raise Unsupported(f"enum field {field} set from a {v.ty}")
            if v.extra != tyname:
                raise Unsupported(f"enum field {field} of type {tyname} set from enum {v.extra}")
            return f"(PB.enum {q(v.extra)} {v.lean})"
        if ty == "message":
            if v.ty != "Msg":
                raise Unsupported(f"message field {field} set from a {v.ty}")
            return v.lean
        raise Unsupported(f"field {field} of type {ty}")

    # ---- statements
    def is_msg(self, n):
        return self.msgvar is not None and self.text(n) == self.msgvar

    def set_single(self, st, field, lean):
        d = self.fdesc(field)
        if d[1] == "repeated":
            raise Unsupported(f"assignment to the repeated field {field}")
        if field in self.t.ignore:
            return
        st.fields[field] = Field(single=lean)

    def add_part(self, st, field, lean_list):
        d = self.fdesc(field)
        if d[1] != "repeated":
            raise Unsupported(f"append to the singular field {field}")
        f = st.fields.get(field)
        if f is None:
            f = st.fields[field] = Field(parts=[])
        f.parts.append(lean_list)

    def stmt(self, s, st: State):
        """executes one simple statement; returns 'return' on `return <msg>`"""
        if isinstance(s, ast.Expr) and isinstance(s.value, ast.Constant):
            return None                                       # docstring
        if isinstance(s, ast.Pass):
            return None
        if isinstance(s, ast.Return):
            if s.value is None or not self.is_msg(s.value):
                raise Unsupported("return of something else than the message")
            return "return"
        if isinstance(s, ast.Assign) and len(s.targets) == 1:
            tgt = s.targets[0]
            if isinstance(tgt, ast.Name):
                # message creation  m = xxx_pb2.X()
                if self.msgvar is None and isinstance(s.value, ast.Call) and not s.value.args \
                        and isinstance(s.value.func, ast.Attribute) and "_pb2" in self.text(s.value.func.value):
                    self.msgvar, self.msgtype = tgt.id, s.value.func.attr
                    if self.msgtype not in self.msgs:
                        raise Unsupported(f"unknown message type {self.msgtype}")
                    return None
                if self.is_msg(tgt):
                    raise Unsupported("message variable re-assigned")
                try:
                    st.env[tgt.id] = self.ev(s.value, st)
                except Unsupported as e:
                    st.env[tgt.id] = Poison(str(e))
                st.ref = {k: v for k, v in st.ref.items() if k != tgt.id}
                return None
            if isinstance(tgt, ast.Attribute) and self.is_msg(tgt.value):
                if tgt.attr in self.t.ignore:
                    st.ignored.add(tgt.attr)
                    return None
                self.set_single(st, tgt.attr, self.leaf(tgt.attr, self.ev(s.value, st)))
                return None
            raise Unsupported(f"assignment to {self.text(tgt)}")
        if isinstance(s, ast.Expr) and isinstance(s.value, ast.Call) and isinstance(s.value.func, ast.Attribute):
            c = s.value
            meth, obj = c.func.attr, c.func.value
            if isinstance(obj, ast.Attribute) and self.is_msg(obj.value) and len(c.args) == 1 and not c.keywords:
                field = obj.attr
                if field in self.t.ignore:
                    st.ignored.add(field)
                    return None
                if meth == "CopyFrom":
                    self.set_single(st, field, self.leaf(field, self.ev(c.args[0], st)))
                    return None
                if meth == "append":
                    self.add_part(st, field, f"[{self.leaf(field, self.ev(c.args[0], st))}]")
                    return None
                if meth == "extend" and isinstance(c.args[0], (ast.ListComp, ast.GeneratorExp)) \
                        and len(c.args[0].generators) == 1 and not c.args[0].generators[0].ifs \
                        and isinstance(c.args[0].generators[0].target, ast.Name):
                    # m.f.extend([e for v in xs])  ==  for v in xs: m.f.append(e)
                    g = c.args[0].generators[0]
                    loop = ast.For(target=g.target, iter=g.iter, orelse=[], body=[ast.Expr(value=ast.Call(
                        func=ast.Attribute(value=obj, attr="append", ctx=ast.Load()), args=[c.args[0].elt], keywords=[]))])
                    self.for_(ast.fix_missing_locations(loop), st)
                    return None
                if meth == "extend" and len(c.args) == 1:
                    # m.f.extend(xs)  ==  for v in xs: m.f.append(v)
                    loop = ast.For(target=ast.Name(id="_v", ctx=ast.Store()), iter=c.args[0], orelse=[], body=[ast.Expr(value=ast.Call(
                        func=ast.Attribute(value=obj, attr="append", ctx=ast.Load()), args=[ast.Name(id="_v", ctx=ast.Load())],
                        keywords=[]))])
                    self.for_(ast.fix_missing_locations(loop), st)
                    return None
            if self.text(c.func).startswith("logger."):
                return None
            # getattr(m, <computed field name>).CopyFrom(sub)
            if meth == "CopyFrom" and isinstance(obj, ast.Call) and self.text(obj.func) == "getattr" and len(obj.args) == 2 \
                    and self.is_msg(obj.args[0]) and len(c.args) == 1:
                k = self.ev(obj.args[1], st)
                v = self.ev(c.args[0], st)
                if k.ty not in ("FieldName", "AttrName") or v.ty != "Msg" or not isinstance(v.extra, str):
                    raise Unsupported(f"dynamic field {k.ty} := {v.ty}")
                names = "Gen." + self.msgtype + "_" + v.extra + "_fields"
                st.dyn.append(f"({k.lean}, CR.PyC02.dynSet {names} {k.lean} {v.lean})")
                return None
        if isinstance(s, ast.Expr) and isinstance(s.value, ast.Call) and self.text(s.value.func) == "setattr" \
                and len(s.value.args) == 3 and self.is_msg(s.value.args[0]):
            a = self.ev(s.value.args[1], st)
            if a.ty != "Const":
                raise Unsupported("setattr with a computed name")
            if a.extra in self.t.ignore:
                return None
            self.set_single(st, a.extra, self.leaf(a.extra, self.ev(s.value.args[2], st)))
            return None
        raise Unsupported(f"statement {self.text(s)[:60]}")

    # ---- conditions
    def classify(self, test, st):
        """-> ('static', bool) | ('opt', text, V, positive?) | ('bool', V, positive?) | ('isinst', text, [classes])"""
        if isinstance(test, ast.Compare) and len(test.ops) == 1 and isinstance(test.comparators[0], ast.Constant) \
                and test.comparators[0].value is None and isinstance(test.ops[0], (ast.Is, ast.IsNot)):
            pos = isinstance(test.ops[0], ast.IsNot)
            txt = self.canon(test.left, st)
            v = self.ev(test.left, st)
            if v.ty.startswith("Option "):
                return ("opt", txt, v, pos)
            return ("static", pos)
        cls = self.isinst(test)
        if cls is not None:
            return ("isinst",) + cls
        if isinstance(test, ast.Compare) and len(test.ops) == 1 and isinstance(test.ops[0], (ast.Eq, ast.NotEq)) \
                and isinstance(test.comparators[0], ast.Constant) and isinstance(test.comparators[0].value, str):
            a = self.ev(test.left, st)
            eq = isinstance(test.ops[0], ast.Eq)
            if a.ty == "Const":
                return ("static", (a.extra == test.comparators[0].value) == eq)
            if a.ty == "AttrName":
                # the generic attributes of the snapshot never are position / time_step
                if test.comparators[0].value in ("position", "time_step"):
                    return ("static", not eq)
        if isinstance(test, ast.Call) and self.text(test.func) == "hasattr" and len(test.args) == 2:
            a = self.ev(test.args[1], st)
            if a.ty == "Const":
                key = f"{self.text(test.args[0])}.{a.extra}"
                return ("static", key in self.t.vals or key in st.ref)
        if isinstance(test, (ast.Name, ast.Attribute)):
            v = self.ev(test, st)
            if v.ty == "Bool":
                return ("bool", v, True)
        raise Unsupported(f"condition {self.text(test)}")

    def isinst(self, test):
        if isinstance(test, ast.Call) and self.text(test.func) == "isinstance" and len(test.args) == 2:
            c = test.args[1]
            names = [self.text(e) for e in c.elts] if isinstance(c, ast.Tuple) else [self.text(c)]
            return (self.text(test.args[0]), names)
        if isinstance(test, ast.BoolOp) and isinstance(test.op, ast.Or):
            subs = [self.isinst(v) for v in test.values]
            if all(s is not None for s in subs) and len({s[0] for s in subs}) == 1:
                return (subs[0][0], [c for s in subs for c in s[1]])
        return None

    # ---- blocks
    def block(self, stmts, st: State):
        """executes a statement list on st; returns the Lean text of the function result when a `return` / hoisted dispatch
        is reached, else None"""
        for i, s in enumerate(stmts):
            if isinstance(s, ast.If) and len(s.body) == 1 and isinstance(s.body[0], ast.Continue) and not s.orelse:
                # `if c: continue` ; rest   ==   if c: pass else: rest
                return self.if_(ast.If(test=s.test, body=[ast.Pass()], orelse=list(stmts[i + 1:])), [], st)
            if isinstance(s, ast.If):
                r = self.if_(s, stmts[i + 1:], st)
                if r is not None:
                    return r
                continue
            if isinstance(s, ast.For):
                self.for_(s, st)
                continue
            if self.stmt(s, st) == "return":
                return self.result(st)
        return None

    def result(self, st: State) -> str:
        self.rows.append({**{f: ("set?" if fv.cond else "set") for f, fv in st.fields.items()}, **{f: "set" for f in st.ignored},
                          **({"*": "set?"} if st.dyn else {})})
        order = CANON.get(self.msgtype, [])
        names = [f for f in order if f in st.fields] + [f for f in st.fields if f not in order]

        def item(f):
            fv = st.fields[f]
            if fv.parts is not None:
                return f"({q(f)}, PB.rep ({' ++ '.join(fv.parts) if fv.parts else '[]'}))"
            return f"({q(f)}, {fv.single})"
        if not st.dyn:
            return "PB.msg [" + ", ".join(item(f) for f in names) + "]"
        # fields set through computed names: canonical place "*" of the order table
        k = order.index("*") if "*" in order else len(order)
        before = [f for f in names if f in order[:k]]
        after = [f for f in names if f not in before]
        return ("PB.msg ([" + ", ".join(item(f) for f in before) + "] ++ (" + " ++ ".join(st.dyn) + " ++ ["
                + ", ".join(item(f) for f in after) + "]))")

    def for_(self, s: ast.For, st: State):
        if s.orelse or not isinstance(s.target, ast.Name):
            raise Unsupported("for loop with else / tuple target")
        if self.text(s.iter) in self.t.unroll:
            return self.unrolled(s, self.t.unroll[self.text(s.iter)], st)
        it = self.ev(s.iter, st)
        if not it.ty.startswith("List "):
            raise Unsupported(f"loop over a {it.ty}")
        var = s.target.id
        sub = st.copy()
        for f in sub.fields.values():
            if f.parts is not None:
                f.parts = []
        before = {k: f.key() for k, f in sub.fields.items()}
        lv = self.fresh()
        sub.env[var] = V(lv, it.ty[5:])
        sub.ref = {k: v for k, v in sub.ref.items() if k != var}
        if self.block(s.body, sub) is not None:
            raise Unsupported("return inside a loop")
        for k, f in sub.fields.items():
            if f.parts is None:
                if before.get(k) != f.key():
                    raise Unsupported(f"singular field {k} set inside a loop")
                continue
            for p in f.parts:
                if not (p.startswith("[") and p.endswith("]")):
                    raise Unsupported("nested loop appending to a repeated field")
                self.add_part(st, k, f"List.map (fun {lv} => {p[1:-1]}) {it.lean}")

    def unrolled(self, s: ast.For, elems, st: State):
        """loop over attribute NAMES: one pass of the body per constant name, one symbolic pass for the generic attributes"""
        var = s.target.id
        for el in elems:
            if el[0] == "const":
                st.env[var] = V(q(el[1]), "Const", el[1])
                if self.block(s.body, st) is not None:
                    raise Unsupported("return inside a loop")
            else:
                _, lst, binder, name, value, obj = el
                sub = State()
                sub.env, sub.ref = dict(st.env), dict(st.ref)
                sub.env[var] = V(name, "AttrName", (obj, value))
                if self.block(s.body, sub) is not None:
                    raise Unsupported("return inside a loop")
                if sub.fields or len(sub.dyn) != 1:
                    raise Unsupported("generic attribute pass must set exactly one computed field")
                st.dyn.append(f"List.map (fun {binder} => {sub.dyn[0]}) {lst}")
        st.env.pop(var, None)

    def if_(self, s: ast.If, rest, st: State):
        kind = self.classify(s.test, st)
        if kind[0] == "static":
            body = s.body if kind[1] else s.orelse
            return self.block(list(body) + list(rest), st) if self.needs_cont(body) else self.block_inline(body, st)
        if kind[0] == "isinst":
            return self.dispatch(s, rest, st)
        if kind[0] == "opt":
            _, txt, v, pos = kind
            x = self.fresh()
            a, b = st.copy(), st.copy()
            a.ref[txt] = V(x, v.ty[7:])
            some_body, none_body = (s.body, s.orelse) if pos else (s.orelse, s.body)
            if self.block(some_body, a) is not None or self.block(none_body, b) is not None:
                raise Unsupported("return inside an optional guard")
            self.merge(st, a, b, lambda ea, eb: (f"(PB.ofOpt (Option.map (fun {x} => {ea}) {v.lean}))" if eb == "PB.null" else
                                                  f"(match {v.lean} with | some {x} => {ea} | none => {eb})"),
                       lambda la, lb: f"(match {v.lean} with | some {x} => {la} | none => {lb})")
            return None
        if kind[0] == "bool":
            _, v, _ = kind
            a, b = st.copy(), st.copy()
            if self.block(s.body, a) is not None or self.block(s.orelse, b) is not None:
                raise Unsupported("return inside a boolean branch")
            self.merge(st, a, b, lambda ea, eb: f"(if {v.lean} then {ea} else {eb})",
                       lambda la, lb: f"(if {v.lean} then {la} else {lb})")
            return None
        raise Unsupported("if")

    @staticmethod
    def needs_cont(body):
        return any(isinstance(x, ast.Return) for x in ast.walk(ast.Module(body=list(body), type_ignores=[])))

    def block_inline(self, body, st):
        r = self.block(body, st)
        if r is not None:
            raise Unsupported("return inside a static branch")
        return None

    def merge(self, st, a: State, b: State, single, lists):
        """st := the two branch states merged field by field"""
        if a.dyn != b.dyn:
            raise Unsupported("computed field set inside a branch")
        st.dyn = list(a.dyn)
        st.ignored = a.ignored | b.ignored
        names = list(a.fields) + [f for f in b.fields if f not in a.fields]
        out = {}
        for f in names:
            fa, fb = a.fields.get(f), b.fields.get(f)
            rep = (fa or fb).parts is not None
            if rep:
                pa, pb = (fa.parts if fa else []), (fb.parts if fb else [])
                k = 0
                while k < len(pa) and k < len(pb) and pa[k] == pb[k]:
                    k += 1
                common, ra, rb = pa[:k], pa[k:], pb[k:]
                parts = list(common)
                if ra or rb:
                    parts.append(lists(" ++ ".join(ra) if ra else "[]", " ++ ".join(rb) if rb else "[]"))
                out[f] = Field(parts=parts, cond=bool(fa and fa.cond) or bool(fb and fb.cond) or ((fa is None) != (fb is None)))
            else:
                ea, eb = (fa.single if fa else "PB.null"), (fb.single if fb else "PB.null")
                out[f] = Field(single=ea if ea == eb else single(ea, eb),
                               cond=fa is None or fb is None or fa.cond or fb.cond)
        # keep statement order: fields already in st first
        st.fields = {**{k: out[k] for k in st.fields if k in out}, **{k: v for k, v in out.items() if k not in st.fields}}
        env = {}
        for k in set(a.env) | set(b.env):
            va, vb = a.env.get(k), b.env.get(k)
            if isinstance(va, V) and isinstance(vb, V) and va.lean == vb.lean and va.ty == vb.ty:
                env[k] = va
            else:
                env[k] = Poison("assigned differently in two branches")
        st.env = env

    def dispatch(self, s: ast.If, rest, st: State):
        """if isinstance(x, A): … elif isinstance(x, B): … [else: …]  over a declared sum type"""
        chain, cur, txt = [], s, None
        while True:
            k = self.isinst(cur.test)
            if k is None:
                raise Unsupported(f"mixed dispatch chain: {self.text(cur.test)}")
            if txt is None:
                txt = k[0]
            elif txt != k[0]:
                raise Unsupported("dispatch chain over different values")
            chain.append((k[1], cur.body))
            if len(cur.orelse) == 1 and isinstance(cur.orelse[0], ast.If) and self.isinst(cur.orelse[0].test) is not None:
                cur = cur.orelse[0]
                continue
            else_body = cur.orelse
            break
        # a test that is False for every snapshot value (datetime in TimeStampMessage)
        if len(chain) == 1 and all((txt, c) in self.t.static_false for c in chain[0][0]):
            return self.block(list(else_body) + list(rest), st) if self.needs_cont(else_body) else self.block_inline(else_body, st)
        sv = self.ev(ast.parse(txt, mode="eval").body, st)
        ctors = self.t.sums.get(sv.ty)
        if ctors is None:
            raise Unsupported(f"isinstance dispatch over {txt} : {sv.ty}, which has no declared sum type")
        branches = []
        for c in ctors:
            body = None
            for classes, b in chain:
                hit = [x for x in c.classes if x in classes]
                if hit and len(hit) != len(c.classes):
                    raise Unsupported(f"test covers only {hit} of the python classes {c.classes} of constructor {c.pat}")
                if hit:
                    body = b
                    break
            if body is None:
                body = else_body
            if c.absent:
                body = []
            branches.append((c, body))
        tested = {x for classes, _ in chain for x in classes}
        known = {x for c in ctors for x in c.classes}
        for c in ctors:
            if c.other and any([x for x in c.classes if x in classes] for classes, _ in chain):
                raise Unsupported(f"constructor {c.pat} is expected in the else branch")
        if tested - known:
            raise Unsupported(f"dispatch on classes {sorted(tested - known)} the sum type of {txt} does not have")
        if self.t.hoist:
            outs = []
            for c, body in branches:
                b = st.copy()
                b.ref[txt] = c.refined
                b.ref.update(c.extra)
                r = self.block(list(body) + list(rest), b)
                if r is None:
                    raise Unsupported("hoisted dispatch branch without return")
                outs.append((c, r))
            return self.hoisted(sv, outs)
        states = []
        for c, body in branches:
            b = st.copy()
            b.ref[txt] = c.refined
            b.ref.update(c.extra)
            if self.block(body, b) is not None:
                raise Unsupported("return inside a dispatch branch")
            if b.dyn != st.dyn:
                raise Unsupported("computed field set inside a dispatch")
            states.append((c, b))
        scrut = sv.lean
        names = []
        for _, b in states:
            names += [f for f in b.fields if f not in names]
        out = {}
        for f in names:
            vals = []
            rep = None
            for c, b in states:
                fv = b.fields.get(f)
                if fv is not None:
                    rep = fv.parts is not None
            for c, b in states:
                fv = b.fields.get(f)
                if rep:
                    raise Unsupported("repeated field filled inside a dispatch")
                vals.append((c, fv.single if fv else "PB.null"))
            cond = any(b.fields.get(f) is None or b.fields[f].cond for _, b in states)
            if len({v for _, v in vals}) == 1:
                out[f] = Field(single=vals[0][1], cond=cond)
            else:
                out[f] = Field(single="(match " + scrut + " with " + " ".join(f"| {c.pat} => {v}" for c, v in vals) + ")", cond=cond)
        st.fields = {**{k: out[k] for k in st.fields if k in out}, **{k: v for k, v in out.items() if k not in st.fields}}
        return None

    def hoisted(self, sv, outs):
        if sv.ty == "SignId":
            # dispatch on the class NAME carried by the snapshot: if-chain, the last constructor is the else branch
            s = outs[-1][1]
            for c, r in reversed(outs[:-1]):
                s = f"if {sv.lean}.country == {q(c.pat)} then {r}\n  else {s}"
            return s
        return f"match {sv.lean} with\n" + "\n".join(f"  | {c.pat} => {r}" for c, r in outs)

    # ---- whole function
    def function(self, fn: ast.FunctionDef) -> str:
        st = State()
        r = self.block(fn.body, st)
        if r is None:
            raise Unsupported("function does not return its message")
        doc = f"/-- {self.t.file} {self.t.cls}.{self.t.func}"
        if self.t.doc:
            doc += " — " + self.t.doc
        doc += " -/\n"
        # the table row of this message: a field is "set" when every path sets it
        names = []
        for row in self.rows:
            names += [f for f in row if f not in names]
        row = {f: ("set" if all(r.get(f) == "set" for r in self.rows) else "set?") for f in names}
        if "*" in row:
            del row["*"]
            for f in self.msgs[self.msgtype]:
                if f[3] == "FloatExactOrInterval":
                    row.setdefault(f[0], "set?")
        self.table_row = (self.msgtype, [(f[0], row[f[0]]) for f in self.msgs[self.msgtype] if f[0] in row])
        # bound variables renumbered in order of appearance: the text does not depend on the order of the python statements
        import re
        seen = {}
        r = re.sub(r"\bx(\d+)\b", lambda m: seen.setdefault(m.group(0), f"v{len(seen) + 1}"), r)
        return f"{doc}def {self.t.name} {self.t.params} : PB :=\n  {r}\n"


# ------------------------------------------------------------------------------------------------ reader: structural extraction

def reader_table(repo, msgs):
    """XxxFactory.create_from_message: which fields of ITS message the factory touches, and how —
         "read"   the field is read, never tested with HasField (required / repeated / defaulted by proto2)
         "read?"  the field is read and tested with HasField (optional data: absent stays absent / constructor default)
         "has"    only tested (oneof dispatch)
       -> [(message type, [(field, kind)])], fields in descriptor order.  A loop over `SignalState.__slots__` /
       `msg.DESCRIPTOR.fields` with HasField(<loop variable>) / getattr(msg, …) touches every slot / every field.
       The message parameter must not escape (be handed to a helper): otherwise the table would miss reads => Unsupported."""
    tree = ast.parse(open(os.path.join(repo, READER), encoding="utf-8").read())
    slots = [e[1] for e in signal_slots(repo)["SignalState.__slots__"]]
    rows = {}
    for cls in tree.body:
        if not (isinstance(cls, ast.ClassDef) and cls.name.endswith("Factory")):
            continue
        for fn in cls.body:
            if not isinstance(fn, ast.FunctionDef):
                continue
            # the message parameter: annotated xxx_pb2.Type
            params = [(a.arg, ast.unparse(a.annotation)) for a in fn.args.args if a.annotation is not None
                      and "_pb2." in ast.unparse(a.annotation)]
            if not params:
                continue
            if len(params) != 1:
                raise Unsupported(f"{cls.name}.{fn.name}: {len(params)} message parameters")
            var, ann = params[0]
            mtype = ann.split(".")[-1]
            if mtype not in msgs:
                raise Unsupported(f"{cls.name}.{fn.name}: unknown message type {mtype}")
            fields = [f[0] for f in msgs[mtype]]
            read, tested = set(), set()
            parents = {}
            for n in ast.walk(fn):
                for c in ast.iter_child_nodes(n):
                    parents[c] = n
            for n in ast.walk(fn):
                if not (isinstance(n, ast.Name) and n.id == var and isinstance(n.ctx, ast.Load)):
                    continue
                par = parents.get(n)
                if isinstance(par, ast.Attribute) and par.value is n:
                    if par.attr == "HasField":
                        call = parents.get(par)
                        if not (isinstance(call, ast.Call) and call.func is par and len(call.args) == 1):
                            raise Unsupported(f"{cls.name}: HasField used oddly")
                        a = call.args[0]
                        if isinstance(a, ast.Constant) and isinstance(a.value, str):
                            if a.value not in fields:
                                raise Unsupported(f"{cls.name}: HasField({a.value!r}) is not a field of {mtype}")
                            tested.add(a.value)
                        elif mtype == "SignalState":
                            tested.update(x for x in slots if x in fields)
                        else:
                            tested.update(fields)
                    elif par.attr == "DESCRIPTOR":
                        pass
                    elif par.attr in fields:
                        read.add(par.attr)
                    else:
                        raise Unsupported(f"{cls.name}: {var}.{par.attr} is not a field of {mtype}")
                elif isinstance(par, ast.Call) and ast.unparse(par.func) in ("getattr", "hasattr") and par.args and par.args[0] is n:
                    if ast.unparse(par.func) == "getattr":
                        a = par.args[1]
                        if isinstance(a, ast.Constant) and isinstance(a.value, str) and a.value in fields:
                            read.add(a.value)
                        elif mtype == "SignalState":
                            read.update(x for x in slots if x in fields)
                        else:
                            read.update(fields)
                elif isinstance(par, ast.Call) and cls.name == "StateFactory" and "_fill_state" in ast.unparse(par.func):
                    pass                                    # handed to StateFactory._fill_state, which is scanned as well
                elif isinstance(par, ast.Call) and ast.unparse(par.func) in ("list",) and mtype in ("IntegerList", "FloatList"):
                    read.update(fields)
                else:
                    raise Unsupported(f"{cls.name}.{fn.name}: the message escapes ({ast.unparse(par)[:50]})")
            r, t = rows.setdefault(mtype, (set(), set()))
            r.update(read)
            t.update(tested)
    out = []
    for m in sorted(rows):
        r, t = rows[m]
        out.append((m, [(f[0], "read?" if f[0] in r and f[0] in t else "read" if f[0] in r else "has")
                        for f in msgs[m] if f[0] in r or f[0] in t]))
    return out


def translate_reader_table(repo, msgs):
    rows = reader_table(repo, msgs)
    out = ["/-- file_reader_protobuf.py: per message type, the fields its XxxFactory touches: \"read\" (never HasField-tested), "
           "\"read?\" (read and HasField-tested), \"has\" (tested only) — descriptor order -/",
           "def readerTable : List (String × List (String × String)) := ["]
    out.append(",\n".join(f"  ({q(m)}, [{', '.join(f'({q(f)}, {q(k)})' for f, k in fs)}])" for m, fs in rows) + "]")
    return "\n".join(out) + "\n"


# ------------------------------------------------------------------------------------------------ driver

HEADER = """/-
  Gen.SrcC02 — GENERATED on every run by harness/translate/src_c02.py from the current source of the protobuf writer / reader
  of commonroad-io and from the descriptors in its *_pb2.py files.  Do not edit.
-/
import CRModel.CRProto
import CRModel.PyExtC02
set_option linter.unusedVariables false
namespace Gen
open CR CR.PBF CR.PyC02

"""


def translate_descriptors(msgs, enums):
    out = ["/-- every message of the shipped format: (field, label, type) in descriptor order, read from the *_pb2.py files -/",
           "def descriptor : List (String × List (String × String × String)) := ["]
    rows = []
    for m in sorted(msgs):
        fs = ", ".join(f"({q(f)}, {q(lab)}, {q(tyname if ty in ('message', 'enum') else ty)})" for f, lab, ty, tyname, _ in msgs[m])
        rows.append(f"  ({q(m)}, [{fs}])")
    out.append(",\n".join(rows) + "]")
    out.append("")
    out.append("/-- the fields of message State that hold a FloatExactOrInterval, in descriptor order -/")
    out.append("def State_FloatExactOrInterval_fields : List String := ["
               + ", ".join(q(f) for f, lab, ty, tyname, _ in msgs["State"] if tyname == "FloatExactOrInterval") + "]")
    out.append("")
    out.append("/-- enum type -> member names -/")
    out.append("def enumTables : List (String × List String) := [\n"
               + ",\n".join(f"  ({q(e)}, [{', '.join(q(x) for x in enums[e])}])" for e in sorted(enums)) + "]")
    return "\n".join(out) + "\n"


def translate_writer(repo, t, msgs, enums, tree, rows=None):
    fn = find_func(tree, t.cls, t.func)
    if callable(t.unroll):
        t.unroll = t.unroll(repo)
    tr = WriterTr(t, msgs, enums, tree)
    out = tr.function(fn)
    if rows is not None:
        rows[t.name] = tr.table_row
    return out


def translate_writer_table(rows, names):
    missing = [n for n in names if n not in rows]
    if missing:
        raise Unsupported(f"no table row for {missing} (builder not translatable)")
    out = ["/-- file_writer_protobuf.py: per message type, the fields its XxxMessage.create_message sets: \"set\" on every path, "
           "\"set?\" on some paths only (optional data / oneof member) — descriptor order -/",
           "def writerTable : List (String × List (String × String)) := ["]
    rs = sorted(rows[n] for n in names)
    out.append(",\n".join(f"  ({q(m)}, [{', '.join(f'({q(f)}, {q(k)})' for f, k in fs)}])" for m, fs in rs) + "]")
    return "\n".join(out) + "\n"


def all_targets(repo):
    """[(name, thunk producing the Lean text)] in emission order"""
    cache = {}

    def tree(file):
        if file not in cache:
            cache[file] = ast.parse(open(os.path.join(repo, file), encoding="utf-8").read())
        return cache[file]

    def desc():
        if "desc" not in cache:
            cache["desc"] = load_descriptors(repo)
        return cache["desc"]

    out = [("D_descriptors", lambda: translate_descriptors(*desc()))]
    rows = {}
    wts = writer_targets()
    for t in wts:
        out.append((t.name, (lambda t=t: translate_writer(repo, t, desc()[0], desc()[1], tree(t.file), rows))))
    out.append(("W_writerTable", lambda: translate_writer_table(rows, [t.name for t in wts if t.func == "create_message"])))
    out.append(("R_readerTable", lambda: translate_reader_table(repo, desc()[0])))
    return out


ERRORS = (Unsupported, SyntaxError, KeyError, IndexError, AttributeError, OSError, ValueError, TypeError, ImportError)


def regenerate(repo, gen_dir):
    os.makedirs(gen_dir, exist_ok=True)
    os.makedirs(LASTGOOD, exist_ok=True)
    status, chunks = {}, []
    for name, thunk in all_targets(repo):
        lg = os.path.join(LASTGOOD, "C02_" + name + ".lean")
        try:
            txt = thunk()
            status["C02." + name] = "ok"
        except ERRORS as e:
            if os.path.exists(lg):
                txt = open(lg, encoding="utf-8").read()
                status["C02." + name] = f"lost ({type(e).__name__}: {e}); last good translation used"
            else:
                txt = f"-- {name}: not translatable ({e})\n"
                status["C02." + name] = f"lost ({type(e).__name__}: {e}); no fallback"
        chunks.append(txt)
    new = HEADER + "\n".join(chunks) + "\nend Gen\n"
    path = os.path.join(gen_dir, "SrcC02.lean")
    old = open(path, encoding="utf-8").read() if os.path.exists(path) else None
    if old != new:
        with open(path, "w", encoding="utf-8") as f:
            f.write(new)
    return status


def update_lastgood(repo):
    os.makedirs(LASTGOOD, exist_ok=True)
    for name, thunk in all_targets(repo):
        with open(os.path.join(LASTGOOD, "C02_" + name + ".lean"), "w", encoding="utf-8") as f:
            f.write(thunk())


if __name__ == "__main__":
    import sys
    args = [a for a in sys.argv[1:] if not a.startswith("--")]
    repo = args[0] if args else os.environ.get("VERIF_REPO", "/repo")
    if "--update-lastgood" in sys.argv:
        update_lastgood(repo)
    st = regenerate(repo, os.path.join(os.path.dirname(os.path.dirname(HERE)), "lean", "Gen"))
    for k, v in st.items():
        print(k, v)
