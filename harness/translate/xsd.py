"""xsd -> Lean: regenerate the `CR.Xsd.Schema` term of the shipped CommonRoad 2020a XSD.

  input   <repo>/commonroad/scenario_definition/xml_definition_files/XML_commonRoad_XSD.xsd
  output  lean/Gen/XsdScenario.lean           (namespace CR.Xsd.Gen; git-ignored, rewritten only when the text changes)
  copy    lean/CRModel/Src/XsdScenario.lean   (namespace CR.Xsd.Src; committed: review + fall-back when the translation is lost)

Supported subset = what CRModel/XsdModel.lean models (see there).  Anything else raises `Unsupported`, the committed copy is
installed as Gen/XsdScenario.lean and the status says `lost`.
`python harness/translate/xsd.py --update [repo]` rewrites the committed copy."""
from __future__ import annotations

import os
import re
import sys

XSD_REL = "commonroad/scenario_definition/xml_definition_files/XML_commonRoad_XSD.xsd"
XS = "{http://www.w3.org/2001/XMLSchema}"
HERE = os.path.dirname(os.path.abspath(__file__))
ROOT = os.path.dirname(os.path.dirname(HERE))
SRC_COPY = os.path.join(ROOT, "lean", "CRModel", "Src", "XsdScenario.lean")

BUILTIN = {  # name -> (base, minIncl)
    "xs:decimal": ("decimal", None), "xs:integer": ("integer", None), "xs:nonNegativeInteger": ("integer", 0),
    "xs:positiveInteger": ("integer", 1), "xs:boolean": ("boolean", None), "xs:string": ("string", None),
    "xs:time": ("time", None), "xs:date": ("date", None),
}


class Unsupported(Exception):
    pass


def q(s: str) -> str:
    out = []
    for ch in s:
        if ch == '"' or ch == "\\":
            out.append("\\" + ch)
        elif ch == "\n":
            out.append("\\n")
        elif ch == "\t":
            out.append("\\t")
        elif ord(ch) < 32:
            raise Unsupported(f"control character in literal {s!r}")
        else:
            out.append(ch)
    return '"' + "".join(out) + '"'


def opt(v):
    return "none" if v is None else f"(some {v})" if v >= 0 else f"(some ({v}))"


def local(tag):
    return tag.split("}")[-1] if isinstance(tag, str) else None


def children(node):
    return [c for c in node if isinstance(c.tag, str) and local(c.tag) != "annotation"]


def int_facet(v: str) -> int:
    m = re.fullmatch(r"([+-]?\d+)(?:\.0*)?", v.strip())
    if not m:
        raise Unsupported(f"facet value {v!r} is not an integer")
    return int(m.group(1))


class Tr:
    def __init__(self, root):
        self.root = root
        self.simple = {}      # name -> dict(base, enum, minExcl, minIncl, maxIncl)
        self.complex = {}     # name -> (attrs, mixed, group-text)
        self.order = []       # emission order of type names
        self.named_simple = {c.get("name"): c for c in children(root) if local(c.tag) == "simpleType"}
        self.named_complex = {c.get("name"): c for c in children(root) if local(c.tag) == "complexType"}

    # ---- types
    def type_ref(self, name: str) -> str:
        if name in BUILTIN:
            if name not in self.simple:
                base, mi = BUILTIN[name]
                self.simple[name] = dict(base=base, enum=[], minExcl=None, minIncl=mi, maxIncl=None)
                self.order.append(name)
            return name
        if name.startswith("xs:"):
            raise Unsupported(f"built-in type {name}")
        if name in self.named_simple or name in self.named_complex:
            return name
        raise Unsupported(f"reference to unknown type {name}")

    def simple_type(self, name: str, node):
        kids = children(node)
        if len(kids) != 1 or local(kids[0].tag) != "restriction":
            raise Unsupported(f"simpleType {name}: only xs:restriction is supported")
        r = kids[0]
        base = r.get("base")
        if base is None:
            raise Unsupported(f"simpleType {name}: restriction without base")
        if base in BUILTIN:
            b, mi = BUILTIN[base]
            d = dict(base=b, enum=[], minExcl=None, minIncl=mi, maxIncl=None)
        elif base in self.named_simple:
            if base not in self.simple:
                self.simple_type(base, self.named_simple[base])
            d = dict(self.simple[base])
            d["enum"] = list(d["enum"])
        else:
            raise Unsupported(f"simpleType {name}: base {base}")
        enum = []
        for f in children(r):
            k, v = local(f.tag), f.get("value")
            if k == "enumeration":
                enum.append(v)
            elif k == "minExclusive":
                d["minExcl"] = int_facet(v) if d["minExcl"] is None else max(d["minExcl"], int_facet(v))
            elif k == "minInclusive":
                d["minIncl"] = int_facet(v) if d["minIncl"] is None else max(d["minIncl"], int_facet(v))
            elif k == "maxInclusive":
                d["maxIncl"] = int_facet(v) if d["maxIncl"] is None else min(d["maxIncl"], int_facet(v))
            else:
                raise Unsupported(f"simpleType {name}: facet {k}")
        if enum:
            d["enum"] = enum if not d["enum"] else [e for e in enum if e in d["enum"]]
        self.simple[name] = d
        self.order.append(name)

    def occurs(self, node):
        mn = int(node.get("minOccurs", "1"))
        mx = node.get("maxOccurs", "1")
        return mn, (None if mx == "unbounded" else int(mx))

    def elem(self, owner: str, e) -> str:
        for a in e.attrib:
            if a not in ("name", "type", "minOccurs", "maxOccurs"):
                raise Unsupported(f"element attribute {a} in {owner}")
        name = e.get("name")
        if name is None:
            raise Unsupported(f"element without name in {owner}")
        t = e.get("type")
        kids = children(e)
        if t is not None:
            if kids:
                raise Unsupported(f"element {name} has both type and inline definition")
            t = self.type_ref(t)
        else:
            if len(kids) != 1:
                raise Unsupported(f"element {name} in {owner}: expected one inline type")
            t = f"{owner}/{name}"
            if local(kids[0].tag) == "complexType":
                self.complex_type(t, kids[0])
            elif local(kids[0].tag) == "simpleType":
                self.simple_type(t, kids[0])
            else:
                raise Unsupported(f"element {name}: inline {local(kids[0].tag)}")
        mn, mx = self.occurs(e)
        return f"{{ name := {q(name)}, type := {q(t)}, min := {mn}, max := {opt(mx)} }}"

    def group(self, owner: str, g) -> str:
        kind = local(g.tag)
        mn, mx = self.occurs(g)
        if kind == "all":
            if (mn, mx) != (1, 1):
                raise Unsupported(f"xs:all with occurrence range in {owner}")
            es = []
            for c in children(g):
                if local(c.tag) != "element":
                    raise Unsupported(f"xs:all containing {local(c.tag)} in {owner}")
                es.append(self.elem(owner, c))
            return ".all [\n      " + ",\n      ".join(es) + "]"
        if kind not in ("sequence", "choice"):
            raise Unsupported(f"content {kind} in {owner}")
        items = []
        for c in children(g):
            k = local(c.tag)
            if k == "element":
                items.append(".elem " + self.elem(owner, c))
            elif k in ("sequence", "choice"):
                es = []
                for cc in children(c):
                    if local(cc.tag) != "element":
                        raise Unsupported(f"content model nested deeper than two levels in {owner}")
                    es.append(self.elem(owner, cc))
                imn, imx = self.occurs(c)
                items.append((".seq [" if k == "sequence" else ".choice [") + ", ".join(es) + f"] {imn} {opt(imx)}")
            else:
                raise Unsupported(f"particle {k} in {owner}")
        return (".seq [\n      " if kind == "sequence" else ".choice [\n      ") + ",\n      ".join(items) + f"] {mn} {opt(mx)}"

    def complex_type(self, name: str, node):
        for a in node.attrib:
            if a not in ("name", "mixed"):
                raise Unsupported(f"complexType attribute {a} in {name}")
        mixed = node.get("mixed", "false") == "true"
        grp, attrs = ".empty", []
        seen_group = False
        for c in children(node):
            k = local(c.tag)
            if k in ("sequence", "choice", "all"):
                if seen_group:
                    raise Unsupported(f"two content groups in {name}")
                seen_group = True
                grp = self.group(name, c)
            elif k == "attribute":
                for a in c.attrib:
                    if a not in ("name", "type", "use"):
                        raise Unsupported(f"attribute property {a} in {name}")
                an, at = c.get("name"), c.get("type")
                if at is None:
                    kids = children(c)
                    if len(kids) != 1 or local(kids[0].tag) != "simpleType":
                        raise Unsupported(f"attribute {an} of {name} has no type")
                    at = f"{name}/@{an}"
                    self.simple_type(at, kids[0])
                else:
                    at = self.type_ref(at)
                    if at in self.named_complex:
                        raise Unsupported(f"attribute {an} of {name} has a complex type")
                attrs.append(f"{{ name := {q(an)}, type := {q(at)}, required := {'true' if c.get('use') == 'required' else 'false'} }}")
            else:
                raise Unsupported(f"{k} in complexType {name}")
        self.complex[name] = (attrs, mixed, grp)
        self.order.append(name)

    # ---- whole schema
    def run(self):
        root = self.root
        if local(root.tag) != "schema" or root.get("targetNamespace"):
            raise Unsupported("not a no-namespace xs:schema")
        tops = [c for c in children(root) if local(c.tag) == "element"]
        others = [local(c.tag) for c in children(root) if local(c.tag) not in ("element", "simpleType", "complexType")]
        if others:
            raise Unsupported(f"top-level {others}")
        if len(tops) != 1:
            raise Unsupported("expected exactly one global element")
        for n, c in self.named_simple.items():
            if n not in self.simple:
                self.simple_type(n, c)
        for n, c in self.named_complex.items():
            self.complex_type(n, c)
        top = tops[0]
        rname = top.get("name")
        rtype = top.get("type")
        key = keyref = None
        for c in children(top):
            k = local(c.tag)
            if k == "complexType" and rtype is None:
                rtype = "/" + rname
                self.complex_type(rtype, c)
            elif k == "key":
                key = c
            elif k == "keyref":
                keyref = c
            else:
                raise Unsupported(f"{k} in the global element")
        if rtype is None:
            raise Unsupported("global element without type")
        key_paths, key_field, ref_field = [], "", ""
        if key is not None:
            sel = [c for c in children(key) if local(c.tag) == "selector"]
            fld = [c for c in children(key) if local(c.tag) == "field"]
            if len(sel) != 1 or len(fld) != 1:
                raise Unsupported("xs:key needs one selector and one field")
            for alt in sel[0].get("xpath").split("|"):
                m = re.fullmatch(r"\./([A-Za-z_][\w.-]*(?:/[A-Za-z_][\w.-]*)*)", alt.strip())
                if not m:
                    raise Unsupported(f"key selector {alt.strip()!r}")
                key_paths.append(m.group(1).split("/"))
            m = re.fullmatch(r"@([A-Za-z_][\w.-]*)", fld[0].get("xpath").strip())
            if not m:
                raise Unsupported("key field")
            key_field = m.group(1)
        if keyref is not None:
            if key is None or keyref.get("refer") != key.get("name"):
                raise Unsupported("keyref does not refer to the key")
            sel = [c for c in children(keyref) if local(c.tag) == "selector"]
            fld = [c for c in children(keyref) if local(c.tag) == "field"]
            if len(sel) != 1 or len(fld) != 1 or sel[0].get("xpath").strip() != ".//*":
                raise Unsupported("keyref selector other than .//*")
            m = re.fullmatch(r"@([A-Za-z_][\w.-]*)", fld[0].get("xpath").strip())
            if not m:
                raise Unsupported("keyref field")
            ref_field = m.group(1)
        return rname, rtype, key_paths, key_field, ref_field

    def emit(self, namespace: str, src_note: str) -> str:
        rname, rtype, key_paths, key_field, ref_field = self.run()
        out = [f"/- GENERATED by harness/translate/xsd.py from {src_note} — do not edit by hand. -/",
               "import CRModel.XsdModel", "", f"namespace {namespace}", "open CR.Xsd", "",
               "def types : List (String × TypeDef) := ["]
        ents = []
        for n in self.order:
            if n in self.simple:
                d = self.simple[n]
                enum = "[" + ", ".join(q(e) for e in d["enum"]) + "]"
                ents.append(f"  ({q(n)}, .simple {{ base := .{d['base']}, enum := {enum}, minExcl := {opt(d['minExcl'])}, "
                            f"minIncl := {opt(d['minIncl'])}, maxIncl := {opt(d['maxIncl'])} }})")
            else:
                attrs, mixed, grp = self.complex[n]
                ents.append(f"  ({q(n)}, .complex [{', '.join(attrs)}] {'true' if mixed else 'false'} (\n    {grp}))")
        out.append(",\n".join(ents) + "]")
        out += ["", "def schema : Schema :=", f"  {{ types := types, rootName := {q(rname)}, rootType := {q(rtype)},",
                "    keyPaths := [" + ", ".join("[" + ", ".join(q(x) for x in p) + "]" for p in key_paths) + "],",
                f"    keyField := {q(key_field)}, refField := {q(ref_field)} }}", "", f"end {namespace}", ""]
        return "\n".join(out)


def translate(repo: str, namespace: str) -> str:
    from lxml import etree
    path = os.path.join(repo, XSD_REL)
    root = etree.parse(path).getroot()
    return Tr(root).emit(namespace, XSD_REL)


def _write_if_changed(path: str, text: str):
    if os.path.exists(path) and open(path, encoding="utf-8").read() == text:
        return
    os.makedirs(os.path.dirname(path), exist_ok=True)
    with open(path, "w", encoding="utf-8") as f:
        f.write(text)


def regenerate(repo: str, gen_dir: str) -> dict:
    gen = os.path.join(gen_dir, "XsdScenario.lean")
    committed = open(SRC_COPY, encoding="utf-8").read() if os.path.exists(SRC_COPY) else None
    try:
        text = translate(repo, "CR.Xsd.Gen")
    except Exception as e:  # noqa
        if committed is not None:   # fall back to the committed copy so that everything still builds
            _write_if_changed(gen, committed.replace("namespace CR.Xsd.Src", "namespace CR.Xsd.Gen").replace("end CR.Xsd.Src", "end CR.Xsd.Gen"))
        return {"xsd": f"lost: {type(e).__name__}: {e} (committed copy CRModel/Src/XsdScenario.lean serves the driver)"}
    _write_if_changed(gen, text)
    same = committed is not None and committed == text.replace("CR.Xsd.Gen", "CR.Xsd.Src")
    return {"xsd": "regenerated from the working tree; " + ("identical to the committed copy" if same else
                                                             "DIFFERS from the committed copy CRModel/Src/XsdScenario.lean "
                                                             "(theorems and driver use the regenerated term)")}


if __name__ == "__main__":
    repo = sys.argv[2] if len(sys.argv) > 2 else os.environ.get("VERIF_REPO", "/repo")
    if len(sys.argv) > 1 and sys.argv[1] == "--update":
        _write_if_changed(SRC_COPY, translate(repo, "CR.Xsd.Src"))
        print("updated", SRC_COPY)
    else:
        print(translate(repo, "CR.Xsd.Gen"))
