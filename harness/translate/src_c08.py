"""py -> Lean translator for the C08 code path (translator tie T08): commonroad/planning/goal.py and planning_problem.py.

`regenerate(repo, gen_dir)` parses the CURRENT source with `ast` and writes `<gen_dir>/SrcC08.lean` (module `Gen.SrcC08`);
lean/CRProps/T08.lean proves every generated definition equal to the hand model CRModel/Goal.lean. A function that cannot be
translated any more falls back to its last good translation (harness/translate/lastgood/C08_*.lean) and is reported `lost`.

On top of the subset of pysrc.Tr this module handles: `for` loops over lists as structurally recursive auxiliary definitions
(loop-carried locals become arguments, the statements after the loop become the `[]` case, `return` / `raise` inside the loop
body leave it), `if` statements that fall through (the locals they assign are joined), `raise`, string constants as attribute
names (`CR.Goal.Fld`), set displays, `in` / `not in`, `.issubset`, `.add` / `.remove` / `.append` on locals, item and attribute
assignment on a local state, the attribute-dictionary comprehension of `_harmonize_state_types`, `and` / `or` whose right
operand may raise, calls dispatched on the declared class of an argument. Fixed call table: lean/CRModel/PyExtC08.lean.
Two functions are extracted STRUCTURALLY (a table read off the `ast`, compared with the model's table by `decide`):
`_validate_goal_state` (attribute -> required class) and the three `translate_rotate` methods (which parts they move).
"""
from __future__ import annotations

import ast
import os

from .pysrc import LASTGOOD, Target, Tr, Unsupported, find_func

G = "commonroad/planning/goal.py"
P = "commonroad/planning/planning_problem.py"
FLDS = ("time_step", "position", "orientation", "velocity", "velocity_y")
EXC = {"ValueError": "value", "KeyError": "key", "TypeError": "type", "AssertionError": "assert", "AttributeError": "attr",
       "IndexError": "index"}


CLS = {"Shape": "shape", "AngleInterval": "angleInterval", "Interval": "interval"}


def fld(name: str) -> str:
    if name in FLDS:
        return f"CR.Goal.Fld.{name}"
    if '"' in name or "\\" in name or "\n" in name:
        raise Unsupported("string constant with quotes")
    return f'(CR.Goal.Fld.other "{name}")'


class Recurse(ast.stmt):
    """pseudo statement: the recursive call that ends a loop body."""
    _fields = ()

    def __init__(self, text):
        super().__init__()
        self.text = text


class T8(Target):
    def __init__(self, *a, local_types=None, **k):
        super().__init__(*a, **k)
        self.local_types = local_types or {}
        self.monadic = True
        self.ret_self = False


def names_assigned(stmts):
    out = set()

    def tgt(t):
        if isinstance(t, ast.Name):
            out.add(t.id)
        elif isinstance(t, (ast.Tuple, ast.List)):
            for x in t.elts:
                tgt(x)
        elif isinstance(t, (ast.Subscript, ast.Attribute)) and isinstance(t.value, ast.Name):
            out.add(t.value.id)
    for n in ast.walk(ast.Module(body=[s for s in stmts if not isinstance(s, Recurse)], type_ignores=[])):
        if isinstance(n, ast.Assign):
            for t in n.targets:
                tgt(t)
        elif isinstance(n, (ast.AugAssign, ast.AnnAssign)):
            tgt(n.target)
        elif isinstance(n, ast.For):
            tgt(n.target)
        elif isinstance(n, ast.Expr) and isinstance(n.value, ast.Call) and isinstance(n.value.func, ast.Attribute) \
                and n.value.func.attr in ("add", "remove", "append", "discard") and isinstance(n.value.func.value, ast.Name):
            out.add(n.value.func.value.id)
    return out


def names_used(stmts):
    return {n.id for n in ast.walk(ast.Module(body=[s for s in stmts if not isinstance(s, Recurse)], type_ignores=[]))
            if isinstance(n, ast.Name)}


def has_return(stmts):
    return any(isinstance(n, ast.Return) for n in ast.walk(ast.Module(body=[s for s in stmts if not isinstance(s, Recurse)],
                                                                       type_ignores=[])))


class Tr8(Tr):
    def __init__(self, t):
        super().__init__(t)
        self.scope = {p for p, _ in t.params if p and p != "self"}

    # ------------------------------------------------------------ expressions
    def e(self, n) -> str:
        r = self.e8(n)
        if "←" in r:
            self.uses_bind = True
        return r

    def e8(self, n) -> str:
        t = self.t
        if isinstance(n, ast.Constant) and isinstance(n.value, str):
            return fld(n.value)
        if isinstance(n, (ast.Set, ast.List)):
            return "[" + ", ".join(self.e(x) for x in n.elts) + "]"
        if isinstance(n, ast.Attribute) and self.dotted(n) in t.names:
            return t.names[self.dotted(n)]
        if isinstance(n, ast.Compare) and len(n.ops) == 1 and isinstance(n.ops[0], (ast.In, ast.NotIn)):
            m = f"(CR.PyG.mem {self.e(n.left)} {self.e(n.comparators[0])})"
            return m if isinstance(n.ops[0], ast.In) else f"(!{m})"
        if isinstance(n, ast.BoolOp):
            parts = [self.e(v) for v in n.values]
            is_and = isinstance(n.op, ast.And)
            acc = parts[0]
            for p in parts[1:]:
                if "←" in p:
                    acc = f"(← CR.PyG.{'andM' if is_and else 'orM'} {acc} (do return {p}))"
                else:
                    acc = f"({acc} {'&&' if is_and else '||'} {p})"
            return acc
        if isinstance(n, ast.Tuple):
            return "(" + ", ".join(self.e(x) for x in n.elts) + ")"
        if isinstance(n, ast.IfExp):
            c, a, b = self.e(n.test), self.e(n.body), self.e(n.orelse)
            if "←" in a or "←" in b:        # only the chosen branch is evaluated
                return f"(← (if {c} then (do return {a}) else (do return {b})))"
            return f"(if {c} then {a} else {b})"
        return super().e(n)

    def typeof(self, n):
        return self.t.types.get(self.dotted(n))

    def call(self, n):
        t = self.t
        f = n.func
        dotted = self.dotted(f)
        if n.keywords and not (dotted == "CustomState"):
            raise Unsupported(f"keyword arguments in call {dotted}")
        if dotted == "getattr" and len(n.args) == 2 and self.typeof(n.args[0]) == "RawG":
            return f"(← CR.PyG.rawGet {self.e(n.args[0])} {self.e(n.args[1])})"
        if dotted == "isinstance" and len(n.args) == 2 and self.dotted(n.args[0]) not in t.types \
                and self.dotted(n.args[1]) in CLS:
            return f"(CR.PyG.isInst {self.e(n.args[0])} CR.Goal.Cls.{CLS[self.dotted(n.args[1])]})"
        if isinstance(f, ast.Attribute) and f.attr == "issubset" and len(n.args) == 1:
            return f"(CR.PyG.issubset {self.e(f.value)} {self.e(n.args[0])})"
        if dotted in ("copy.deepcopy", "list", "deepcopy") and len(n.args) == 1:
            return self.e(n.args[0])                       # a copy / list(...) of a value is the value
        if dotted == "set" and len(n.args) == 1:
            return f"(CR.PyG.setOf {self.e(n.args[0])})"
        if dotted == "np.any" and len(n.args) == 1:
            return f"(CR.PyG.npAny {self.e(n.args[0])})"
        if dotted == "any" and len(n.args) == 1:
            return f"(CR.PyG.npAny {self.e(n.args[0])})"
        if dotted == "np.array" and len(n.args) == 1 and isinstance(n.args[0], (ast.List, ast.Tuple)) and len(n.args[0].elts) == 2:
            return "(" + ", ".join(self.e(x) for x in n.args[0].elts) + ")"
        if dotted == "np.linalg.norm" and len(n.args) == 1:
            a = n.args[0]
            if isinstance(a, ast.Call) and self.dotted(a.func) == "np.array":
                a = a.args[0]
            if isinstance(a, (ast.List, ast.Tuple)) and len(a.elts) == 2:
                return f"(F.hyp {self.e(a.elts[0])} {self.e(a.elts[1])})"
            raise Unsupported("np.linalg.norm of something else than a 2-vector display")
        if dotted in ("math.hypot", "np.hypot") and len(n.args) == 2:
            return f"(F.hyp {self.e(n.args[0])} {self.e(n.args[1])})"
        if dotted in ("math.atan2", "np.arctan2") and len(n.args) == 2:
            return f"(F.at2 {self.e(n.args[0])} {self.e(n.args[1])})"
        if dotted == "reversed" and len(n.args) == 1:
            return f"({self.e(n.args[0])}).reverse"
        if dotted == "enumerate" and len(n.args) == 1:
            return f"(CR.Goal.enumFrom 0 {self.e(n.args[0])})"
        if dotted == "CustomState" and not n.args and len(n.keywords) == 1 and n.keywords[0].arg is None:
            return f"(CR.PyG.customState {self.e(n.keywords[0].value)})"
        if dotted in t.calls and isinstance(t.calls[dotted], dict):
            spec = t.calls[dotted]
            ty = self.typeof(n.args[spec["by"]])
            if ty not in spec:
                raise Unsupported(f"call {dotted}: argument class {ty}")
            return self.mcall(spec[ty], [self.e(a) for a in n.args])
        return super().call(n)

    # ------------------------------------------------------------ statements
    def returns(self, stmts):
        if not stmts:
            return False
        s = stmts[-1]
        if isinstance(s, (ast.Return, ast.Raise, Recurse)):
            return True
        if isinstance(s, ast.If):
            return self.returns(s.body) and bool(s.orelse) and self.returns(s.orelse)
        return False

    def let(self, pad, name, val):
        self.scope.add(name)
        return f"{pad}let {self.local(name)} := {val}\n"

    def block(self, stmts, ind) -> str:
        pad = "  " * ind
        t = self.t
        if not stmts:
            if t.ret == "Unit":
                return f"{pad}return ()"
            raise Unsupported("path without return")
        s, rest = stmts[0], list(stmts[1:])
        if isinstance(s, ast.Assign) and len(s.targets) == 1 and isinstance(s.targets[0], ast.Attribute) and not rest \
                and self.dotted(s.targets[0]) == getattr(t, "ret_attr", None):
            return f"{pad}return {self.e(s.value)}"          # the function's effect: the value stored in that attribute
        if isinstance(s, Recurse):
            return pad + s.text
        if isinstance(s, ast.Expr) and isinstance(s.value, ast.Constant):
            return self.block(rest, ind)
        if isinstance(s, ast.Raise):
            exc = s.exc.func if isinstance(s.exc, ast.Call) else s.exc
            return f"{pad}throw CR.Err.{EXC.get(self.dotted(exc) if exc is not None else '', 'other')}"
        if isinstance(s, ast.Return):
            if s.value is None:
                raise Unsupported("bare return")
            return f"{pad}return {self.e(s.value)}"
        # x.add(a) / x.remove(a) / x.append(a) on a local
        if isinstance(s, ast.Expr) and isinstance(s.value, ast.Call) and isinstance(s.value.func, ast.Attribute) \
                and isinstance(s.value.func.value, ast.Name) and s.value.func.attr in ("add", "remove", "append") \
                and len(s.value.args) == 1 and s.value.func.value.id in self.scope:
            x, a = self.local(s.value.func.value.id), self.e(s.value.args[0])
            if s.value.func.attr == "add":
                return f"{pad}let {x} := CR.PyG.add {x} {a}\n" + self.block(rest, ind)
            if s.value.func.attr == "remove":
                self.uses_bind = True
                return f"{pad}let {x} ← CR.PyG.remove {x} {a}\n" + self.block(rest, ind)
            return f"{pad}let {x} := {x} ++ [{a}]\n" + self.block(rest, ind)
        if isinstance(s, ast.Expr) and isinstance(s.value, ast.Call) and self.dotted(s.value.func) in t.calls \
                and not isinstance(t.calls[self.dotted(s.value.func)], dict) and len(t.calls[self.dotted(s.value.func)]) > 2 \
                and t.calls[self.dotted(s.value.func)][2] == "unit":
            # a call made for its possible exception only
            return f"{pad}let _ ← {t.calls[self.dotted(s.value.func)][0]} {' '.join(self.e(a) for a in s.value.args)}\n" \
                + self.block(rest, ind)
        if isinstance(s, ast.Assign) and len(s.targets) == 1:
            tg = s.targets[0]
            if isinstance(tg, ast.Name) and self.empty_container(s.value):
                if tg.id not in t.local_types:
                    raise Unsupported(f"empty container {tg.id} of undeclared type")
                self.scope.add(tg.id)
                return f"{pad}let {self.local(tg.id)} : {t.local_types[tg.id]} := []\n" + self.block(rest, ind)
            if isinstance(tg, ast.Name) and isinstance(s.value, ast.DictComp):
                return self.let(pad, tg.id, self.attr_dict(s.value)) + self.block(rest, ind)
            if isinstance(tg, ast.Name):
                v = self.e(s.value)
                return self.let(pad, tg.id, v) + self.block(rest, ind)
            if isinstance(tg, ast.Tuple) and all(isinstance(x, ast.Name) for x in tg.elts):
                v = self.e(s.value)
                names = ", ".join(self.local(x.id) for x in tg.elts)
                for x in tg.elts:
                    self.scope.add(x.id)
                return f"{pad}let ({names}) := {v}\n" + self.block(rest, ind)
            if isinstance(tg, ast.Subscript) and isinstance(tg.value, ast.Name) and tg.value.id in self.scope \
                    and isinstance(tg.slice, ast.Constant) and isinstance(tg.slice.value, str):
                x = self.local(tg.value.id)
                return f"{pad}let {x} := CR.PyG.setNum {x} {fld(tg.slice.value)} {self.e(s.value)}\n" + self.block(rest, ind)
            if isinstance(tg, ast.Attribute) and isinstance(tg.value, ast.Name) and tg.value.id in self.scope \
                    and tg.value.id != "self":
                x = self.local(tg.value.id)
                return f"{pad}let {x} := CR.PyG.setNum {x} {fld(tg.attr)} {self.e(s.value)}\n" + self.block(rest, ind)
            raise Unsupported("assignment target")
        if isinstance(s, ast.If):
            return self.if_stmt(s, rest, ind)
        if isinstance(s, ast.For) and not s.orelse:
            return self.for_stmt(s, rest, ind)
        raise Unsupported(f"statement {type(s).__name__}")

    def attr_dict(self, n: ast.DictComp):
        """{a: getattr(X, a) for a in X.attributes if a != "k"}  ==>  attrsExcept X k"""
        if len(n.generators) == 1 and isinstance(n.generators[0].target, ast.Name) and len(n.generators[0].ifs) == 1:
            g = n.generators[0]
            a = g.target.id
            it, cond = g.iter, g.ifs[0]
            if isinstance(it, ast.Attribute) and it.attr == "attributes" and isinstance(it.value, ast.Name) \
                    and isinstance(n.key, ast.Name) and n.key.id == a \
                    and isinstance(n.value, ast.Call) and self.dotted(n.value.func) == "getattr" and len(n.value.args) == 2 \
                    and self.dotted(n.value.args[0]) == it.value.id and self.dotted(n.value.args[1]) == a \
                    and isinstance(cond, ast.Compare) and len(cond.ops) == 1 and isinstance(cond.ops[0], ast.NotEq) \
                    and self.dotted(cond.left) == a and isinstance(cond.comparators[0], ast.Constant) \
                    and isinstance(cond.comparators[0].value, str):
                return f"CR.PyG.attrsExcept {self.local(it.value.id)} {fld(cond.comparators[0].value)}"
        raise Unsupported("dict comprehension")

    def if_stmt(self, s, rest, ind):
        pad = "  " * ind
        test = self.e(s.test)
        body, orelse = list(s.body), list(s.orelse)
        saved = set(self.scope)

        def branch(stmts, k):
            self.scope = set(saved)
            r = self.block(stmts, k)
            self.scope = set(saved)
            return r
        if test == "true":
            return self.block(body + ([] if self.returns(body) else rest), ind)
        if test == "false":
            return self.block(orelse + ([] if orelse and self.returns(orelse) else rest), ind)
        if self.returns(body):
            return f"{pad}if {test} then\n{branch(body, ind + 1)}\n{pad}else\n{branch(orelse + rest, ind + 1)}"
        if orelse and self.returns(orelse):
            return f"{pad}if {test} then\n{branch(body + rest, ind + 1)}\n{pad}else\n{branch(orelse, ind + 1)}"
        if has_return(body) or has_return(orelse):
            # a return on some path only: continue with the rest on the others (duplicates `rest`)
            return f"{pad}if {test} then\n{branch(body + rest, ind + 1)}\n{pad}else\n{branch(orelse + rest, ind + 1)}"
        # both branches fall through: join the locals they assign
        assigned = names_assigned(body) | names_assigned(orelse)
        fresh = (assigned - saved) & names_used(rest)
        if fresh:
            raise Unsupported(f"locals first assigned inside an if and used after it: {sorted(fresh)}")
        joined = sorted(assigned & saved)
        tup = ", ".join(self.local(x) for x in joined)
        tup = f"({tup})" if len(joined) != 1 else tup
        pin = "  " * (ind + 2)

        def arm(stmts):
            self.scope = set(saved)
            txt = ""
            if stmts:
                txt = self.block(stmts + [Recurse(f"pure {tup}")], ind + 2)
            else:
                txt = f"{pin}pure {tup}"
            self.scope = set(saved)
            return txt
        a1, a2 = arm(body), arm(orelse)
        self.uses_bind = True
        return (f"{pad}let {tup} ← (if {test} then (do\n{a1})\n{pad}  else (do\n{a2}))\n" + self.block(rest, ind))

    def for_stmt(self, s, rest, ind):
        pad = "  " * ind
        t = self.t
        if isinstance(s.target, ast.Name):
            pat, tnames = self.local(s.target.id), [s.target.id]
        elif isinstance(s.target, ast.Tuple) and all(isinstance(x, ast.Name) for x in s.target.elts):
            pat, tnames = "(" + ", ".join(self.local(x.id) for x in s.target.elts) + ")", [x.id for x in s.target.elts]
        else:
            raise Unsupported("loop target")
        it = self.e(s.iter)
        self.nloop += 1
        k = self.nloop
        if k - 1 >= len(t.loop_elems):
            raise Unsupported("more loops than declared")
        elem = t.loop_elems[k - 1]
        lname = f"{t.name}.loop{k}"
        pnames = {p for p, _ in t.params if p}
        body = list(s.body)
        carried = sorted((names_assigned(body) & self.scope) - set(tnames))
        fresh = ((names_assigned(body) - self.scope) - set(tnames)) & names_used(rest)
        if fresh:
            raise Unsupported(f"locals first assigned inside a loop and used after it: {sorted(fresh)}")
        const = sorted((((names_used(body) | names_used(rest)) & self.scope) - pnames) - set(carried))
        for v in carried + const:
            if v not in t.local_types and v not in pnames:
                raise Unsupported(f"loop-carried local {v} of undeclared type")

        def ty(v):
            if v in t.local_types:
                return t.local_types[v]
            for p, b in t.params:
                if p == v:
                    return b.split(":", 1)[1].strip()
            raise Unsupported(f"type of {v}")
        binders = " ".join(f"({b})" for _, b in t.params) + "".join(f" ({self.local(v)} : {ty(v)})" for v in const)
        pass_names = " ".join(b.split(":")[0].strip() for _, b in t.params) + "".join(" " + self.local(v) for v in const)
        cvars = [v for v in carried]
        # a carried variable that is also a parameter shadows it inside the loop definition
        sig = " → ".join([f"({ty(v)})" for v in cvars] + [f"List ({elem})", f"Res ({t.ret})"])
        cpat = "".join(self.local(v) + ", " for v in cvars)
        saved = set(self.scope)
        outer_aux = self.aux
        self.aux = []
        self.scope = set(saved)
        nil = self.block(rest, 2)
        self.scope = set(saved) | set(tnames)
        rec = f"{lname} {pass_names} {' '.join(self.local(v) for v in cvars)} rest_".replace("  ", " ")
        cons = self.block(body + [Recurse(rec)], 2)
        inner_aux = self.aux
        self.aux = outer_aux + inner_aux
        self.aux.append(
            f"def {lname} {binders} : {sig}\n"
            f"  | {cpat}[] => do\n{nil}\n"
            f"  | {cpat}{pat} :: rest_ => do\n{cons}\n")
        self.scope = saved
        return pad + " ".join(x for x in [lname, pass_names, " ".join(self.local(v) for v in cvars), f"({it})"] if x)

    def function(self, fn: ast.FunctionDef) -> str:
        t = self.t
        body = self.block(list(fn.body), 1)
        binders = " ".join(f"({p})" for _, p in t.params)
        head = f"def {t.name} {binders} : Res ({t.ret}) := do\n{body}\n"
        doc = f"/-- {t.file}: {(t.cls + '.') if t.cls else ''}{t.func}{(' — ' + t.doc) if t.doc else ''} -/\n"
        return "".join(a + "\n" for a in self.aux) + doc + head


def mk(name, file, func, cls, params, ret, loop_elems=(), ret_attr=None, **k):
    t = T8(name, file, func, cls, params, ret, **k)
    t.loop_elems = list(loop_elems)
    t.ret_attr = ret_attr
    t.ret_self = False
    return t


def targets():
    FN = (None, "F : CR.Goal.Fns")
    TE = (None, "τ ε : Rat")
    chk = lambda nm, ty, decl, extra=(): mk(                                               # noqa: E731
        nm, G, "_check_value_in_interval", "GoalRegion", list(extra) + [("value", "value : Rat"), ("desired_interval", decl)], "Bool",
        types={"desired_interval": ty},
        calls={"desired_interval.contains": {"Interval": ("CR.Iv.contains desired_interval", False),
                                             "AngleInterval": ("CR.Iv.containsAngle τ ε desired_interval", False)}[ty]
               if ty != "num" else ("const:false", False)},
        doc=f"desired_interval is {'an ' + ty if ty != 'num' else 'not an interval'}; `.contains` is the model function tied in T16")
    st_attrs = lambda v: {(v, "time_step"): f"{v}.t", (v, "position"): f"{v}.pos",                                # noqa: E731
                          (v, "orientation"): f"(← CR.PyG.need {v}.ori)", (v, "velocity"): f"(← CR.PyG.need {v}.vel)",
                          (v, "velocity_y"): f"(← CR.PyG.need {v}.velY)", (v, "used_attributes"): f"(CR.PyG.sUsedAttrs {v})"}
    ts = [
        chk("GoalRegion_check_value_in_interval_I", "Interval", "desired_interval : CR.Iv.I"),
        chk("GoalRegion_check_value_in_interval_A", "AngleInterval", "desired_interval : CR.Iv.I", [TE]),
        chk("GoalRegion_check_value_in_interval_other", "num", "desired_interval : Rat"),
        mk("GoalRegion_harmonize_state_types", G, "_harmonize_state_types", "GoalRegion",
           [FN, ("state", "state : CR.Goal.St"), ("goal_state", "goal_state : CR.Goal.GState"),
            ("state_fields", "state_fields : List CR.Goal.Fld"), ("goal_state_fields", "goal_state_fields : List CR.Goal.Fld")],
           "CR.Goal.St × List CR.Goal.Fld × CR.Goal.GState × List CR.Goal.Fld",
           attrs={**st_attrs("state_new"), **st_attrs("state")},
           doc="hypot / atan2 are the parameters F.hyp / F.at2; the state is the record of its five relevant attributes"),
        mk("GoalRegion_is_reached", G, "is_reached", "GoalRegion",
           [FN, TE, (None, "goals : List CR.Goal.GState"), ("state", "state : CR.Goal.St")], "Bool",
           loop_elems=["CR.Goal.GState"], local_types={"is_reached_list": "List Bool"},
           attrs={("self", "state_list"): "goals", **st_attrs("state_new"), **st_attrs("state"),
                  ("goal_state", "time_step"): "goal_state.time", ("goal_state", "position"): "goal_state.pos",
                  ("goal_state", "orientation"): "(← CR.PyG.need goal_state.ori)",
                  ("goal_state", "velocity"): "(← CR.PyG.need goal_state.vel)",
                  ("goal_state", "used_attributes"): "(CR.PyG.gUsedAttrs goal_state)"},
           opt_attrs={("goal_state", "time_step"): "(some goal_state.time)"},
           types={"goal_state.time_step": "Interval", "goal_state.orientation": "AngleInterval", "goal_state.velocity": "Interval"},
           calls={"self._harmonize_state_types": ("GoalRegion_harmonize_state_types F", True),
                  "self._check_value_in_interval": {"by": 1, "Interval": ("GoalRegion_check_value_in_interval_I", True),
                                                    "AngleInterval": ("GoalRegion_check_value_in_interval_A τ ε", True)},
                  "goal_state.has_value": ("CR.PyG.gHasValue goal_state", False),
                  "state_new.has_value": ("CR.PyG.sHasValue state_new", False),
                  "state.has_value": ("CR.PyG.sHasValue state", False),
                  "goal_state.position.contains_point": ("CR.PyG.containsPoint goal_state.pos", True)},
           doc="self.state_list is the parameter goals; goal attributes are validated Interval / AngleInterval / Shape objects"),
        mk("GoalRegion_validate_goal_state", G, "_validate_goal_state", "GoalRegion", [("state", "state : CR.Goal.RawG")], "Unit",
           loop_elems=["CR.Goal.Fld"], local_types={"valid_fields": "List CR.Goal.Fld"}, types={"state": "RawG"},
           attrs={("state", "used_attributes"): "(CR.PyG.rawUsed state)"},
           doc="the state is the list of its attributes with the class of each value (None = none)"),
        mk("GoalRegion_set_state_list", G, "state_list", "GoalRegion", [("state_list", "state_list : List CR.Goal.RawG")],
           "List CR.Goal.RawG", loop_elems=["CR.Goal.RawG"], setter=True, ret_attr="self._state_list",
           calls={"self._validate_goal_state": ("GoalRegion_validate_goal_state", True, "unit"),
                  "cls._validate_goal_state": ("GoalRegion_validate_goal_state", True, "unit"),
                  "GoalRegion._validate_goal_state": ("GoalRegion_validate_goal_state", True, "unit")},
           doc="property setter; the result is the list stored in self._state_list"),
        mk("PlanningProblem_goal_reached", P, "goal_reached", "PlanningProblem",
           [FN, TE, (None, "goals : List CR.Goal.GState"), ("trajectory", "trajectory : List CR.Goal.St")], "Bool × Int",
           loop_elems=["Nat × CR.Goal.St"],
           attrs={("trajectory", "state_list"): "trajectory"}, names={"i": "(i : Int)"},
           calls={"self.goal.is_reached": ("GoalRegion_is_reached F τ ε goals", True)},
           doc="the trajectory is its state list; self.goal.state_list is the parameter goals"),
    ]
    return ts


def translate_target(repo, t) -> str:
    src = open(os.path.join(repo, t.file), encoding="utf-8").read()
    fn = find_func(ast.parse(src), t.cls, t.func, t.setter)
    return Tr8(t).function(fn)


HEADER = """/-
  Gen.SrcC08 — GENERATED on every run by harness/translate/src_c08.py from the current source of
  commonroad/planning/goal.py and planning_problem.py. Do not edit.
-/
import CRModel.PyExtC08
set_option linter.unusedVariables false
namespace Gen
open CR

"""


class _Rename(ast.NodeTransformer):
    def __init__(self, m):
        self.m = m

    def visit_Name(self, n):
        return ast.copy_location(ast.Name(id=self.m.get(n.id, n.id), ctx=n.ctx), n)


def moves_table(repo, name, file, cls, func):
    """STRUCTURAL extraction for a `translate_rotate` method: every call `<part>.translate_rotate(<args>)` in the body, with the
    loop it sits in and the place its result is stored (loop variables are renamed v0, v1, … in order of appearance), plus the
    kinds of all statements of the body in order — so an added guard, a dropped part, a changed argument all change the table."""
    fn = find_func(ast.parse(open(os.path.join(repo, file), encoding="utf-8").read()), cls, func)
    ren, k = {}, 0
    for n in ast.walk(fn):
        if isinstance(n, ast.For):
            for x in ast.walk(n.target):
                if isinstance(x, ast.Name) and x.id not in ren:
                    ren[x.id] = f"v{k}"
                    k += 1
    fn = _Rename(ren).visit(fn)
    rows = []

    def q(x):
        r = ast.unparse(x) if x is not None else ""
        if '"' in r or "\\" in r:
            raise Unsupported("quote in unparsed expression")
        return r

    def walk(stmts, loop):
        for st in stmts:
            if isinstance(st, ast.Expr) and isinstance(st.value, ast.Constant):
                continue
            calls = [c for c in ast.walk(st) if isinstance(c, ast.Call) and isinstance(c.func, ast.Attribute)
                     and c.func.attr == "translate_rotate"] if not isinstance(st, (ast.For, ast.If, ast.While)) else []
            for c in calls:
                tgt = q(st.targets[0]) if isinstance(st, ast.Assign) and st.value is c and len(st.targets) == 1 else ""
                rows.append((q(c.func.value), ", ".join(q(a) for a in c.args), loop, tgt))
            if isinstance(st, ast.For):
                walk(st.body, q(st.iter))
            elif isinstance(st, (ast.If, ast.While)):
                walk(st.body + st.orelse, loop + " | " + q(st.test))
    walk(fn.body, "")
    kinds = " ".join(type(n).__name__ for n in ast.walk(fn) if isinstance(n, ast.stmt) and n is not fn
                     and not (isinstance(n, ast.Expr) and isinstance(n.value, ast.Constant)))
    body = ", ".join(f'("{a}", "{b}", "{c}", "{d}")' for a, b, c, d in rows)
    return (f"/-- {file}: {cls}.{func} — structural extraction: (moved part, arguments, enclosing loop, where the result is stored) -/\n"
            f"def {name}_moves : List (String × String × String × String) := [{body}]\n"
            f"/-- the kinds of the statements of the body, in order -/\n"
            f"def {name}_stmts : String := \"{kinds}\"\n")


STRUCT = [("GoalRegion_translate_rotate", G, "GoalRegion", "translate_rotate"),
          ("PlanningProblem_translate_rotate", P, "PlanningProblem", "translate_rotate"),
          ("PlanningProblemSet_translate_rotate", P, "PlanningProblemSet", "translate_rotate")]


def chunks(repo):
    """[(name, producer)] — functional targets first, then the structural tables."""
    out = [(t.name, (lambda t=t: translate_target(repo, t))) for t in targets()]
    out += [(a[0], (lambda a=a: moves_table(repo, *a))) for a in STRUCT]
    return out


def regenerate(repo, gen_dir):
    os.makedirs(gen_dir, exist_ok=True)
    os.makedirs(LASTGOOD, exist_ok=True)
    status, texts = {}, []
    for name, prod in chunks(repo):
        lg = os.path.join(LASTGOOD, "C08_" + name + ".lean")
        try:
            txt = prod()
            status["C08." + name] = "ok"
        except (Unsupported, SyntaxError, KeyError, IndexError, AttributeError, TypeError, ValueError, OSError) as e:
            if os.path.exists(lg):
                txt = open(lg).read()
                status["C08." + name] = f"lost ({type(e).__name__}: {e}); last good translation used"
            else:
                txt = f"-- {name}: not translatable ({e})\n"
                status["C08." + name] = f"lost ({type(e).__name__}: {e}); no fallback"
        texts.append(txt)
    new = HEADER + "\n".join(texts) + "\nend Gen\n"
    path = os.path.join(gen_dir, "SrcC08.lean")
    old = open(path).read() if os.path.exists(path) else None
    if old != new:
        with open(path, "w") as f:
            f.write(new)
    return status


def update_lastgood(repo):
    os.makedirs(LASTGOOD, exist_ok=True)
    for name, prod in chunks(repo):
        open(os.path.join(LASTGOOD, "C08_" + name + ".lean"), "w").write(prod())


if __name__ == "__main__":
    import sys
    repo = os.environ.get("VERIF_REPO", "/repo")
    if len(sys.argv) > 1 and sys.argv[1] == "--update-lastgood":
        update_lastgood(repo)
    st = regenerate(repo, os.path.join(os.path.dirname(os.path.dirname(os.path.dirname(os.path.abspath(__file__)))), "lean", "Gen"))
    for k_, v_ in st.items():
        print(k_, v_)
