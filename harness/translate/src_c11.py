"""py -> Lean translator for property C11 (derived data never goes stale): module Gen.SrcC11, regenerated on every run.

Two parts (see lean/CRModel/PyExtC11.lean for the fixed vocabulary and lean/CRProps/T11.lean for the tie theorems):

A. STRUCTURAL EXTRACTION.  For every method / property setter of the cache-owning classes (prediction.py: TrajectoryPrediction;
   trajectory.py: Trajectory; obstacle.py: Obstacle, StaticObstacle, DynamicObstacle; lanelet.py: Lanelet, LaneletNetwork;
   traffic_light.py: TrafficLightCycle; scenario.py: Scenario) the DIRECT effects on `self`, in source order, each with the
   conditions it stands under: `self.a = e` (with the `self` attributes `e` is computed from, through locals), `del self.a`,
   `self.a[k] = v`, `del self.a[k]`, mutating container calls `self.a.append(..)`, own calls `self.m(..)` (with constant boolean
   keyword arguments), delegations `self.a.m(..)`, loops `for x in self.a: x.m(..)`.  Emitted as ONE Lean term
   `Gen.C11.table : CR.PyC11.Table`.  The walker never interprets arithmetic, so it rarely loses a method; a root method that
   has disappeared is reported `lost` and its last good entry (harness/translate/lastgood/SrcC11.json) is emitted.

B. FUNCTIONAL TRANSLATION (token level).  The bodies of the mutators whose effect the model states as a function on its token
   structures (`CR.Cache.TPred`, `CR.Cache.Obs`, `CR.Cache.Lan`, `CR.Cache.Cyc`) are translated statement by statement into Lean
   `def`s over those structures: an attribute assignment becomes a record update, `self.history.append(x)` a list append,
   `l[k:]` `CR.PyC11.sliceFrom`, `assert` `CR.Py.assert`, property assignments calls of the translated setter.  What an
   attribute / a call denotes is a per-target table (`FTarget`); a statement outside the table is `Unsupported` => `lost`.
"""
from __future__ import annotations

import ast
import json
import os

from .pysrc import Unsupported, find_func  # noqa: F401  (Target / Tr are the expression translator of Part B)

HERE = os.path.dirname(os.path.abspath(__file__))
LASTGOOD = os.path.join(HERE, "lastgood")
LASTGOOD_JSON = os.path.join(LASTGOOD, "SrcC11.json")

P = "commonroad/prediction/prediction.py"
T = "commonroad/scenario/trajectory.py"
O = "commonroad/scenario/obstacle.py"
L = "commonroad/scenario/lanelet.py"
TL = "commonroad/scenario/traffic_light.py"
S = "commonroad/scenario/scenario.py"

CLASSES = [(P, "TrajectoryPrediction"), (T, "Trajectory"), (O, "Obstacle"), (O, "StaticObstacle"), (O, "DynamicObstacle"),
           (L, "Lanelet"), (L, "LaneletNetwork"), (TL, "TrafficLightCycle"), (S, "Scenario")]

# methods the tie theorems name (class, name, setter?) — a root that is missing is `lost`; everything else of the classes
# above is emitted when it has effects and is reachable by name from some emitted method
ROOTS = [
    ("TrajectoryPrediction", "shape", True), ("TrajectoryPrediction", "trajectory", True),
    ("TrajectoryPrediction", "wheelbase_lengths", True), ("TrajectoryPrediction", "shape_lanelet_assignment", True),
    ("TrajectoryPrediction", "center_lanelet_assignment", True), ("TrajectoryPrediction", "translate_rotate", False),
    ("TrajectoryPrediction", "_invalidate_occupancy_set", False),
    ("Trajectory", "translate_rotate", False), ("Trajectory", "append_state", False),
    ("Obstacle", "initial_state", True), ("Obstacle", "obstacle_shape", True),
    ("StaticObstacle", "translate_rotate", False), ("DynamicObstacle", "translate_rotate", False),
    ("DynamicObstacle", "prediction", True), ("DynamicObstacle", "update_prediction", False),
    ("DynamicObstacle", "update_initial_state", False),
    ("Lanelet", "translate_rotate", False), ("Lanelet", "convert_to_2d", False),
    ("Lanelet", "left_vertices", True), ("Lanelet", "right_vertices", True), ("Lanelet", "center_vertices", True),
    ("LaneletNetwork", "add_lanelet", False), ("LaneletNetwork", "add_lanelets_from_network", False),
    ("LaneletNetwork", "remove_lanelet", False), ("LaneletNetwork", "translate_rotate", False),
    ("LaneletNetwork", "convert_to_2d", False), ("LaneletNetwork", "_create_strtree", False),
    ("TrafficLightCycle", "cycle_elements", True), ("TrafficLightCycle", "time_offset", True),
    ("TrafficLightCycle", "active", True), ("TrafficLightCycle", "_invalidate_cycle_init_timesteps", False),
    ("Scenario", "translate_rotate", False), ("Scenario", "convert_to_2d", False),
]
# the functions that COMPUTE a cached value (their read sets are emitted): (class, name)
DERIVES = [("TrajectoryPrediction", "_create_occupancy_set"), ("TrajectoryPrediction", "occupancy_set"),
           ("Lanelet", "distance"), ("Lanelet", "inner_distance"), ("TrafficLightCycle", "cycle_init_timesteps")]

MUTATING = {"append", "extend", "insert", "pop", "remove", "clear", "sort", "reverse", "add", "discard", "update",
            "setdefault", "popitem", "difference_update", "intersection_update", "symmetric_difference_update"}


def q(s: str) -> str:
    return '"' + s.replace("\\", "\\\\").replace('"', '\\"').replace("\n", " ") + '"'


def lb(b: bool) -> str:
    return "true" if b else "false"


def llist(xs) -> str:
    return "[" + ", ".join(xs) + "]"


# ------------------------------------------------------------------------------------------------ Part A: the walker
class Walker:
    def __init__(self, fn: ast.FunctionDef):
        self.fn = fn
        self.params = {a.arg for a in fn.args.args + fn.args.kwonlyargs} - {"self"}
        self.alias = {}        # local name -> self attribute it is bound to (`x = self.attr`)
        self.lsrc = {}         # local name -> set of self attributes its value is computed from
        self.effs = []         # (guards, op-text)
        self.reads = []        # self attributes read anywhere (in order of first occurrence)

    # -- helpers
    def self_attr(self, n):
        """`self.a` -> 'a'; a local alias of `self.a` -> 'a'."""
        if isinstance(n, ast.Attribute) and isinstance(n.value, ast.Name) and n.value.id == "self":
            return n.attr
        if isinstance(n, ast.Name) and n.id in self.alias:
            return self.alias[n.id]
        return None

    def container_attr(self, n):
        """`self.a`, `self.a.values()`, `self.a.items()`, `self.a.keys()` -> 'a'."""
        a = self.self_attr(n)
        if a is not None:
            return a
        if isinstance(n, ast.Call) and isinstance(n.func, ast.Attribute) and n.func.attr in ("values", "items", "keys") and not n.args:
            return self.self_attr(n.func.value)
        return None

    def srcs(self, e):
        out = []
        for n in ast.walk(e):
            a = None
            if isinstance(n, ast.Attribute) and isinstance(n.value, ast.Name) and n.value.id == "self":
                a = [n.attr]
            elif isinstance(n, ast.Name) and isinstance(n.ctx, ast.Load):
                a = ([self.alias[n.id]] if n.id in self.alias else []) + sorted(self.lsrc.get(n.id, ()))
            elif isinstance(n, ast.Call) and isinstance(n.func, ast.Name) and n.func.id == "getattr" and len(n.args) >= 2 \
                    and isinstance(n.args[0], ast.Name) and n.args[0].id == "self" and isinstance(n.args[1], ast.Constant):
                a = [str(n.args[1].value)]                      # getattr(self, "a"[, default])
            for x in a or []:
                if x not in out and x != "__dict__":
                    out.append(x)
        return out

    def note_reads(self, e):
        for x in self.srcs(e):
            if x not in self.reads:
                self.reads.append(x)

    def emit(self, guards, op):
        self.effs.append((list(guards), op))

    # -- guards
    def guard(self, test):
        """-> (guards that hold in the body, guards that hold in the else branch / after an early return)."""
        def other(t, neg):
            txt = ast.unparse(t)
            return [f".other {q(('not (' + txt + ')') if neg else txt)}"]
        if isinstance(test, ast.UnaryOp) and isinstance(test.op, ast.Not):
            pos, neg = self.guard(test.operand)
            return neg, pos
        if isinstance(test, ast.BoolOp):
            parts = [self.guard(v) for v in test.values]
            if isinstance(test.op, ast.And):
                return [g for p, _ in parts for g in p], other(test, True)
            return other(test, False), [g for _, n in parts for g in n]
        if isinstance(test, ast.Name) and test.id in self.params:
            return [f".param {q(test.id)} true"], [f".param {q(test.id)} false"]
        if isinstance(test, ast.Compare) and len(test.ops) == 1:
            op, l, r = test.ops[0], test.left, test.comparators[0]
            if isinstance(l, ast.Name) and l.id in self.params and isinstance(r, ast.Constant) and isinstance(r.value, bool) \
                    and isinstance(op, (ast.Is, ast.Eq, ast.IsNot, ast.NotEq)):
                v = r.value if isinstance(op, (ast.Is, ast.Eq)) else not r.value
                return [f".param {q(l.id)} {lb(v)}"], [f".param {q(l.id)} {lb(not v)}"]
            if isinstance(op, (ast.Is, ast.IsNot)) and isinstance(r, ast.Constant) and r.value is None and self.self_attr(l):
                a = self.self_attr(l)
                isnot = isinstance(op, ast.IsNot)
                return [f".notNone {q(a)} {lb(isnot)}"], [f".notNone {q(a)} {lb(not isnot)}"]
            if isinstance(op, (ast.In, ast.NotIn)):
                isin = isinstance(op, ast.In)
                if isinstance(r, ast.Attribute) and r.attr == "__dict__" and isinstance(l, ast.Constant) and isinstance(l.value, str):
                    return [f".has {q(l.value)} {lb(isin)}"], [f".has {q(l.value)} {lb(not isin)}"]
                a = self.container_attr(r)
                if a is not None:
                    return [f".member {q(a)} {lb(isin)}"], [f".member {q(a)} {lb(not isin)}"]
        if isinstance(test, ast.Call) and isinstance(test.func, ast.Name) and test.func.id == "hasattr" and len(test.args) == 2 \
                and isinstance(test.args[0], ast.Name) and test.args[0].id == "self" and isinstance(test.args[1], ast.Constant):
            a = test.args[1].value
            return [f".has {q(a)} true"], [f".has {q(a)} false"]
        if self.self_attr(test):
            a = self.self_attr(test)
            return [f".notNone {q(a)} true"], [f".notNone {q(a)} false"]
        return other(test, False), other(test, True)

    # -- expressions: calls with effects
    def calls(self, e, guards, loopvars=None):
        if e is None:
            return
        self.note_reads(e)
        for n in ast.walk(e):
            if not (isinstance(n, ast.Call) and isinstance(n.func, ast.Attribute)):
                continue
            f = n.func
            if isinstance(f.value, ast.Name) and f.value.id == "self":
                consts = [f"({q(k.arg)}, {lb(k.value.value)})" for k in n.keywords
                          if k.arg and isinstance(k.value, ast.Constant) and isinstance(k.value.value, bool)]
                self.emit(guards, f".call {q(f.attr)} {llist(consts)}")
                continue
            a = self.self_attr(f.value)
            if a is not None and a != "__dict__":
                if f.attr in MUTATING:
                    self.emit(guards, f".mutCall {q(a)} {q(f.attr)}")
                elif f.attr not in ("values", "items", "keys", "get", "copy"):
                    self.emit(guards, f".callOn {q(a)} {q(f.attr)}")
                continue
            if a == "__dict__" and f.attr == "pop" and n.args and isinstance(n.args[0], ast.Constant):
                self.emit(guards, f".del {q(n.args[0].value)}")         # self.__dict__.pop("x", None)
                continue
            if loopvars and isinstance(f.value, ast.Name) and f.value.id in loopvars:
                self.emit(guards, f".forEach {q(loopvars[f.value.id])} {q(f.attr)}")
            # a mutating call on a local: its sources flow into the local
            if isinstance(f.value, ast.Name) and f.attr in MUTATING:
                s = set()
                for x in n.args:
                    s.update(self.srcs(x))
                self.lsrc.setdefault(f.value.id, set()).update(s)

    # -- statements
    def assign_target(self, tg, value, guards, aug=False):
        if isinstance(tg, (ast.Tuple, ast.List)):
            for x in tg.elts:
                self.assign_target(x, value, guards, aug)
            return
        if isinstance(tg, ast.Starred):
            return self.assign_target(tg.value, value, guards, aug)
        if isinstance(tg, ast.Attribute) and isinstance(tg.value, ast.Name) and tg.value.id == "self":
            is_none = isinstance(value, ast.Constant) and value.value is None and not aug
            s = self.srcs(value) if value is not None else []
            if aug and tg.attr not in s:
                s = [tg.attr] + s
            self.emit(guards, f".assign {q(tg.attr)} {lb(is_none)} {llist(q(x) for x in s)}")
            return
        if isinstance(tg, ast.Subscript):
            a = self.self_attr(tg.value)
            if a is not None:
                self.emit(guards, f".setItem {q(a)}")
            elif isinstance(tg.value, ast.Name) and value is not None:
                self.lsrc.setdefault(tg.value.id, set()).update(self.srcs(value))
            return
        if isinstance(tg, ast.Name):
            self.alias.pop(tg.id, None)
            if value is not None and not aug:
                a = self.self_attr(value) if isinstance(value, ast.Attribute) else None
                if a is not None:
                    self.alias[tg.id] = a
                self.lsrc[tg.id] = set(self.srcs(value))
            elif value is not None:
                self.lsrc.setdefault(tg.id, set()).update(self.srcs(value))

    def terminates(self, stmts):
        if not stmts:
            return False
        s = stmts[-1]
        if isinstance(s, (ast.Return, ast.Raise, ast.Continue, ast.Break)):
            return True
        if isinstance(s, ast.If):
            return self.terminates(s.body) and bool(s.orelse) and self.terminates(s.orelse)
        return False

    def block(self, stmts, guards, loopvars=None):
        guards = list(guards)
        for s in stmts:
            if isinstance(s, ast.Expr) and isinstance(s.value, ast.Constant):
                continue
            if isinstance(s, ast.Assert):
                self.note_reads(s.test)
                continue
            if isinstance(s, ast.Assign):
                self.calls(s.value, guards, loopvars)
                for tg in s.targets:
                    self.assign_target(tg, s.value, guards)
            elif isinstance(s, ast.AnnAssign):
                self.calls(s.value, guards, loopvars)
                self.assign_target(s.target, s.value, guards)
            elif isinstance(s, ast.AugAssign):
                self.calls(s.value, guards, loopvars)
                self.assign_target(s.target, s.value, guards, aug=True)
            elif isinstance(s, ast.Delete):
                for tg in s.targets:
                    if isinstance(tg, ast.Attribute) and isinstance(tg.value, ast.Name) and tg.value.id == "self":
                        self.emit(guards, f".del {q(tg.attr)}")
                    elif isinstance(tg, ast.Subscript) and self.self_attr(tg.value):
                        self.emit(guards, f".delItem {q(self.self_attr(tg.value))}")
            elif isinstance(s, ast.Expr):
                self.calls(s.value, guards, loopvars)
            elif isinstance(s, ast.Return):
                self.calls(s.value, guards, loopvars)
            elif isinstance(s, ast.If):
                self.note_reads(s.test)
                self.calls(s.test, guards, loopvars)
                pos, neg = self.guard(s.test)
                self.block(s.body, guards + pos, loopvars)
                self.block(s.orelse, guards + neg, loopvars)
                if self.terminates(s.body) and not self.terminates(s.orelse):
                    guards = guards + neg
                elif s.orelse and self.terminates(s.orelse) and not self.terminates(s.body):
                    guards = guards + pos
            elif isinstance(s, (ast.For, ast.AsyncFor)):
                self.calls(s.iter, guards, loopvars)
                lv = dict(loopvars or {})
                a = self.container_attr(s.iter)
                names = [x.id for x in ast.walk(s.target) if isinstance(x, ast.Name)]
                for nme in names:
                    self.alias.pop(nme, None)
                    self.lsrc[nme] = set(self.srcs(s.iter))
                    if a is not None:
                        lv[nme] = a
                    else:
                        lv.pop(nme, None)
                self.block(s.body, guards, lv)
                self.block(s.orelse, guards, loopvars)
            elif isinstance(s, ast.While):
                self.calls(s.test, guards, loopvars)
                self.block(s.body, guards + [f".other {q('while ' + ast.unparse(s.test))}"], loopvars)
            elif isinstance(s, (ast.With, ast.AsyncWith)):
                self.block(s.body, guards, loopvars)
            elif isinstance(s, ast.Try):
                self.block(s.body, guards, loopvars)
                for h in s.handlers:
                    self.block(h.body, guards + [f".other {q('except')}"], loopvars)
                self.block(s.orelse, guards, loopvars)
                self.block(s.finalbody, guards, loopvars)
            elif isinstance(s, (ast.Raise, ast.Pass, ast.Continue, ast.Break, ast.Global, ast.Nonlocal, ast.Import,
                                ast.ImportFrom, ast.FunctionDef, ast.ClassDef)):
                continue
            else:
                raise Unsupported(f"statement {type(s).__name__}")


def method_kind(fn):
    for d in fn.decorator_list:
        if isinstance(d, ast.Attribute) and d.attr == "setter":
            return "setter"
        name = d.attr if isinstance(d, ast.Attribute) else (d.id if isinstance(d, ast.Name) else "")
        if name == "cached_property":
            return "cached_property"
        if name == "property":
            return "getter"
        if name in ("staticmethod", "classmethod"):
            return None
    return "method"


def method_entry(cls, fn, kind):
    w = Walker(fn)
    w.block(fn.body, [])
    effs = ",\n        ".join(f"⟨{llist(g)}, {op}⟩" for g, op in w.effs)
    reads = llist(q(x) for x in w.reads)
    names = set()
    for _, op in w.effs:
        parts = op.split('"')
        if op.startswith(".call "):
            names.add(parts[1])
        elif op.startswith((".callOn", ".forEach")):
            names.add(parts[3])
        elif op.startswith(".assign"):
            names.add(parts[1])
    txt = f"    ⟨{q(cls)}, {q(fn.name)}, {q(kind)}, [\n        {effs}],\n      {reads}⟩"
    return txt, bool(w.effs), names


def extract(repo):
    """-> (entries {(cls, name, kind): (text, has_effects, called names)}, bases {cls: [base, ...]})"""
    entries, bases, trees = {}, {}, {}
    for file, cls in CLASSES:
        if file not in trees:
            trees[file] = ast.parse(open(os.path.join(repo, file), encoding="utf-8").read())
        node = next((n for n in trees[file].body if isinstance(n, ast.ClassDef) and n.name == cls), None)
        if node is None:
            continue
        bases[cls] = [b.id for b in node.bases if isinstance(b, ast.Name) and any(b.id == c for _, c in CLASSES)]
        for fn in node.body:
            if not isinstance(fn, ast.FunctionDef):
                continue
            kind = method_kind(fn)
            if kind is None or (fn.name.startswith("__") and fn.name.endswith("__")):
                continue
            try:
                entries[(cls, fn.name, kind)] = method_entry(cls, fn, kind)
            except (Unsupported, RecursionError):
                continue
    return entries, bases


def structural(repo, last):
    """-> (lean text of Gen.C11.table, status dict, entries to store as last good)"""
    status, store = {}, {}
    try:
        entries, bases = extract(repo)
    except (OSError, SyntaxError) as e:
        entries, bases = {}, None
        status["C11.table"] = f"lost ({type(e).__name__}: {e}); last good entries used"
    chosen = {}
    want = set()
    for cls, name, setter in ROOTS:
        key = (cls, name, "setter" if setter else "method")
        skey = "/".join(key)
        if key in entries:
            chosen[key] = entries[key][0]
            want |= entries[key][2]
            status[f"C11.{cls}.{name}{'=' if setter else ''}"] = "ok"
        elif skey in last.get("methods", {}):
            chosen[key] = last["methods"][skey]
            status[f"C11.{cls}.{name}{'=' if setter else ''}"] = "lost (method not found / not walkable); last good entry used"
        else:
            status[f"C11.{cls}.{name}{'=' if setter else ''}"] = "lost (method not found); no fallback"
    for cls, name in DERIVES:
        for kind in ("getter", "cached_property", "method"):
            if (cls, name, kind) in entries:
                chosen[(cls, name, kind)] = entries[(cls, name, kind)][0]
                status[f"C11.{cls}.{name}(derive)"] = "ok"
                break
        else:
            old = [k for k in last.get("methods", {}) if k.startswith(f"{cls}/{name}/")]
            if old:
                chosen[tuple(old[0].split("/"))] = last["methods"][old[0]]
                status[f"C11.{cls}.{name}(derive)"] = "lost (not found); last good entry used"
            else:
                status[f"C11.{cls}.{name}(derive)"] = "lost (not found); no fallback"
    # everything reachable by name (methods and setters with effects)
    changed = True
    while changed:
        changed = False
        for key, (txt, has, names) in entries.items():
            if key in chosen or not has or key[2] not in ("method", "setter") or key[1] not in want:
                continue
            chosen[key] = txt
            want |= names
            changed = True
    if bases is None:
        bases = last.get("bases", {})
    order = {c: i for i, (_, c) in enumerate(CLASSES)}
    keys = sorted(chosen, key=lambda k: (order.get(k[0], 99), k[1], k[2]))
    body = ",\n".join(chosen[k] for k in keys)
    btxt = llist(f"({q(c)}, {llist(q(b) for b in bs)})" for c, bs in sorted(bases.items()))
    txt = ("/-- the direct effects of the mutating methods of the cache-owning classes, extracted from the CURRENT source -/\n"
           f"def C11.table : CR.PyC11.Table where\n  methods := [\n{body}]\n  bases := {btxt}\n")
    store["methods"] = {"/".join(k): chosen[k] for k in keys}
    store["bases"] = bases
    return txt, status, store


# ------------------------------------------------------------------------------------------------ Part B: functional
ARG_CHECKS = {"isinstance", "is_real_number_vector", "is_real_number", "is_valid_orientation", "is_valid_polyline"}


class FTarget:
    """One method translated statement by statement into a Lean definition that rebinds `self` (a model structure)."""

    def __init__(self, name, file, cls, func, setter=False, binders="", ret="", monadic=False, attrs=None, assigns=None,
                 appends=None, dels=None, calls=None, stmt_calls=None, names=None, skip_assigns=(), has=None, doc=""):
        self.name, self.file, self.cls, self.func, self.setter = name, file, cls, func, setter
        self.binders, self.ret, self.monadic = binders, ret, monadic
        self.attrs = attrs or {}            # `self.a` read -> lean text
        self.assigns = assigns or {}        # `self.a = e` -> lean template with {v}: the new `self`
        self.appends = appends or {}        # `self.a.append(e)` -> lean template with {v}: the new `self`
        self.dels = dels or {}              # `del self.a` -> lean text: the new `self`
        self.calls = calls or {}            # callee (dotted; `*.m` = method m of a comprehension variable {x}) -> template {a0} {a1} ..
        self.stmt_calls = stmt_calls or {}  # callee of an expression statement -> lean template: the new `self`
        self.names = names or {}            # parameter name -> lean text
        self.skip_assigns = set(skip_assigns)  # attributes outside the model (assignment dropped; the value must be call-free)
        self.has = has or {}                # attribute a in `hasattr(self, "a")` / `"a" in self.__dict__` -> lean Bool
        self.doc = doc


class FTr:
    def __init__(self, t: FTarget):
        self.t = t
        self.locals = {}     # local python name -> lean name
        self.cvars = {}      # comprehension variable -> lean name

    def dotted(self, n):
        if isinstance(n, ast.Name):
            return n.id
        if isinstance(n, ast.Attribute):
            return self.dotted(n.value) + "." + n.attr
        return "?"

    def fmt(self, tmpl, args, **kw):
        return tmpl.format(args=" ".join(args), **{f"a{i}": a for i, a in enumerate(args)}, **kw)

    def e(self, n) -> str:
        t = self.t
        if isinstance(n, ast.Constant):
            if n.value is None:
                return "none"
            if isinstance(n.value, bool):
                return lb(n.value)
            if isinstance(n.value, int):
                return f"({n.value} : Int)"
            raise Unsupported(f"constant {n.value!r}")
        if isinstance(n, ast.Name):
            if n.id in self.cvars:
                return self.cvars[n.id]
            if n.id in self.locals:
                return self.locals[n.id]
            if n.id in t.names:
                return t.names[n.id]
            raise Unsupported(f"name {n.id}")
        if isinstance(n, ast.Attribute):
            if isinstance(n.value, ast.Name) and n.value.id == "self" and n.attr in t.attrs:
                return t.attrs[n.attr]
            d = self.dotted(n)
            if d in t.attrs:
                return t.attrs[d]
            raise Unsupported(f"attribute {d}")
        if isinstance(n, ast.UnaryOp) and isinstance(n.op, ast.Not):
            return f"(!{self.e(n.operand)})"
        if isinstance(n, ast.UnaryOp) and isinstance(n.op, ast.USub):
            return f"(-{self.e(n.operand)})"
        if isinstance(n, ast.BinOp) and isinstance(n.op, (ast.Add, ast.Sub)):
            return f"({self.e(n.left)} {'+' if isinstance(n.op, ast.Add) else '-'} {self.e(n.right)})"
        if isinstance(n, ast.BoolOp):
            op = " && " if isinstance(n.op, ast.And) else " || "
            return "(" + op.join(self.e(v) for v in n.values) + ")"
        if isinstance(n, ast.Compare) and len(n.ops) == 1:
            op, l, r = n.ops[0], n.left, n.comparators[0]
            if isinstance(op, (ast.Is, ast.IsNot)) and isinstance(r, ast.Constant) and r.value is None:
                return f"({self.e(l)}).{'isNone' if isinstance(op, ast.Is) else 'isSome'}"
            if isinstance(op, (ast.In, ast.NotIn)) and isinstance(l, ast.Constant) and isinstance(l.value, str) \
                    and self.dotted(r) == "self.__dict__" and l.value in t.has:
                return t.has[l.value] if isinstance(op, ast.In) else f"(!{t.has[l.value]})"
            sym = {ast.Lt: "<", ast.LtE: "≤", ast.Gt: ">", ast.GtE: "≥", ast.Eq: "=", ast.NotEq: "≠"}.get(type(op))
            if sym is None:
                raise Unsupported(f"comparison {type(op).__name__}")
            return f"decide ({self.e(l)} {sym} {self.e(r)})"
        if isinstance(n, ast.Call):
            d = self.dotted(n.func)
            if d == "len" and len(n.args) == 1:
                return f"(({self.e(n.args[0])}).length : Int)"
            if d == "hasattr" and len(n.args) == 2 and self.dotted(n.args[0]) == "self" and isinstance(n.args[1], ast.Constant) \
                    and n.args[1].value in t.has:
                return t.has[n.args[1].value]
            if isinstance(n.func, ast.Attribute) and isinstance(n.func.value, ast.Name) and n.func.value.id in self.cvars \
                    and ("*." + n.func.attr) in t.calls:
                return "(" + self.fmt(t.calls["*." + n.func.attr], [], x=self.cvars[n.func.value.id]) + ")"
            if d in t.calls:
                return "(" + self.fmt(t.calls[d], [self.e(a) for a in n.args]) + ")"
            raise Unsupported(f"call {d}")
        if isinstance(n, ast.Subscript) and isinstance(n.slice, ast.Slice) and n.slice.upper is None and n.slice.step is None \
                and n.slice.lower is not None:
            return f"(CR.PyC11.sliceFrom {self.e(n.value)} {self.e(n.slice.lower)})"      # l[k:]
        if isinstance(n, ast.ListComp) and len(n.generators) == 1 and not n.generators[0].ifs \
                and isinstance(n.generators[0].target, ast.Name):
            g = n.generators[0]
            it = self.e(g.iter)
            var = g.target.id
            self.cvars[var] = var + "_"
            try:
                body = self.e(n.elt)
            finally:
                del self.cvars[var]
            return f"(({it}).map (fun {var}_ => {body}))"
        if isinstance(n, ast.IfExp):
            return f"(if {self.e(n.test)} then {self.e(n.body)} else {self.e(n.orelse)})"
        raise Unsupported(f"expression {type(n).__name__}")

    @staticmethod
    def ends(stmts):
        return Walker(ast.parse("def f(self): pass").body[0]).terminates(stmts)

    def block(self, stmts, ind) -> str:
        """Statement list -> lines that rebind `self`; every path ends with `return self`."""
        t = self.t
        pad = "  " * ind
        if not stmts:
            return f"{pad}return self"
        s, rest = stmts[0], stmts[1:]
        if isinstance(s, ast.Expr) and isinstance(s.value, ast.Constant):
            return self.block(rest, ind)
        if isinstance(s, ast.Return):
            if s.value is not None and not (isinstance(s.value, ast.Constant) and s.value.value is None):
                raise Unsupported("return with a value")
            return f"{pad}return self"
        if isinstance(s, ast.Assert):
            if isinstance(s.test, ast.Call) and self.dotted(s.test.func) in ARG_CHECKS:
                return self.block(rest, ind)       # argument type / validity check: the model's separate `failed` operation
            if not t.monadic:
                raise Unsupported("assert in a pure target")
            return f"{pad}CR.Py.assert ({self.e(s.test)})\n" + self.block(rest, ind)
        if isinstance(s, ast.Assign) and len(s.targets) == 1 and isinstance(s.targets[0], ast.Name):
            v = self.e(s.value)
            self.locals[s.targets[0].id] = s.targets[0].id + "_"
            return f"{pad}let {s.targets[0].id}_ := {v}\n" + self.block(rest, ind)
        if isinstance(s, ast.Assign) and len(s.targets) == 1 and isinstance(s.targets[0], ast.Attribute) \
                and isinstance(s.targets[0].value, ast.Name) and s.targets[0].value.id == "self":
            a = s.targets[0].attr
            if a in t.skip_assigns:
                if any(isinstance(x, ast.Call) for x in ast.walk(s.value)):
                    raise Unsupported(f"call in the value of the unmodelled attribute {a}")
                return self.block(rest, ind)
            if a not in t.assigns:
                raise Unsupported(f"assignment to self.{a}")
            return f"{pad}let self := {t.assigns[a].format(v=self.e(s.value))}\n" + self.block(rest, ind)
        if isinstance(s, ast.Delete) and len(s.targets) == 1 and isinstance(s.targets[0], ast.Attribute) \
                and self.dotted(s.targets[0].value) == "self" and s.targets[0].attr in t.dels:
            return f"{pad}let self := {t.dels[s.targets[0].attr]}\n" + self.block(rest, ind)
        if isinstance(s, ast.Expr) and isinstance(s.value, ast.Call):
            f = s.value.func
            d = self.dotted(f)
            if isinstance(f, ast.Attribute) and f.attr == "append" and len(s.value.args) == 1:
                base = f.value
                a = base.attr if (isinstance(base, ast.Attribute) and self.dotted(base.value) == "self") else None
                if a in t.appends:
                    return f"{pad}let self := {t.appends[a].format(v=self.e(s.value.args[0]))}\n" + self.block(rest, ind)
            if d == "self.__dict__.pop" and s.value.args and isinstance(s.value.args[0], ast.Constant) \
                    and s.value.args[0].value in t.dels and len(s.value.args) == 2:
                return f"{pad}let self := {t.dels[s.value.args[0].value]}\n" + self.block(rest, ind)
            if d in t.stmt_calls:
                return f"{pad}let self := {self.fmt(t.stmt_calls[d], [self.e(a) for a in s.value.args])}\n" + self.block(rest, ind)
            if d == "warnings.warn":
                return self.block(rest, ind)
            raise Unsupported(f"call statement {d}")
        if isinstance(s, ast.If):
            test = self.e(s.test)
            saved = dict(self.locals)
            then = self.block(list(s.body) + ([] if self.ends(s.body) else rest), ind + 1)
            self.locals = dict(saved)
            els = self.block(list(s.orelse) + ([] if s.orelse and self.ends(s.orelse) else rest), ind + 1)
            self.locals = saved
            return f"{pad}if {test} then\n{then}\n{pad}else\n{els}"
        raise Unsupported(f"statement {type(s).__name__}")

    def function(self, fn) -> str:
        t = self.t
        body = self.block(list(fn.body), 1)
        ret = f"Res ({t.ret})" if t.monadic else t.ret
        head = f"def {t.name} {t.binders} : {ret} := {'do' if t.monadic else 'Id.run do'}\n{body}\n"
        doc = f"/-- {t.file}: {t.cls}.{t.func}{' (setter)' if t.setter else ''}{(' — ' + t.doc) if t.doc else ''} -/\n"
        return doc + head


def ftargets():
    inval = {"self._invalidate_occupancy_set": "TrajectoryPrediction_invalidate_occupancy_set self"}
    set_init = "Obstacle_set_initial_state hasWb self {v}"
    pred_move = ("{{ self with pred := self.pred.map (fun p => match p with "
                 "| .traj q => .traj (TrajectoryPrediction_translate_rotate q v) | .setb _ ivs => .setb v ivs) }}")
    obs_attrs = {"_obstacle_shape": "self.shape", "obstacle_shape.shapes": "self.shape", "self.obstacle_shape.shapes": "self.shape",
                 "wheelbase_lengths": "()", "_prediction": "self.pred", "prediction": "self.pred", "history": "self.hist",
                 "signal_history": "self.sigHist", "center_lanelet_ids_history": "self.cenHist",
                 "shape_lanelet_ids_history": "self.shpHist", "initial_state": "(HTok.mk self.init [])",
                 "initial_signal_state": "self.sig", "initial_center_lanelet_ids": "self.cen",
                 "initial_shape_lanelet_ids": "self.shp"}
    cyc_inval = {"self._invalidate_cycle_init_timesteps": "TrafficLightCycle_invalidate_cycle_init_timesteps self"}
    return [
        FTarget("TrajectoryPrediction_invalidate_occupancy_set", P, "TrajectoryPrediction", "_invalidate_occupancy_set",
                binders="(self : TPred)", ret="TPred", has={"occupancy_set": "self.cache.isSome"},
                dels={"occupancy_set": "{ self with cache := none }"},
                doc="`occupancy_set` in the instance dictionary = the slot of the cached_property is filled"),
        FTarget("TrajectoryPrediction_set_shape", P, "TrajectoryPrediction", "shape", setter=True,
                binders="(self : TPred) (shape : Nat)", ret="TPred", names={"shape": "shape"},
                assigns={"_shape": "{{ self with shape := {v} }}"}, stmt_calls=inval),
        FTarget("TrajectoryPrediction_set_trajectory", P, "TrajectoryPrediction", "trajectory", setter=True,
                binders="(self : TPred) (trajectory : TrajData)", ret="TPred", names={"trajectory": "trajectory"},
                assigns={"_trajectory": "{{ self with traj := {v} }}"}, stmt_calls=inval),
        FTarget("TrajectoryPrediction_set_wheelbase_lengths", P, "TrajectoryPrediction", "wheelbase_lengths", setter=True,
                binders="(self : TPred)", ret="TPred", skip_assigns=["_wheelbase_lenghts", "_wheelbase_lengths"],
                names={"wheelbase_lenghts": "()", "wheelbase_lengths": "()"}, stmt_calls=inval,
                doc="the wheelbase list is not part of the token model"),
        FTarget("TrajectoryPrediction_translate_rotate", P, "TrajectoryPrediction", "translate_rotate",
                binders="(self : TPred) (v : Nat)", ret="TPred",
                stmt_calls={**inval, "self._trajectory.translate_rotate": "{{ self with traj := {{ self.traj with v := v }} }}"},
                names={"translation": "()", "angle": "()"},
                doc="`v`: the version token the moved trajectory gets (Trajectory.translate_rotate replaces every state)"),
        FTarget("Obstacle_set_initial_state", O, "Obstacle", "initial_state", setter=True,
                binders="(hasWb : Bool) (self : Obs) (initial_state : Nat × Int)", ret="Obs",
                names={"initial_state": "initial_state"}, attrs=obs_attrs, has={"wheelbase_lengths": "hasWb"},
                assigns={"_initial_state": "{{ self with init := ({v}).1, t0 := ({v}).2 }}",
                         "_initial_occupancy_shape": "{{ self with initOcc := some {v} }}"},
                calls={"occupancy_shape_from_state": "({a0}, ({a1}).1)",
                       "shape_group_occupancy_shape_from_state": "({a0}, ({a1}).1)"},
                doc="a state is (version token, time step); an occupancy shape is the pair (shape token, state token) it is "
                    "computed from; `hasWb`: the object has a `wheelbase_lengths` attribute"),
        FTarget("DynamicObstacle_set_prediction", O, "DynamicObstacle", "prediction", setter=True,
                binders="(self : Obs) (prediction : Option Pred)", ret="Obs", names={"prediction": "prediction"},
                assigns={"_prediction": "{{ self with pred := {v} }}"}),
        FTarget("DynamicObstacle_translate_rotate", O, "DynamicObstacle", "translate_rotate",
                binders="(hasWb : Bool) (self : Obs) (v : Nat)", ret="Obs", attrs=obs_attrs,
                names={"translation": "()", "angle": "()"},
                stmt_calls={"self.prediction.translate_rotate": pred_move, "self._prediction.translate_rotate": pred_move},
                calls={"self._initial_state.translate_rotate": "(v, self.t0)", "self.initial_state.translate_rotate": "(v, self.t0)",
                       "*.translate_rotate": "HTok.move v {x}"},
                assigns={"initial_state": set_init, "history": "{{ self with hist := {v} }}"},
                doc="`v`: the version token of this motion (the moved initial state; appended to the motions of every history entry)"),
        FTarget("StaticObstacle_translate_rotate", O, "StaticObstacle", "translate_rotate",
                binders="(hasWb : Bool) (self : Obs) (v : Nat)", ret="Obs", attrs=obs_attrs,
                names={"translation": "()", "angle": "()"},
                calls={"self._initial_state.translate_rotate": "(v, self.t0)", "self.initial_state.translate_rotate": "(v, self.t0)"},
                assigns={"initial_state": set_init}),
        FTarget("DynamicObstacle_update_initial_state", O, "DynamicObstacle", "update_initial_state",
                binders="(hasWb : Bool) (self : Obs) (current_state : Nat × Int) (current_signal_state current_center_lanelet_ids "
                        "current_shape_lanelet_ids : Nat) (max_history_length : Int)", ret="Obs", monadic=True, attrs=obs_attrs,
                names={k: k for k in ("current_state", "current_signal_state", "current_center_lanelet_ids",
                                      "current_shape_lanelet_ids", "max_history_length")},
                appends={"history": "{{ self with hist := self.hist ++ [{v}] }}",
                         "signal_history": "{{ self with sigHist := self.sigHist ++ [{v}] }}",
                         "center_lanelet_ids_history": "{{ self with cenHist := self.cenHist ++ [{v}] }}",
                         "shape_lanelet_ids_history": "{{ self with shpHist := self.shpHist ++ [{v}] }}"},
                assigns={"initial_state": set_init, "initial_signal_state": "{{ self with sig := {v} }}",
                         "initial_center_lanelet_ids": "{{ self with cen := {v} }}",
                         "initial_shape_lanelet_ids": "{{ self with shp := {v} }}",
                         "prediction": "DynamicObstacle_set_prediction self {v}",
                         "history": "{{ self with hist := {v} }}", "signal_history": "{{ self with sigHist := {v} }}",
                         "center_lanelet_ids_history": "{{ self with cenHist := {v} }}",
                         "shape_lanelet_ids_history": "{{ self with shpHist := {v} }}"},
                skip_assigns=["signal_series"],
                doc="the history logic: append the replaced initial state / signal / lanelet ids, then keep the last max_history_length"),
        FTarget("TrafficLightCycle_invalidate_cycle_init_timesteps", TL, "TrafficLightCycle", "_invalidate_cycle_init_timesteps",
                binders="(self : CycCell)", ret="CycCell", has={"_cycle_init_timesteps": "self.cache.isSome"},
                dels={"_cycle_init_timesteps": "{ self with cache := none }"}),
        FTarget("TrafficLightCycle_set_cycle_elements", TL, "TrafficLightCycle", "cycle_elements", setter=True,
                binders="(self : CycCell) (cycle_elements : List CR.TL.Elem)", ret="CycCell", names={"cycle_elements": "cycle_elements"},
                assigns={"_cycle_elements": "{{ self with primary := {{ self.primary with es := {v} }} }}"}, stmt_calls=cyc_inval),
        FTarget("TrafficLightCycle_set_time_offset", TL, "TrafficLightCycle", "time_offset", setter=True,
                binders="(self : CycCell) (time_offset : Int)", ret="CycCell", names={"time_offset": "time_offset"},
                assigns={"_time_offset": "{{ self with primary := {{ self.primary with off := {v} }} }}"}, stmt_calls=cyc_inval),
        FTarget("TrafficLightCycle_set_active", TL, "TrafficLightCycle", "active", setter=True,
                binders="(self : CycCell) (active : Bool)", ret="CycCell", names={"active": "active"},
                assigns={"_active": "{{ self with primary := {{ self.primary with active := {v} }} }}"}, stmt_calls=cyc_inval),
    ]


def translate_ftarget(repo, t: FTarget) -> str:
    tree = ast.parse(open(os.path.join(repo, t.file), encoding="utf-8").read())
    fn = find_func(tree, t.cls, t.func, t.setter)
    return FTr(t).function(fn)


HEADER = """/-
  Gen.SrcC11 — GENERATED on every run by harness/translate/src_c11.py from the current source of /repo. Do not edit.
-/
import CRModel.PyExt
import CRModel.PyExtC11
set_option linter.unusedVariables false
namespace Gen
open CR CR.Cache

"""


def build(repo, last):
    txt, status, store = structural(repo, last)
    chunks = [txt]
    store["functions"] = {}
    for t in ftargets():
        try:
            f = translate_ftarget(repo, t)
            status[t.name] = "ok"
        except (Unsupported, SyntaxError, KeyError, IndexError, AttributeError, OSError) as e:
            if t.name in last.get("functions", {}):
                f = last["functions"][t.name]
                status[t.name] = f"lost ({type(e).__name__}: {e}); last good translation used"
            else:
                f = f"-- {t.name}: not translatable ({e})\n"
                status[t.name] = f"lost ({type(e).__name__}: {e}); no fallback"
        store["functions"][t.name] = f
        chunks.append(f)
    return HEADER + "\n".join(chunks) + "\nend Gen\n", status, store


def load_last():
    try:
        return json.load(open(LASTGOOD_JSON))
    except (OSError, ValueError):
        return {}


def regenerate(repo, gen_dir):
    os.makedirs(gen_dir, exist_ok=True)
    new, status, _ = build(repo, load_last())
    path = os.path.join(gen_dir, "SrcC11.lean")
    old = open(path).read() if os.path.exists(path) else None
    if old != new:
        with open(path, "w") as f:
            f.write(new)
    return status


def update_lastgood(repo):
    os.makedirs(LASTGOOD, exist_ok=True)
    _, status, store = build(repo, {})
    bad = {k: v for k, v in status.items() if v != "ok"}
    if bad:
        raise SystemExit(f"not all targets translate: {bad}")
    with open(LASTGOOD_JSON, "w") as f:
        json.dump(store, f, indent=1, sort_keys=True)


if __name__ == "__main__":
    import sys
    repo = os.environ.get("VERIF_REPO", "/repo")
    if len(sys.argv) > 1 and sys.argv[1] == "--update-lastgood":
        update_lastgood(repo)
    st = regenerate(repo, os.path.join(os.path.dirname(os.path.dirname(HERE)), "lean", "Gen"))
    for k, v in st.items():
        print(k, v)
