"""py -> Lean translator for the file writers (translator tie of C15; DESIGN.md §2 kind 'T').

`regenerate(repo, gen_dir)` parses the CURRENT source of
    commonroad/common/writer/file_writer_interface.py   (OverwriteExistingFile, FileWriter)
    commonroad/common/writer/file_writer_xml.py         (XMLFileWriter)
    commonroad/common/writer/file_writer_protobuf.py    (ProtobufFileWriter)
    commonroad/common/file_writer.py                    (CommonRoadFileWriter facade)
    commonroad/common/util.py                           (FileFormat)
and writes `<gen_dir>/SrcC15.lean` (module Gen.SrcC15, namespace Gen); lean/CRProps/T15.lean proves every generated
definition equal to the hand model CRModel/WriterSM.lean, for all arguments and states.

Two styles:
  * functional — a method body becomes a program in `CR.PyW.M (St …)` (CRModel/PyExtC15.lean: state + exception, the state
    changes made before an exception stay): if / elif / else with early `return` (the rest of the block is copied into
    every branch that falls through), `x = A if c else B`, `if x is None: x = d`, `with self._own_decimal_precision():`,
    the generator-based context manager itself (`try: yield finally:` with the block as a parameter), `with open(f, "wb")`,
    attribute assignment of the document / the module-global precision, the fixed call table CALLS below;
  * structural — the ordered table of state accesses a method performs (`self.x = …`, `precision.decimals = …`,
    `self._root_node.set / .append`, `msg.field.append / .CopyFrom`, constructor delegation), as a Lean list of strings that
    T15 compares with the model's table by `decide` (a finite table compared completely is a proof for that table).

A function that cannot be translated any more is not a verdict: its last good translation
(harness/translate/lastgood/C15_<name>.lean) is emitted and the status says `lost (...)`.
"""
from __future__ import annotations

import ast
import os

from .pysrc import LASTGOOD, Target, Tr, Unsupported, find_func

IFACE = "commonroad/common/writer/file_writer_interface.py"
XML = "commonroad/common/writer/file_writer_xml.py"
PB = "commonroad/common/writer/file_writer_protobuf.py"
FACADE = "commonroad/common/file_writer.py"
UTIL = "commonroad/common/util.py"

TYVARS = "{Input Item Node Bytes Date Content : Type}"
ST = "(St Input Node Bytes Date)"
ENV_BINDERS = "(c : Codec Input Item Node Bytes Date Content) (answer : Answer) (other : String) (date : Date)"
ENV = "c answer other date"
WRITTEN = "Option (String × Bytes)"

MODES = {"OverwriteExistingFile.ASK_USER_INPUT": "Mode.ask", "OverwriteExistingFile.SKIP": "Mode.skip",
         "OverwriteExistingFile.ALWAYS": "Mode.always"}
DOCS = {"self._root_node": ("etree.Element", "commonRoad"), "self._commonroad_msg": ("commonroad_pb2.CommonRoad", None)}
NOOP_CALLS = {"print", "logger.warning", "logger.info", "self.check_validity_of_commonroad_file", "warnings.warn"}
# self.<method>() statements with a fixed denotation (the methods themselves are extracted structurally)
SELF_STEPS = {"self._write_header": "PyW.writeHeader self date",
              "self._add_all_objects_from_scenario": "PyW.addScenarioObjects c self",
              "self._add_all_planning_problems_from_planning_problem_set": "PyW.addPlanningProblems c self"}


class WTarget(Target):
    def __init__(self, name, file, func, cls, params, ret, style="functional", locals_=None, doc="", callee_params=None):
        super().__init__(name, file, func, cls, params=params, ret=ret, doc=doc)
        self.style = style
        self.locals = dict(locals_ or {})      # python parameter -> type tag (optstr / str / mode / bool / nat / body)
        self.callee_params = callee_params or {}


def lit(s: str) -> str:
    return '"' + s.replace("\\", "\\\\").replace('"', '\\"') + '"'


class TrW(Tr):
    """Statement-level translation into `M`-programs in A-normal form (every effectful sub-expression is bound first)."""

    def __init__(self, t: WTarget, tree):
        super().__init__(t)
        self.tree = tree
        self.ntmp = 0
        self.ty = dict(t.locals)

    # ------------------------------------------------------------ expressions: (lines to run first, lean text, type tag)
    def tmp(self):
        self.ntmp += 1
        return f"t{self.ntmp}"

    def pure_text(self, n):
        """Text of an argument of print / format / input: no effect, not translated."""
        for x in ast.walk(n):
            if isinstance(x, ast.Call):
                d = self.dotted(x.func)
                if not (d.endswith(".format") or d in ("str", "type", "self._dump")):
                    raise Unsupported(f"call {d} inside a message")
            elif isinstance(x, (ast.Yield, ast.Await, ast.NamedExpr, ast.Lambda)):
                raise Unsupported("effect inside a message")
        return True

    def ex(self, n):
        d = self.dotted(n) if isinstance(n, (ast.Name, ast.Attribute)) else None
        if isinstance(n, ast.Constant):
            if isinstance(n.value, str):
                return [], lit(n.value), "str"
            if isinstance(n.value, bool):
                return [], "true" if n.value else "false", "bool"
            if isinstance(n.value, int) and n.value >= 0:
                return [], str(n.value), "nat"
            raise Unsupported(f"constant {n.value!r}")
        if isinstance(n, ast.Name):
            if n.id not in self.ty:
                raise Unsupported(f"name {n.id}")
            return [], self.local(n.id), self.ty[n.id]
        if d in MODES:
            return [], MODES[d], "mode"
        if d == "precision.decimals":
            t = self.tmp()
            return [f"let {t} ← PyW.getDecimals"], t, "nat"
        if d == "self._decimal_precision":
            t = self.tmp()
            return [f"let {t} ← PyW.ownDecimalPrecision self"], t, "nat"
        if d in ("FileFormat.XML.value", "FileFormat.PROTOBUF.value"):
            return [], d.replace(".", "_"), "str"
        if isinstance(n, ast.BinOp) and isinstance(n.op, ast.Add):
            p1, a, ta = self.ex(n.left)
            p2, b, tb = self.ex(n.right)
            if ta != "str" or tb != "str":
                raise Unsupported("+ on non-strings")
            return p1 + p2, f"({a} ++ {b})", "str"
        if isinstance(n, ast.UnaryOp) and isinstance(n.op, ast.Not):
            p, a, ta = self.ex(n.operand)
            if ta == "str":
                return p, f"decide ({a} = \"\")", "bool"       # `not s` on a str
            if ta == "bool":
                return p, f"(!{a})", "bool"
            raise Unsupported(f"not on {ta}")
        if isinstance(n, ast.Compare) and len(n.ops) == 1:
            op, r = n.ops[0], n.comparators[0]
            if isinstance(r, ast.Constant) and r.value is None and isinstance(op, (ast.Is, ast.IsNot)):
                p, a, ta = self.ex(n.left)
                if ta != "optstr":
                    raise Unsupported(f"`is None` on {ta}")
                return p, f"({a}).isNone" if isinstance(op, ast.Is) else f"({a}).isSome", "bool"
            if isinstance(op, (ast.Is, ast.IsNot, ast.Eq, ast.NotEq)):
                p1, a, ta = self.ex(n.left)
                p2, b, tb = self.ex(r)
                if ta != tb or ta not in ("mode", "str"):
                    raise Unsupported(f"comparison of {ta} with {tb}")
                if isinstance(op, (ast.Is, ast.IsNot)) and ta != "mode":
                    raise Unsupported("`is` on strings")
                txt = f"decide ({a} = {b})" if isinstance(op, (ast.Is, ast.Eq)) else f"decide ({a} ≠ {b})"
                return p1 + p2, txt, "bool"
            raise Unsupported("comparison")
        if isinstance(n, ast.BoolOp):
            parts = [self.ex(v) for v in n.values]
            if any(p for p, _, _ in parts[1:]) or any(t != "bool" for _, _, t in parts):
                raise Unsupported("effect in a short-circuit operand")
            op = " && " if isinstance(n.op, ast.And) else " || "
            return parts[0][0], "(" + op.join(a for _, a, _ in parts) + ")", "bool"
        if isinstance(n, ast.Call):
            return self.callx(n)
        raise Unsupported(f"expression {type(n).__name__}")

    def callx(self, n):
        d = self.dotted(n.func)
        t = self.tmp()
        if d == "str" and len(n.args) == 1 and self.dotted(n.args[0]) == "self.scenario.scenario_id":
            return [f"let {t} ← PyW.scenarioIdStr c self"], t, "str"
        if d == "self._get_suffix" and not n.args:
            return [f"let {t} ← PyW.virtual self XMLFileWriter_get_suffix ProtobufFileWriter_get_suffix"], t, "str"
        if isinstance(n.func, ast.Attribute) and n.func.attr == "is_file" and not n.args and isinstance(n.func.value, ast.Call) \
                and self.dotted(n.func.value.func) in ("pathlib.Path", "Path") and len(n.func.value.args) == 1:
            p, a, ta = self.ex(n.func.value.args[0])
            if ta != "str":
                raise Unsupported("Path of a non-string")
            return p + [f"let {t} ← PyW.isFile {a}"], t, "bool"
        if d in ("os.path.isfile",) and len(n.args) == 1:
            p, a, ta = self.ex(n.args[0])
            if ta != "str":
                raise Unsupported("isfile of a non-string")
            return p + [f"let {t} ← PyW.isFile {a}"], t, "bool"
        if d == "input":
            for a in n.args:
                self.pure_text(a)
            return [f"let {t} ← PyW.input answer other"], t, "str"
        if d == "etree.ElementTree" and len(n.args) == 1 and self.dotted(n.args[0]) == "self._root_node":
            return [f"let {t} ← PyW.elementTree self"], t, "tree"
        if d in self.t.callee_params:                       # a translated method of the same object
            fn, params, rty = self.t.callee_params[d]
            pre, args = self.bind_args(n, params)
            return pre + [f"let {t} ← {fn} {ENV} self {' '.join(args)}".rstrip()], t, rty
        raise Unsupported(f"call {d}")

    def bind_args(self, n, params):
        """Actual arguments in the callee's parameter order."""
        given = {}
        if len(n.args) > len(params):
            raise Unsupported("too many arguments")
        for p, a in zip(params, n.args):
            given[p[0]] = a
        for k in n.keywords:
            if k.arg is None or k.arg in given or k.arg not in [p[0] for p in params]:
                raise Unsupported(f"keyword argument {k.arg}")
            given[k.arg] = k.value
        pre, out = [], []
        for name, ty, default in params:
            if name in given:
                p, a, ta = self.ex(given[name])
                if ta != ty and not (ty == "optstr" and ta == "str"):
                    raise Unsupported(f"argument {name}: {ta} for {ty}")
                pre += p
                out.append(f"(some {a})" if ty == "optstr" and ta == "str" else a)
            elif default is not None:
                out.append(default)
            else:
                raise Unsupported(f"argument {name} missing")
        return pre, out

    # ------------------------------------------------------------ statements
    def fall_off(self):
        if self.t.ret == "written":
            return "pure written"
        if self.t.ret == "Unit":
            return "pure ()"
        raise Unsupported("path without return")

    def returns(self, stmts):
        if not stmts:
            return False
        s = stmts[-1]
        if isinstance(s, ast.Return):
            return True
        if isinstance(s, ast.If):
            return self.returns(s.body) and bool(s.orelse) and self.returns(s.orelse)
        return False

    def blk(self, stmts, ind):
        """Lines of a statement list in tail position (ends by `pure …` on every path)."""
        pad = "  " * ind
        if not stmts:
            return [pad + self.fall_off()]
        s, rest = stmts[0], list(stmts[1:])
        saved_ty = dict(self.ty)
        try:
            return self.stmt(s, rest, ind, pad)
        finally:
            self.ty = saved_ty

    def stmt(self, s, rest, ind, pad):
        if isinstance(s, ast.Expr) and isinstance(s.value, ast.Constant) and isinstance(s.value.value, str):
            return self.blk(rest, ind)                                     # docstring
        if isinstance(s, ast.Pass):
            return [pad + "PyW.noop"] + self.blk(rest, ind)
        if isinstance(s, ast.Return):
            if s.value is None or (isinstance(s.value, ast.Constant) and s.value.value is None):
                return [pad + self.fall_off()]
            p, a, ta = self.ex(s.value)
            want = {"String": "str", "String × Bytes": "pair", "written": None}.get(self.t.ret)
            if ta != want:
                raise Unsupported(f"return of {ta}")
            return [pad + x for x in p] + [pad + f"pure {a}"]
        if isinstance(s, ast.Assign) and len(s.targets) == 1:
            tg = s.targets[0]
            if isinstance(tg, ast.Name) and isinstance(s.value, ast.IfExp):
                # x = A if c else B   ==   if c: x = A  else: x = B
                v = s.value
                # `x if x is not None else d`  ==  `if x is None: x = d`
                none_test = self.none_test(v.test)
                if none_test and none_test[0] == tg.id:
                    keep, dflt = (v.orelse, v.body) if none_test[1] else (v.body, v.orelse)
                    if isinstance(keep, ast.Name) and keep.id == tg.id:
                        return self.or_else(tg.id, [ast.Assign(targets=[tg], value=dflt)], rest, ind, pad)
                new = ast.If(test=v.test, body=[ast.Assign(targets=[tg], value=v.body)],
                             orelse=[ast.Assign(targets=[tg], value=v.orelse)])
                return self.stmt(new, rest, ind, pad)
            if isinstance(tg, ast.Name):
                p, a, ta = self.ex(s.value)
                name = self.local(tg.id)
                lines = [pad + x for x in p]
                if p and p[-1].startswith(f"let {a} ← "):                  # fold `let t ← m; let x := t`
                    lines[-1] = pad + p[-1].replace(f"let {a} ← ", f"let {name} ← ", 1)
                else:
                    lines.append(pad + f"let {name} := {a}")
                self.ty[tg.id] = ta
                return lines + self.blk(rest, ind)
            d = self.dotted(tg)
            if d in DOCS:                                                  # a new, empty document
                ctor, arg = DOCS[d]
                v = s.value
                if not (isinstance(v, ast.Call) and self.dotted(v.func) == ctor and not v.keywords
                        and ([getattr(x, "value", None) for x in v.args] == ([arg] if arg else []))):
                    raise Unsupported(f"{d} assigned something else than a new empty document")
                return [pad + "PyW.newDocument self"] + self.blk(rest, ind)
            if d == "precision.decimals":
                p, a, ta = self.ex(s.value)
                if ta != "nat":
                    raise Unsupported("precision.decimals assigned a non-number")
                return [pad + x for x in p] + [pad + f"PyW.setDecimals {a}"] + self.blk(rest, ind)
            raise Unsupported(f"assignment to {d}")
        if isinstance(s, ast.Expr) and isinstance(s.value, ast.Yield):
            if self.ty.get("@body") != "body" or s.value.value is not None:
                raise Unsupported("yield")
            return [pad + "body"] + self.blk(rest, ind)
        if isinstance(s, ast.Expr) and isinstance(s.value, ast.Call):
            n = s.value
            d = self.dotted(n.func)
            if d in NOOP_CALLS:
                for a in list(n.args) + [k.value for k in n.keywords]:
                    self.pure_text(a)
                return [pad + "PyW.noop"] + self.blk(rest, ind)
            if d in SELF_STEPS and not n.args and not n.keywords:
                return [pad + SELF_STEPS[d]] + self.blk(rest, ind)
            if isinstance(n.func, ast.Attribute) and n.func.attr == "write" and isinstance(n.func.value, ast.Name) \
                    and self.ty.get(n.func.value.id) == "tree" and n.args:
                p, a, ta = self.ex(n.args[0])
                if ta != "str" or self.t.ret != "written":
                    raise Unsupported("tree.write")
                t = self.tmp()
                return [pad + x for x in p] + [pad + f"let {t} ← PyW.treeWrite c {self.local(n.func.value.id)} {a}",
                                               pad + f"let written := some {t}"] + self.blk(rest, ind)
            if d in self.t.callee_params:
                fn, params, rty = self.t.callee_params[d]
                pre, args = self.bind_args(n, params)
                call = f"{fn} {ENV} self {' '.join(args)}".rstrip()
                if d.startswith("self._file_writer."):                      # the facade: the format writer runs its own method
                    _, xml_fn, pb_fn = fn.split("|")
                    call = f"PyW.dispatch self ({xml_fn} {ENV} self {' '.join(args)}) ({pb_fn} {ENV} self {' '.join(args)})"
                if rty == "written":
                    return [pad + x for x in pre] + [pad + f"let written ← {call}"] + self.blk(rest, ind)
                if rty == "pair":
                    t = self.tmp()
                    return [pad + x for x in pre] + [pad + f"let {t} ← {call}", pad + f"let written := some {t}"] + self.blk(rest, ind)
                raise Unsupported(f"result of {d} discarded")
            raise Unsupported(f"statement call {d}")
        if isinstance(s, ast.If):
            nt = self.none_test(s.test)
            if nt and nt[1] and not s.orelse and self.ty.get(nt[0]) == "optstr" and len(s.body) == 1 \
                    and isinstance(s.body[0], ast.Assign) and self.dotted(s.body[0].targets[0]) == nt[0]:
                return self.or_else(nt[0], s.body, rest, ind, pad)           # if x is None: x = d
            p, test, ta = self.ex(s.test)
            if ta == "str":
                test = f"decide ({test} ≠ \"\")"
            elif ta != "bool":
                raise Unsupported(f"if on {ta}")
            then = self.blk(list(s.body) + ([] if self.returns(s.body) else rest), ind + 1)
            els = self.blk(list(s.orelse) + ([] if s.orelse and self.returns(s.orelse) else rest), ind + 1)
            return [pad + x for x in p] + [pad + f"if {test} then"] + then + [pad + "else"] + els
        if isinstance(s, ast.With) and len(s.items) == 1:
            ce = s.items[0].context_expr
            if isinstance(ce, ast.Call) and self.dotted(ce.func) == "self._own_decimal_precision" and not ce.args \
                    and s.items[0].optional_vars is None:
                for x in ast.walk(ast.Module(body=list(s.body), type_ignores=[])):
                    if isinstance(x, (ast.Return, ast.Yield)) or (isinstance(x, ast.Assign) and any(isinstance(g, ast.Name) for g in x.targets)):
                        raise Unsupported("return / local assignment inside the with-block")
                saved = self.t.ret
                self.t.ret = "Unit"
                try:
                    body = self.blk(list(s.body), ind + 1)
                finally:
                    self.t.ret = saved
                return [pad + f"FileWriter_own_decimal_precision {ENV} self (do"] + body[:-1] + [body[-1] + ")"] + self.blk(rest, ind)
            if isinstance(ce, ast.Call) and self.dotted(ce.func) == "open" and len(ce.args) == 2 and isinstance(ce.args[1], ast.Constant) \
                    and ce.args[1].value == "wb" and isinstance(s.items[0].optional_vars, ast.Name) and len(s.body) == 1 and not rest:
                f = s.items[0].optional_vars.id
                b = s.body[0]
                if isinstance(b, ast.Expr) and isinstance(b.value, ast.Call) and self.dotted(b.value.func) == f"{f}.write" \
                        and len(b.value.args) == 1 and isinstance(b.value.args[0], ast.Call) \
                        and self.dotted(b.value.args[0].func) == "self._commonroad_msg.SerializeToString" and not b.value.args[0].args:
                    p, a, ta = self.ex(ce.args[0])
                    if ta != "str" or self.t.ret != "String × Bytes":
                        raise Unsupported("open")
                    t = self.tmp()
                    return [pad + x for x in p] + [pad + f"let {t} ← PyW.treeWrite c self {a}", pad + f"pure {t}"]
            raise Unsupported("with statement")
        if isinstance(s, ast.Try) and not s.handlers and not s.orelse and s.finalbody and not rest:
            saved = self.t.ret
            for x in ast.walk(ast.Module(body=list(s.body) + list(s.finalbody), type_ignores=[])):
                if isinstance(x, ast.Return):
                    raise Unsupported("return inside try/finally")
            self.t.ret = "Unit"
            try:
                body = self.blk(list(s.body), ind + 1)
                fin = self.blk(list(s.finalbody), ind + 1)
            finally:
                self.t.ret = saved
            if self.t.ret != "Unit":
                raise Unsupported("try/finally in a function with a value")
            return [pad + "M.tryFinally (do"] + body[:-1] + [body[-1] + ") (do"] + fin[:-1] + [fin[-1] + ")"]
        raise Unsupported(f"statement {type(s).__name__}")

    def none_test(self, test):
        """(variable, is_none?) of `x is None` / `x is not None`."""
        if isinstance(test, ast.Compare) and len(test.ops) == 1 and isinstance(test.ops[0], (ast.Is, ast.IsNot)) \
                and isinstance(test.comparators[0], ast.Constant) and test.comparators[0].value is None and isinstance(test.left, ast.Name):
            return test.left.id, isinstance(test.ops[0], ast.Is)
        return None

    def or_else(self, var, body, rest, ind, pad):
        if self.ty.get(var) != "optstr":
            raise Unsupported(f"default for {var}")
        p, a, ta = self.ex(body[0].value)
        if ta != "str":
            raise Unsupported("default of another type")
        name = self.local(var)
        inner = [pad + "  " + x for x in p] + [pad + f"  pure {a})"]
        self.ty[var] = "str"
        return [pad + f"let {name} ← PyW.orElse {name} (do"] + inner + self.blk(rest, ind)

    # ------------------------------------------------------------ whole function
    def function(self, fn: ast.FunctionDef) -> str:
        t = self.t
        want = [p for p, _ in t.params if p and p != "self" and not p.startswith("@")]
        have = [a.arg for a in fn.args.args if a.arg != "self"]
        if have != want or fn.args.vararg or fn.args.kwarg or fn.args.kwonlyargs:
            raise Unsupported(f"parameters {have}")
        if any(p == "@body" for p, _ in t.params):
            if not any(self.dotted(d) == "contextmanager" for d in fn.decorator_list):
                raise Unsupported("not a contextmanager")
            self.ty["@body"] = "body"
        lines = self.blk(list(fn.body), 1)
        if t.ret == "written":
            lines = [f"  let written : {WRITTEN} := none"] + lines
        ret = {"written": WRITTEN, "Unit": "Unit"}.get(t.ret, t.ret)
        binders = " ".join(f"({b})" for _, b in t.params)
        doc = f"/-- {t.file}: {t.cls}.{t.func}{(' — ' + t.doc) if t.doc else ''} -/\n"
        return doc + f"def {t.name} {ENV_BINDERS} {binders} : M {ST} ({ret}) := do\n" + "\n".join(lines) + "\n"


# ---------------------------------------------------------------------------------------------------- structural extraction

def unparse(n):
    return ast.unparse(n).replace("\n", " ")


def class_body(tree, cls):
    for n in tree.body:
        if isinstance(n, ast.ClassDef) and n.name == cls:
            return n
    raise Unsupported(f"class {cls} not found")


def enum_members(tree, cls):
    out = []
    for s in class_body(tree, cls).body:
        if isinstance(s, ast.Assign) and len(s.targets) == 1 and isinstance(s.targets[0], ast.Name) and isinstance(s.value, ast.Constant):
            out.append((s.targets[0].id, s.value.value))
    if not out:
        raise Unsupported(f"enum {cls} without members")
    return out


def canon_value(v):
    """`a if a is not None else b` and `b if a is None else a` are the same fall-back `a ?? b`."""
    if isinstance(v, ast.IfExp) and isinstance(v.test, ast.Compare) and len(v.test.ops) == 1 \
            and isinstance(v.test.comparators[0], ast.Constant) and v.test.comparators[0].value is None:
        x = unparse(v.test.left)
        if isinstance(v.test.ops[0], ast.IsNot) and unparse(v.body) == x:
            return f"{x} ?? {unparse(v.orelse)}"
        if isinstance(v.test.ops[0], ast.Is) and unparse(v.orelse) == x:
            return f"{x} ?? {unparse(v.body)}"
    return unparse(v)


def accesses(fn: ast.FunctionDef):
    """Ordered (kind, target, what) of everything a method does to writer-owned or module-global state.
    Loop variables and locals bound once to a creator call are replaced by what they stand for; anything else that is not a
    known effect-free statement is recorded as ("other", …) so that it shows in the table."""
    out = []

    def resolve(n, env):
        if isinstance(n, ast.Name) and n.id in env:
            return env[n.id]
        if isinstance(n, ast.Call):
            f = unparse(n.func)
            return f + "(" + ", ".join([resolve(a, env) for a in n.args] + [f"{k.arg}={resolve(k.value, env)}" for k in n.keywords]) + ")"
        return unparse(n)

    def walk(stmts, env, depth=0):
        for s in stmts:
            if isinstance(s, ast.Expr) and isinstance(s.value, ast.Constant):
                continue
            if isinstance(s, ast.Pass):
                continue
            if isinstance(s, ast.Assert):
                out.append(("assert", "", unparse(s.test)))
            elif isinstance(s, ast.Assign) and len(s.targets) == 1 and isinstance(s.targets[0], ast.Name):
                if depth:            # bound differently per branch: shown, and not substituted after the `if`
                    out.append(("bind", s.targets[0].id, resolve(s.value, env)))
                    env.pop(s.targets[0].id, None)
                else:
                    env[s.targets[0].id] = resolve(s.value, env)
            elif isinstance(s, ast.AnnAssign) and isinstance(s.target, ast.Attribute) and s.value is not None:
                out.append(("assign", unparse(s.target), canon_value(s.value)))
            elif isinstance(s, ast.Assign) and len(s.targets) == 1 and isinstance(s.targets[0], ast.Attribute):
                out.append(("assign", unparse(s.targets[0]), canon_value(s.value) if not isinstance(s.value, ast.Name) else resolve(s.value, env)))
            elif isinstance(s, ast.Expr) and isinstance(s.value, ast.Call) and isinstance(s.value.func, ast.Attribute):
                c = s.value
                d = unparse(c.func)
                if d in ("print", "logger.warning", "logger.info", "warnings.warn"):
                    continue
                if c.func.attr == "set" and len(c.args) == 2 and isinstance(c.args[0], ast.Constant):
                    src = resolve(c.args[1], env)
                    # the value comes from the clock, or from anything else (the writer's own inputs)
                    out.append(("set-from-clock" if "datetime" in src else "set", unparse(c.func.value), str(c.args[0].value)))
                elif c.func.attr in ("append", "CopyFrom", "extend") and len(c.args) == 1:
                    out.append((c.func.attr, unparse(c.func.value), resolve(c.args[0], env)))
                elif d == "super().__init__":
                    out.append(("super", "__init__", ", ".join(resolve(a, env) for a in c.args)))
                else:
                    out.append(("other", "", resolve(c, env)))
            elif isinstance(s, ast.Expr) and isinstance(s.value, ast.Call) and unparse(s.value.func) == "print":
                continue
            elif isinstance(s, ast.For) and isinstance(s.target, ast.Name):
                e2 = dict(env)
                e2[s.target.id] = "each " + resolve(s.iter, env)
                walk(s.body, e2, depth)
                walk(s.orelse, env, depth)
            elif isinstance(s, ast.If):
                out.append(("if", "", resolve(s.test, env)))
                walk(s.body, env, depth + 1)
                out.append(("else", "", ""))
                walk(s.orelse, env, depth + 1)
                out.append(("endif", "", ""))
            elif isinstance(s, ast.Try):
                walk(s.body, env, depth)
                for h in s.handlers:
                    out.append(("except", "", unparse(h.type) if h.type else ""))
                    walk(h.body, env, depth)
                walk(s.finalbody, env, depth)
            elif isinstance(s, ast.Return) and s.value is None:
                out.append(("return", "", ""))
            else:
                out.append(("other", "", unparse(s)))
    walk(fn.body, {})
    return out


def table(name, doc, rows):
    body = ",\n   ".join(f"({lit(a)}, {lit(b)}, {lit(c)})" for a, b, c in rows)
    return f"/-- {doc} -/\ndef {name} : List CR.PyW.Access :=\n  [{body}]\n"


STRUCTURAL = [   # (lean name, file, class, function)
    ("FileWriter_init_accesses", IFACE, "FileWriter", "__init__"),
    ("XMLFileWriter_init_accesses", XML, "XMLFileWriter", "__init__"),
    ("ProtobufFileWriter_init_accesses", PB, "ProtobufFileWriter", "__init__"),
    ("CommonRoadFileWriter_init_accesses", FACADE, "CommonRoadFileWriter", "__init__"),
    ("XMLFileWriter_write_header_accesses", XML, "XMLFileWriter", "_write_header"),
    ("XMLFileWriter_add_all_objects_accesses", XML, "XMLFileWriter", "_add_all_objects_from_scenario"),
    ("XMLFileWriter_add_all_planning_problems_accesses", XML, "XMLFileWriter", "_add_all_planning_problems_from_planning_problem_set"),
    ("ProtobufFileWriter_write_header_accesses", PB, "ProtobufFileWriter", "_write_header"),
    ("ProtobufFileWriter_add_all_objects_accesses", PB, "ProtobufFileWriter", "_add_all_objects_from_scenario"),
    ("ProtobufFileWriter_add_all_planning_problems_accesses", PB, "ProtobufFileWriter", "_add_all_planning_problems_from_planning_problem_set"),
]


# ---------------------------------------------------------------------------------------------------- targets

OPT_NAME = ("filename", "optstr", "none")
MODE_ARG = ("overwrite_existing_file", "mode", "Mode.ask")
CV_ARG = ("check_validity", "bool", "false")


def functional_targets():
    handle = ("FileWriter_handle_file_path", [("filename", "optstr", None), ("overwrite_existing_file", "mode", None)], "str")
    ser = ("ProtobufFileWriter_serialize_write_msg", [("filename", "str", None)], "pair")
    wparams = [("self", "self : Nat"), ("filename", "filename : Option String"), ("overwrite_existing_file", "overwrite_existing_file : Mode")]
    wl = {"filename": "optstr", "overwrite_existing_file": "mode"}
    cv = [("check_validity", "check_validity : Bool")]
    return [
        WTarget("FileWriter_own_decimal_precision", IFACE, "_own_decimal_precision", "FileWriter",
                [("self", "self : Nat"), ("@body", f"body : M {ST} Unit")], "Unit",
                doc="generator-based context manager: `yield` is the with-block, passed as `body`"),
        WTarget("FileWriter_handle_file_path", IFACE, "_handle_file_path", "FileWriter", wparams, "String", locals_=wl,
                doc="\"\" = skip"),
        WTarget("ProtobufFileWriter_serialize_write_msg", PB, "_serialize_write_msg", "ProtobufFileWriter",
                [("self", "self : Nat"), ("filename", "filename : String")], "String × Bytes", locals_={"filename": "str"}),
        WTarget("XMLFileWriter_write_to_file", XML, "write_to_file", "XMLFileWriter", wparams + cv, "written",
                locals_={**wl, "check_validity": "bool"}, callee_params={"self._handle_file_path": handle}),
        WTarget("XMLFileWriter_write_scenario_to_file", XML, "write_scenario_to_file", "XMLFileWriter", wparams, "written", locals_=wl,
                callee_params={"self._handle_file_path": handle}),
        WTarget("ProtobufFileWriter_write_to_file", PB, "write_to_file", "ProtobufFileWriter", wparams + cv, "written",
                locals_={**wl, "check_validity": "bool"},
                callee_params={"self._handle_file_path": handle, "self._serialize_write_msg": ser}),
        WTarget("ProtobufFileWriter_write_scenario_to_file", PB, "write_scenario_to_file", "ProtobufFileWriter", wparams, "written", locals_=wl,
                callee_params={"self._handle_file_path": handle, "self._serialize_write_msg": ser}),
        WTarget("CommonRoadFileWriter_write_to_file", FACADE, "write_to_file", "CommonRoadFileWriter", wparams + cv, "written",
                locals_={**wl, "check_validity": "bool"},
                callee_params={"self._file_writer.write_to_file": ("|XMLFileWriter_write_to_file|ProtobufFileWriter_write_to_file",
                                                                   [OPT_NAME, MODE_ARG, CV_ARG], "written")},
                doc="the facade delegates to the format writer it holds"),
        WTarget("CommonRoadFileWriter_write_scenario_to_file", FACADE, "write_scenario_to_file", "CommonRoadFileWriter", wparams, "written",
                locals_=wl,
                callee_params={"self._file_writer.write_scenario_to_file": ("|XMLFileWriter_write_scenario_to_file|ProtobufFileWriter_write_scenario_to_file",
                                                                            [OPT_NAME, MODE_ARG], "written")},
                doc="the facade delegates to the format writer it holds"),
    ]


_TREES = {}


def parse(repo, file):
    key = (repo, file)
    src = open(os.path.join(repo, file), encoding="utf-8").read()
    if key not in _TREES or _TREES[key][0] != src:
        _TREES[key] = (src, ast.parse(src))
    return _TREES[key][1]


def translate_functional(repo, t: WTarget) -> str:
    tree = parse(repo, t.file)
    fn = find_func(tree, t.cls, t.func)
    return TrW(t, tree).function(fn)


def translate_suffix(repo, name, file, cls) -> str:
    fn = find_func(parse(repo, file), cls, "_get_suffix")
    body = [s for s in fn.body if not (isinstance(s, ast.Expr) and isinstance(s.value, ast.Constant))]
    if len(body) != 1 or not isinstance(body[0], ast.Return):
        raise Unsupported("_get_suffix shape")
    d = unparse(body[0].value)
    if isinstance(body[0].value, ast.Constant) and isinstance(body[0].value.value, str):
        val = lit(body[0].value.value)
    elif d in ("FileFormat.XML.value", "FileFormat.PROTOBUF.value"):
        val = d.replace(".", "_")
    else:
        raise Unsupported(f"_get_suffix returns {d}")
    return f"/-- {file}: {cls}._get_suffix -/\ndef {name} : String := {val}\n"


def translate_enums(repo) -> str:
    ff = dict(enum_members(parse(repo, UTIL), "FileFormat"))
    for k in ("XML", "PROTOBUF"):
        if not isinstance(ff.get(k), str):
            raise Unsupported(f"FileFormat.{k}")
    om = enum_members(parse(repo, IFACE), "OverwriteExistingFile")
    if not all(isinstance(v, int) for _, v in om):
        raise Unsupported("OverwriteExistingFile values")
    return (f"/-- {UTIL}: FileFormat.XML.value -/\ndef FileFormat_XML_value : String := {lit(ff['XML'])}\n"
            f"/-- {UTIL}: FileFormat.PROTOBUF.value -/\ndef FileFormat_PROTOBUF_value : String := {lit(ff['PROTOBUF'])}\n"
            f"/-- {IFACE}: OverwriteExistingFile (member, value) in source order -/\n"
            "def OverwriteExistingFile_members : List (String × Int) := [" + ", ".join(f"({lit(k)}, {v})" for k, v in om) + "]\n")


def translate_structural(repo, name, file, cls, func) -> str:
    fn = find_func(parse(repo, file), cls, func)
    return table(name, f"{file}: {cls}.{func} — ordered state accesses (structural extraction)", accesses(fn))


def units(repo):
    """[(unit name, thunk producing its Lean text)] in output order."""
    us = [("C15_enums", lambda: translate_enums(repo)),
          ("XMLFileWriter_get_suffix", lambda: translate_suffix(repo, "XMLFileWriter_get_suffix", XML, "XMLFileWriter")),
          ("ProtobufFileWriter_get_suffix", lambda: translate_suffix(repo, "ProtobufFileWriter_get_suffix", PB, "ProtobufFileWriter"))]
    for t in functional_targets():
        us.append((t.name, (lambda t=t: translate_functional(repo, t))))
    for name, file, cls, func in STRUCTURAL:
        us.append((name, (lambda a=(name, file, cls, func): translate_structural(repo, *a))))
    return us


HEADER = f"""/-
  Gen.SrcC15 — GENERATED on every run by harness/translate/src_c15.py from the current source of the file writers. Do not edit.
-/
import CRModel.PyExtC15
set_option linter.unusedVariables false
namespace Gen
open CR CR.Writer CR.PyW
section
variable {TYVARS}

"""


def lastgood_path(name):
    return os.path.join(LASTGOOD, "C15_" + name.replace("C15_", "") + ".lean")


def regenerate(repo, gen_dir):
    os.makedirs(gen_dir, exist_ok=True)
    os.makedirs(LASTGOOD, exist_ok=True)
    status, chunks = {}, []
    for name, thunk in units(repo):
        lg = lastgood_path(name)
        key = "C15." + name.replace("C15_", "")
        try:
            txt = thunk()
            status[key] = "ok"
        except (Unsupported, SyntaxError, KeyError, IndexError, AttributeError, OSError, ValueError, TypeError) as e:
            if os.path.exists(lg):
                txt = open(lg).read()
                status[key] = f"lost ({type(e).__name__}: {e}); last good translation used"
            else:
                txt = f"-- {name}: not translatable ({e})\n"
                status[key] = f"lost ({type(e).__name__}: {e}); no fallback"
        chunks.append(txt)
    new = HEADER + "\n".join(chunks) + "\nend\nend Gen\n"
    path = os.path.join(gen_dir, "SrcC15.lean")
    old = open(path).read() if os.path.exists(path) else None
    if old != new:
        with open(path, "w") as f:
            f.write(new)
    return status


def update_lastgood(repo):
    os.makedirs(LASTGOOD, exist_ok=True)
    for name, thunk in units(repo):
        open(lastgood_path(name), "w").write(thunk())


if __name__ == "__main__":
    import sys
    repo = os.environ.get("VERIF_REPO", "/repo")
    if len(sys.argv) > 1 and sys.argv[1] == "--update-lastgood":
        update_lastgood(repo)
    st = regenerate(repo, os.path.join(os.path.dirname(os.path.dirname(os.path.dirname(os.path.abspath(__file__)))), "lean", "Gen"))
    for k, v in st.items():
        print(k, v)
