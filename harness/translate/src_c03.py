"""STRUCTURAL translator for C03: the node builders of commonroad/common/writer/file_writer_xml.py -> lean/Gen/SrcC03.lean.

For every builder function listed in TARGETS the CURRENT source is parsed with `ast` and, per XML element the function
constructs, a `CR.SrcW.Builder` term is written (vocabulary: lean/CRModel/PyExtC03.lean):

  tag      the element name (`etree.Element("...")`; `?<source>` when computed),
  attrs    `node.set(name, value)` in statement order, with the formatter of the value,
  text     the formatter behind `node.text = ...` (float_to_str / decimal_to_str / str / .value / str(..).lower() / literal ...),
  body     the projection of the function's control flow on the statements that append a child to that element:
           emit tag | splice helper | seq | ite cond | each collection   (guards: `is not None`, truthiness, `len(..) > 0`,
           and / or / not; any other test is an opaque numbered atom whose text is kept in `atoms`).

What the translator understands (the denotations are the trusted part, cf. PyExtC03.lean):
  x = etree.Element(t)                       a new element
  t = <expr> (no element), t bound ONCE in the function and <expr> naming only once-bound names: a value temporary; t is
                                             replaced by <expr> wherever it is read (formatter of `.text = t` / `.set(k, t)`,
                                             guards, source texts), so naming a sub-expression changes nothing
  x = F(..) with F a builder returning an element: x is that element (its children so far: `splice F`)
  a.append(x) / a.append(F(..)) / a.append(etree.Element(t))       one child; F returning a list or forwarding: splice
  a.extend(F(..)) / a.extend([x, y])         the children F returns
  F(.., a, ..) / y = F(.., a, ..)            F fills the element handed to it (and returns it)
  Pointlist.create_from_numpy_array(A).add_points_to_node(a)       for p in A: a.append(<point>)   (file_writer_xml.py, class Pointlist)
  Point(..).create_node() / Point.create_from_numpy_array(p).create_node() / p.create_node()        builder Point.create_node
  L = [] / L = [x]; L.append(..); return L    a list of elements
  return in branches                          the function forwards what the branch returns
  if / elif / else, for, with, try            control flow; `if` statements whose branches bind an element name used later,
                                              or return, get the rest of the block copied into both branches
Anything else that touches an element (a helper the translator cannot read, a comprehension, ...) makes the FUNCTION `lost`:
its last good text (harness/translate/lastgood/c03_*.lean) is emitted and the correspondence tie of C03 decides alone.

Also translated functionally: StateXMLNode._map_to_xml_prop (if/elif chain of string equalities, else the camel-case re.sub)."""
from __future__ import annotations

import ast
import copy
import os
import re
import sys

from .pysrc import Unsupported, find_func, LASTGOOD

FILE = "commonroad/common/writer/file_writer_xml.py"

# (builder function, XSD type of the element it builds / fills; "" = none of its own)
TARGETS = [
    ("Point.create_node", "point"),
    ("Pointlist.add_points_to_node", ""),
    ("create_exact_node_float", "xs:decimal"),
    ("create_exact_node_int", "xs:positiveInteger"),
    ("create_interval_node_float", "decimalExactOrInterval"),
    ("create_interval_node_int", "integerExactOrIntervalGreaterZero"),
    ("XMLFileWriter._write_header", "/commonRoad"),
    ("XMLFileWriter._add_all_objects_from_scenario", "/commonRoad"),
    ("XMLFileWriter._add_all_planning_problems_from_planning_problem_set", "/commonRoad"),
    ("XMLFileWriter.write_to_file", "/commonRoad"),
    ("XMLFileWriter.write_scenario_to_file", "/commonRoad"),
    ("LocationXMLNode.create_node", "location"),
    ("GeoTransformationXMLNode.create_node", "geoTransformation"),
    ("EnvironmentXMLNode.create_node", "environment"),
    ("TagXMLNode.create_node", "tag"),
    ("LaneletXMLNode.create_node", "lanelet"),
    ("LaneletStopLineXMLNode.create_node", "stopLine"),
    ("LineMarkingXMLNode.create_node", "lineMarking"),
    ("ObstacleXMLNode.create_node", "/commonRoad"),
    ("ObstacleXMLNode.create_obstacle_node_header", "staticObstacle"),
    ("EnvironmentObstacleXMLNode.create_node", "environmentObstacle"),
    ("PhantomObstacleXMLNode.create_obstacle_node_header", "phantomObstacle"),
    ("PhantomObstacleXMLNode.create_node", "phantomObstacle"),
    ("StaticObstacleXMLNode.create_node", "staticObstacle"),
    ("DynamicObstacleXMLNode.create_node", "dynamicObstacle"),
    ("DynamicObstacleXMLNode._create_trajectory_node", "dynamicObstacle/trajectory"),
    ("DynamicObstacleXMLNode.create_occupancy_node", "dynamicObstacle/occupancySet"),
    ("DynamicObstacleXMLNode._create_signal_series_node", "dynamicObstacle/signalSeries"),
    ("OccupancyXMLNode.create_node", "occupancy"),
    ("ShapeXMLNode.create_node", "shape"),
    ("ShapeXMLNode._create_single_element", "shape"),
    ("RectangleXMLNode.create_rectangle_node", "rectangle"),
    ("CircleXMLNode.create_circle_node", "circle"),
    ("PolygonXMLNode.create_polygon_node", "polygon"),
    ("StateXMLNode.create_goal_state_node", "goalState"),
    ("StateXMLNode._write_goal_position", "positionInterval"),
    ("StateXMLNode._write_goal_time_exact_or_interval", "integerIntervalGreaterZero"),
    ("StateXMLNode._write_value_exact_or_interval", "decimalExactOrInterval"),
    ("StateXMLNode.create_state_node", "state"),
    ("PlanningProblemXMLNode.create_node", "planningProblem"),
    ("IntersectionXMLNode.create_node", "intersection"),
    ("TrafficSignXMLNode.create_node", "trafficSign"),
    ("TrafficSignXMLNode.create_ref_node", "trafficSignRef"),
    ("TrafficLightXMLNode.create_node", "trafficLight"),
    ("TrafficLightXMLNode.create_ref_node", "trafficLightRef"),
    ("TrafficLightCycleXMLNode.create_node", "trafficLightCycle"),
    ("TrafficLightCycleElementXMLNode.create_node", "trafficCycleElement"),
    ("SignalStateXMLNode.create_signal_state_node", "signalState"),
]
XSD = dict(TARGETS)
MAP_FUNC = ("StateXMLNode", "_map_to_xml_prop")
ROOT_ATTR = "self._root_node"


def q(s: str) -> str:
    return '"' + s.replace("\\", "\\\\").replace('"', '\\"').replace("\n", "\\n") + '"'


def lean_name(key: str) -> str:
    s = re.sub(r"[^A-Za-z0-9]", "_", key.replace("XMLNode", "").replace("#", "_n"))
    s = re.sub(r"_+", "_", s).strip("_")
    return "b_" + s


class Rec:
    """one element (or pseudo element: parameter filled / list built / RET) of one function"""

    def __init__(self, tag="", kind="inline", derived=None, home=None, name=None):
        self.tag, self.kind, self.derived, self.home, self.name = tag, kind, derived, home, name
        self.attrs, self.text, self.parent, self.key = [], None, None, None


class Info:
    def __init__(self, key, kind, tag, target_param, builders):
        self.key, self.kind, self.tag, self.target_param, self.builders = key, kind, tag, target_param, builders


class Rename(ast.NodeTransformer):
    def __init__(self, m):
        self.m = m

    def visit_Name(self, n):
        return ast.copy_location(ast.Name(id=self.m.get(n.id, n.id), ctx=n.ctx), n)


class Inline(ast.NodeTransformer):
    def __init__(self, m):
        self.m = m

    def visit_Name(self, n):
        if isinstance(n.ctx, ast.Load) and n.id in self.m:
            return copy.deepcopy(self.m[n.id])
        return n


def contains(node, typ):
    return any(isinstance(x, typ) for x in ast.walk(node))


class Module:
    def __init__(self, repo):
        self.src = open(os.path.join(repo, FILE), encoding="utf-8").read()
        self.tree = ast.parse(self.src)
        self.classes = {n.name: n for n in self.tree.body if isinstance(n, ast.ClassDef)}
        self.funcs = {n.name: n for n in self.tree.body if isinstance(n, ast.FunctionDef)}
        self.memo = {}
        self.busy = set()

    def fdef(self, key):
        if "." in key:
            c, f = key.split(".", 1)
            return c, find_func(self.tree, c, f)
        if key not in self.funcs:
            raise Unsupported(f"function {key} not found")
        return None, self.funcs[key]

    def builder_like(self, key) -> bool:
        try:
            _, fd = self.fdef(key)
        except Unsupported:
            return False
        return any(isinstance(n, ast.Call) and isinstance(n.func, ast.Attribute) and n.func.attr in ("Element", "SubElement", "append", "extend")
                   for n in ast.walk(fd))

    def info(self, key) -> Info:
        if key in self.memo:
            r = self.memo[key]
            if isinstance(r, Exception):
                raise r
            return r
        if key in self.busy:
            raise Unsupported(f"recursive builder {key}")
        self.busy.add(key)
        try:
            cls, fd = self.fdef(key)
            r = Fn(self, key, cls, fd).analyse()
        except Unsupported as e:
            self.memo[key] = e
            raise
        except (KeyError, IndexError, AttributeError, TypeError, ValueError) as e:
            e2 = Unsupported(f"{type(e).__name__}: {e}")
            self.memo[key] = e2
            raise e2
        finally:
            self.busy.discard(key)
        self.memo[key] = r
        return r


class Fn:
    def __init__(self, mod: Module, key, cls, fd: ast.FunctionDef):
        self.mod, self.key, self.cls = mod, key, cls
        self.fd = copy.deepcopy(fd)
        params = [a.arg for a in self.fd.args.args]
        self.is_self = bool(params) and params[0] == "self"
        if params and params[0] in ("cls", "self"):
            self.params = params[1:]
        else:
            self.params = params
        self.canon = {}
        if self.is_self:
            self.canon["self"] = "_"
        elif self.params:
            self.canon[self.params[0]] = "_"
        self.vars = {}            # local name -> Rec
        # local name -> the expression it is bound to (value temporaries, `t = str(x.value)`): only names with exactly ONE binding
        # in the whole function (no parameter, loop target, augmented assignment ...) whose expression mentions no name that is
        # bound more than once either -- such a name denotes its expression wherever it is read
        self.exprs = {}
        self.stores = {}
        for n in ast.walk(self.fd):
            if isinstance(n, ast.Name) and isinstance(n.ctx, (ast.Store, ast.Del)):
                self.stores[n.id] = self.stores.get(n.id, 0) + 1
            elif isinstance(n, ast.arg):
                self.stores[n.arg] = self.stores.get(n.arg, 0) + 1
            elif isinstance(n, (ast.Global, ast.Nonlocal)):
                for x in n.names:
                    self.stores[x] = self.stores.get(x, 0) + 2
        self.prec = {}            # parameter name / ROOT_ATTR -> Rec
        self.ev = {}              # id(stmt) -> [(Rec | "ANY", event)]
        self.conds, self.colls, self.skip_if = {}, {}, set()
        self.atoms = []
        self.ret = Rec(kind="ret", name="<return>")
        self.depth = 0

    # ---------------------------------------------------------------- expressions
    def src(self, e) -> str:
        e = copy.deepcopy(e)
        for _ in range(8):          # value temporaries are written out (their text must not depend on how a value is named)
            if not any(isinstance(n, ast.Name) and isinstance(n.ctx, ast.Load) and n.id in self.exprs and n.id not in self.vars
                       for n in ast.walk(e)):
                break
            e = Inline({k: v for k, v in self.exprs.items() if k not in self.vars}).visit(e)
        e = Rename(self.canon).visit(e)
        return ast.unparse(ast.fix_missing_locations(e))

    def atom(self, text) -> tuple:
        if text not in self.atoms:
            self.atoms.append(text)
        return ("atom", self.atoms.index(text))

    def cond(self, t, top=True):
        t = self.resolve(t)
        if isinstance(t, ast.BoolOp):
            op = "and" if isinstance(t.op, ast.And) else "or"
            cs = [self.cond(v, False) for v in t.values]
            c = cs[-1]
            for v in reversed(cs[:-1]):
                c = (op, v, c)
            return c
        if isinstance(t, ast.UnaryOp) and isinstance(t.op, ast.Not):
            return ("not", self.cond(t.operand, False))
        if isinstance(t, ast.Compare) and len(t.ops) == 1:
            l, o, r = t.left, t.ops[0], t.comparators[0]
            if isinstance(r, ast.Constant) and r.value is None and isinstance(o, (ast.IsNot, ast.NotEq)):
                return ("notNone", self.src(l))
            if isinstance(r, ast.Constant) and r.value is None and isinstance(o, (ast.Is, ast.Eq)):
                return ("isNone", self.src(l))
            if (isinstance(l, ast.Call) and isinstance(l.func, ast.Name) and l.func.id == "len" and len(l.args) == 1
                    and isinstance(r, ast.Constant) and ((isinstance(o, ast.Gt) and r.value == 0) or
                                                         (isinstance(o, ast.GtE) and r.value == 1) or
                                                         (isinstance(o, ast.NotEq) and r.value == 0))):
                return ("lenPos", self.src(l.args[0]))
        if isinstance(t, (ast.Name, ast.Attribute)):
            return ("truthy", self.src(t))
        if top and isinstance(t, ast.Constant) and isinstance(t.value, bool):
            return ("const", t.value)
        return self.atom(self.src(t))

    @staticmethod
    def strip_f64(e):
        if (isinstance(e, ast.Call) and isinstance(e.func, ast.Attribute) and e.func.attr in ("float64", "float_")
                and isinstance(e.func.value, ast.Name) and e.func.value.id in ("np", "numpy") and len(e.args) == 1):
            return e.args[0]
        if isinstance(e, ast.Call) and isinstance(e.func, ast.Name) and e.func.id == "float" and len(e.args) == 1:
            return e.args[0]
        return e

    def bind_expr(self, name, v):
        """`name = v` (v no element): remember v when the name can be replaced by it wherever it is read"""
        self.exprs.pop(name, None)
        if self.stores.get(name, 0) != 1:
            return
        for n in ast.walk(v):
            if isinstance(n, (ast.NamedExpr, ast.Lambda, ast.ListComp, ast.SetComp, ast.DictComp, ast.GeneratorExp, ast.Await,
                              ast.Yield, ast.YieldFrom)):
                return
            if isinstance(n, ast.Name) and (n.id == name or self.stores.get(n.id, 0) > 1):
                return
        self.exprs[name] = v

    def resolve(self, e, fuel=8):
        """a value temporary stands for the expression it was bound to (`t = str(x.value); node.text = t`)"""
        while fuel > 0 and isinstance(e, ast.Name) and e.id in self.exprs and e.id not in self.vars:
            e, fuel = self.exprs[e.id], fuel - 1
        return e

    def fmt(self, e, depth=0):
        e = self.resolve(e)
        if isinstance(e, ast.Constant) and isinstance(e.value, str):
            return ("const", e.value)
        if isinstance(e, ast.IfExp):
            return ("cond", self.fmt(e.body), self.fmt(e.orelse))
        if isinstance(e, ast.Call) and isinstance(e.func, ast.Name) and len(e.args) == 1 and not e.keywords:
            f, a = e.func.id, e.args[0]
            if f == "float_to_str":
                return ("floatToStr", self.src(self.strip_f64(a)))
            if f == "decimal_to_str":
                return ("decimalToStr", self.src(self.strip_f64(a)))
            if f == "str":
                if isinstance(a, ast.Attribute) and a.attr == "value":
                    return ("enumValue", self.src(a.value))
                if (isinstance(a, ast.Call) and isinstance(a.func, ast.Attribute) and a.func.attr == "lower" and not a.args
                        and isinstance(a.func.value, ast.Attribute) and a.func.value.attr == "name"):
                    return ("enumLowerName", self.src(a.func.value.value))
                return ("str", self.src(a))
        if (isinstance(e, ast.Call) and isinstance(e.func, ast.Attribute) and e.func.attr == "lower" and not e.args):
            v = e.func.value
            if isinstance(v, ast.Call) and isinstance(v.func, ast.Name) and v.func.id == "str" and len(v.args) == 1:
                return ("strLower", self.src(v.args[0]))
            if isinstance(v, ast.Attribute) and v.attr == "name":
                return ("enumLowerName", self.src(v.value))
        if isinstance(e, ast.Attribute) and e.attr == "value":
            return ("enumValue", self.src(e.value))
        if isinstance(e, (ast.Name, ast.Attribute)):
            return ("raw", self.src(e))
        if isinstance(e, ast.Call) and depth == 0:
            # a helper of this module whose body is one `return <expr>`: the formatter of that expression
            k = self.callee_key(e)
            if k is not None:
                try:
                    c, fd = self.mod.fdef(k)
                    body = [s for s in fd.body if not (isinstance(s, ast.Expr) and isinstance(s.value, ast.Constant))]
                    if len(body) == 1 and isinstance(body[0], ast.Return) and body[0].value is not None:
                        return Fn(self.mod, k, c, fd).fmt(body[0].value, depth=1)
                except Unsupported:
                    pass
        return ("other", self.src(e))

    def tagof(self, e) -> str:
        if isinstance(e, ast.Constant) and isinstance(e.value, str):
            return e.value
        if is_camel_sub(e):
            return "?camel(" + self.src(e.args[2]) + ")"
        if (isinstance(e, ast.Call) and isinstance(e.func, ast.Attribute) and e.func.attr == MAP_FUNC[1] and len(e.args) == 1):
            return "?mapToXmlProp(" + self.src(e.args[0]) + ")"
        return "?" + self.src(e)

    @staticmethod
    def is_element(e):
        return (isinstance(e, ast.Call) and isinstance(e.func, ast.Attribute) and e.func.attr in ("Element",)
                and isinstance(e.func.value, ast.Name) and e.func.value.id in ("etree", "ET", "ElementTree") and len(e.args) >= 1)

    def callee_key(self, c: ast.Call):
        f = c.func
        if isinstance(f, ast.Name):
            return f.id if f.id in self.mod.funcs else None
        if isinstance(f, ast.Attribute):
            v = f.value
            if isinstance(v, ast.Name):
                if v.id in ("cls", "self") and self.cls and v.id not in self.vars:
                    return f"{self.cls}.{f.attr}"
                if v.id in self.mod.classes:
                    return f"{v.id}.{f.attr}"
            if f.attr == "create_node" and not c.args and not c.keywords:
                # Point(..).create_node() / Point.create_from_numpy_array(p).create_node() / <a Point>.create_node()
                return "Point.create_node"
        return None

    def builder(self, c: ast.Call):
        k = self.callee_key(c)
        if k is None:
            return None
        try:
            return self.mod.info(k)
        except Unsupported:
            # a function that builds elements but cannot be read makes its callers unreadable too (never silently dropped)
            if k in XSD or self.mod.builder_like(k):
                raise
            return None

    def target_rec(self, e):
        """the element an `append` / `extend` / `set` / `.text =` is applied to"""
        if isinstance(e, ast.Name):
            if e.id in self.vars:
                return self.vars[e.id]
            if e.id in self.params:
                if e.id not in self.prec:
                    self.prec[e.id] = Rec(kind="param", home=self.fd.body, name=e.id)
                return self.prec[e.id]
            return None
        if isinstance(e, ast.Attribute) and ast.unparse(e) == ROOT_ATTR:
            if ROOT_ATTR not in self.prec:
                self.prec[ROOT_ATTR] = Rec(kind="param", home=self.fd.body, name=ROOT_ATTR)
            return self.prec[ROOT_ATTR]
        return None

    def fill_target(self, c: ast.Call, F: Info):
        p = F.target_param
        if p == ROOT_ATTR:
            return self.target_rec(ast.parse(ROOT_ATTR, mode="eval").body)
        _, fd = self.mod.fdef(F.key)
        names = [a.arg for a in fd.args.args]
        if names and names[0] in ("cls", "self"):
            names = names[1:]
        i = names.index(p)
        arg = None
        if i < len(c.args):
            arg = c.args[i]
        for kw in c.keywords:
            if kw.arg == p:
                arg = kw.value
        r = self.target_rec(arg) if arg is not None else None
        if r is None:
            raise Unsupported(f"{self.key}: cannot see which element {F.key} fills")
        return r

    # ---------------------------------------------------------------- emission of one child expression
    def emission(self, e, block, extend=False):
        """-> (events for other elements [(rec, ev)], event for the element appended to)"""
        if isinstance(e, ast.Name):
            r = self.vars.get(e.id)
            if r is None:
                raise Unsupported(f"{self.key}: `{e.id}` is not an element the translator knows")
            if r.kind == "list":     # a local list, or what a forwarding builder returned
                return [], ("inl", r)
            if extend:
                raise Unsupported(f"{self.key}: extend with one element")
            return [], ("emit", r)
        if self.is_element(e):
            r = Rec(tag=self.tagof(e.args[0]), home=[])
            return [], ("emit", r)
        if isinstance(e, ast.List):
            evs, seq = [], []
            for x in e.elts:
                a, b = self.emission(x, block)
                evs += a
                seq.append(b)
            return evs, ("seq", seq)
        if isinstance(e, ast.Call):
            F = self.builder(e)
            if F is None:
                raise Unsupported(f"{self.key}: `{self.src(e)}` is not a builder the translator can read")
            if F.kind == "node":
                if extend:
                    raise Unsupported(f"{self.key}: extend with the element of {F.key}")
                return [], ("emitk", F.tag, F.key)
            if F.kind == "list":
                return [], ("splice", F.key)
            t = self.fill_target(e, F)
            return [(t, ("splice", F.key))], ("emit", t)
        raise Unsupported(f"{self.key}: cannot read the child `{self.src(e)}`")

    # ---------------------------------------------------------------- pass 0: copy continuations into branches where needed
    def names_bound_to_elements(self, stmts):
        out = set()
        for s in stmts:
            for n in ast.walk(s):
                if isinstance(n, ast.Assign) and len(n.targets) == 1 and isinstance(n.targets[0], ast.Name) and (
                        isinstance(n.value, ast.List) or
                        (isinstance(n.value, ast.Call) and (self.is_element(n.value) or self.callee_key(n.value) is not None))):
                    out.add(n.targets[0].id)
        return out

    def prep(self, block):
        out = []
        for i, s in enumerate(block):
            if isinstance(s, ast.If):
                rest = block[i + 1:]
                dup = contains(ast.Module(body=s.body + s.orelse, type_ignores=[]), ast.Return) and bool(rest)
                if not dup and rest:
                    bound = self.names_bound_to_elements(s.body) | self.names_bound_to_elements(s.orelse)
                    used = {n.id for r in rest for n in ast.walk(r) if isinstance(n, ast.Name) and isinstance(n.ctx, ast.Load)}
                    dup = bool(bound & used)
                if dup:
                    def ends(b):
                        return bool(b) and isinstance(b[-1], (ast.Return, ast.Raise))
                    s.body = self.prep(s.body + ([] if ends(s.body) else copy.deepcopy(rest)))
                    s.orelse = self.prep(s.orelse + ([] if ends(s.orelse) else copy.deepcopy(rest)))
                    out.append(s)
                    return out
                s.body, s.orelse = self.prep(s.body), self.prep(s.orelse)
            elif isinstance(s, (ast.For, ast.With, ast.While)):
                s.body = self.prep(s.body)
            elif isinstance(s, ast.Try):
                s.body = self.prep(s.body)
                for h in s.handlers:
                    h.body = self.prep(h.body)
            out.append(s)
        return out

    # ---------------------------------------------------------------- pass 1: bind names, record events per statement
    def add(self, s, rec, ev):
        self.ev.setdefault(id(s), []).append((rec, ev))

    def is_set_call(self, s):
        if (isinstance(s, ast.Expr) and isinstance(s.value, ast.Call) and isinstance(s.value.func, ast.Attribute)
                and s.value.func.attr == "set" and len(s.value.args) == 2 and isinstance(s.value.args[0], ast.Constant)):
            r = self.target_rec(s.value.func.value)
            if r is not None:
                return r, s.value.args[0].value, s.value.args[1]
        return None

    def scan(self, block, guarded=False):
        for s in block:
            if isinstance(s, ast.Assign) and len(s.targets) == 1:
                t, v = s.targets[0], s.value
                if isinstance(t, ast.Name):
                    if self.is_element(v):
                        self.vars[t.id] = Rec(tag=self.tagof(v.args[0]), home=block, name=t.id)
                    elif isinstance(v, ast.List):
                        r = Rec(kind="list", home=block, name=t.id)
                        evs, e = self.emission(v, block)
                        self.vars[t.id] = r
                        for a in evs:
                            self.add(s, *a)
                        self.add(s, r, e)
                    elif isinstance(v, ast.Call) and self.builder(v) is not None:
                        F = self.builder(v)
                        if F.kind == "node":
                            r = Rec(tag=F.tag, derived=F.key, home=block, name=t.id)
                            self.add(s, r, ("splice", F.key))
                            self.vars[t.id] = r
                        elif F.kind == "fill":
                            r = self.fill_target(v, F)
                            self.add(s, r, ("splice", F.key))
                            self.vars[t.id] = r
                        else:
                            r = Rec(kind="list", home=block, name=t.id)
                            self.add(s, r, ("splice", F.key))
                            self.vars[t.id] = r
                    else:
                        self.check_no_element_arg(v)
                        self.vars.pop(t.id, None)
                        self.bind_expr(t.id, v)
                elif isinstance(t, ast.Attribute) and t.attr == "text" and self.target_rec(t.value) is not None:
                    self.target_rec(t.value).text = self.fmt(v)
                else:
                    self.check_no_element_arg(v)
            elif isinstance(s, ast.Expr) and isinstance(s.value, ast.Call):
                c = s.value
                f = c.func
                if isinstance(f, ast.Attribute) and f.attr in ("append", "extend") and len(c.args) == 1:
                    r = self.target_rec(f.value)
                    if r is None:
                        raise Unsupported(f"{self.key}: `{self.src(f.value)}` is appended to but is not an element the translator knows")
                    evs, e = self.emission(c.args[0], block, extend=(f.attr == "extend"))
                    for a in evs:
                        self.add(s, *a)
                    if e[0] == "emit" and e[1].parent is None:
                        e[1].parent = r
                    self.add(s, r, e)
                elif self.is_set_call(s) is not None:
                    r, k, v = self.is_set_call(s)
                    r.attrs.append((k, self.fmt(v), block is not r.home))
                elif (isinstance(f, ast.Attribute) and f.attr == "add_points_to_node" and len(c.args) == 1
                      and isinstance(f.value, ast.Call) and ast.unparse(f.value.func) == "Pointlist.create_from_numpy_array"
                      and len(f.value.args) == 1):
                    r = self.target_rec(c.args[0])
                    if r is None:
                        raise Unsupported(f"{self.key}: add_points_to_node on an unknown element")
                    P = self.mod.info("Point.create_node")
                    self.mod.info("Pointlist.add_points_to_node")
                    self.add(s, r, ("each", self.src(f.value.args[0]), [("emitk", P.tag, P.key)]))
                else:
                    F = self.builder(c)
                    if F is not None and F.kind == "fill":
                        self.add(s, self.fill_target(c, F), ("splice", F.key))
                    elif F is not None:
                        pass
                    else:
                        self.check_no_element_arg(c)
            elif isinstance(s, ast.If):
                a = self.is_set_call(s.body[0]) if len(s.body) == 1 else None
                b = self.is_set_call(s.orelse[0]) if len(s.orelse) == 1 else None
                if a is not None and b is not None and a[0] is b[0] and a[1] == b[1]:
                    a[0].attrs.append((a[1], ("cond", self.fmt(a[2]), self.fmt(b[2])), block is not a[0].home))
                    self.skip_if.add(id(s))
                    continue
                self.conds[id(s)] = self.cond(s.test)
                before = dict(self.vars)
                self.scan(s.body, True)
                after_body, self.vars = self.vars, dict(before)
                self.scan(s.orelse, True)
                after_else = self.vars
                self.vars = dict(before)
                self.vars.update({k: v for k, v in after_body.items() if before.get(k) is not v})
                self.vars.update({k: v for k, v in after_else.items() if before.get(k) is not v})
            elif isinstance(s, ast.For):
                self.depth += 1
                saved = dict(self.canon)
                for n in ast.walk(s.target):
                    if isinstance(n, ast.Name):
                        self.canon[n.id] = f"it{self.depth}"
                        self.vars.pop(n.id, None)
                it = s.iter
                if isinstance(it, ast.Call) and isinstance(it.func, ast.Name) and it.func.id == "enumerate" and it.args:
                    it = it.args[0]
                if (isinstance(it, ast.BoolOp) and isinstance(it.op, ast.Or) and len(it.values) == 2
                        and isinstance(it.values[1], (ast.List, ast.Tuple)) and not it.values[1].elts):
                    it = it.values[0]       # `for x in xs or []`
                self.canon, saved2 = saved, self.canon
                self.colls[id(s)] = self.src(it)
                self.canon = saved2
                self.scan(s.body, True)
                self.canon = saved
                self.depth -= 1
            elif isinstance(s, ast.With):
                self.scan(s.body, guarded)
            elif isinstance(s, ast.Try):
                self.scan(s.body, True)
                for h in s.handlers:
                    self.conds[id(h)] = self.atom("except " + (self.src(h.type) if h.type is not None else ""))
                    self.scan(h.body, True)
            elif isinstance(s, ast.Return):
                if s.value is None:
                    pass
                elif isinstance(s.value, ast.Name) and self.target_rec(s.value) is not None:
                    self.add(s, self.ret, ("emit", self.target_rec(s.value)))
                else:
                    evs, e = self.emission(s.value, block, extend=isinstance(s.value, ast.List))
                    for a in evs:
                        self.add(s, *a)
                    self.add(s, self.ret, e)
            elif isinstance(s, ast.Raise):
                self.add(s, "ANY", ("raise",))
            elif isinstance(s, ast.While):
                raise Unsupported(f"{self.key}: while loop")
            else:
                for n in ast.walk(s):
                    if isinstance(n, ast.Call):
                        self.check_no_element_arg(n)

    def check_no_element_arg(self, e):
        """an expression the translator skips must not get hold of an element"""
        for n in ast.walk(e):
            if isinstance(n, ast.Call) and ast.unparse(n.func) in ("etree.ElementTree", "etree.tostring"):
                continue      # serialisation of the finished tree
            if isinstance(n, ast.Call):
                for a in list(n.args) + [k.value for k in n.keywords]:
                    if (isinstance(a, ast.Name) and a.id in self.vars) or (isinstance(a, ast.Attribute) and ast.unparse(a) == ROOT_ATTR):
                        raise Unsupported(f"{self.key}: `{self.src(n)}` receives an element; the translator cannot read what it does with it")
                if isinstance(n.func, ast.Attribute) and isinstance(n.func.value, ast.Name) and n.func.value.id in self.vars \
                        and n.func.attr not in ("get",):
                    raise Unsupported(f"{self.key}: `{self.src(n)}` on an element")
            if isinstance(n, (ast.ListComp, ast.GeneratorExp)) and any(self.is_element(x) or (isinstance(x, ast.Call) and self.callee_key(x))
                                                                       for x in ast.walk(n.elt)):
                raise Unsupported(f"{self.key}: comprehension building elements")

    # ---------------------------------------------------------------- pass 2: projection on one element
    def proj(self, block, rec, root=False):
        out = []
        for s in block:
            for r, e in self.ev.get(id(s), []):
                if r is rec or (r == "ANY" and root):
                    out.append(e)
            if isinstance(s, ast.If) and id(s) not in self.skip_if:
                t, e = self.proj(s.body, rec, root), self.proj(s.orelse, rec, root)
                if self.conds[id(s)][0] == "const":          # `if True:` / `if False:`
                    out += t if self.conds[id(s)][1] else e
                elif t or e:
                    out.append(("ite", self.conds[id(s)], t, e))
            elif isinstance(s, ast.For):
                b = self.proj(s.body, rec, root)
                if [x for x in b if x != ("raise",)]:
                    out.append(("each", self.colls[id(s)], b))
            elif isinstance(s, ast.With):
                out += self.proj(s.body, rec, root)
            elif isinstance(s, ast.Try):
                out += self.proj(s.body, rec, root)
                for h in s.handlers:
                    b = self.proj(h.body, rec, root)
                    if b:
                        out.append(("ite", self.conds[id(h)], b, []))
        return out

    def analyse(self) -> Info:
        self.fd.body = self.prep(self.fd.body)
        self.ret.home = self.fd.body
        self.scan(self.fd.body)
        retb = self.proj(self.fd.body, self.ret)
        params = [r for r in self.prec.values()]
        target_param = None
        if len(retb) == 1 and retb[0][0] == "emit" and retb[0][1].kind in ("inline",):
            root, kind = retb[0][1], "node"
        elif len(retb) == 1 and retb[0][0] == "emit" and retb[0][1].kind == "list":
            root, kind = retb[0][1], "list"
        elif (not retb or (len(retb) == 1 and retb[0][0] == "emit" and retb[0][1].kind == "param")) and len(params) == 1:
            root, kind, target_param = params[0], "fill", params[0].name
        elif retb and not params:
            root, kind = self.ret, "list"
        else:
            raise Unsupported(f"{self.key}: cannot see what the function builds")
        root.key = self.key
        self.builders, self.keys = [], {self.key}
        self.render_rec(root, kind, root=True)
        tag = root.tag if kind == "node" else ""
        return Info(self.key, kind, tag, target_param, self.builders)

    def plain_derived(self, r: Rec):
        return r.derived is not None and not r.attrs and r.text is None and self.proj(r.home, r) == [("splice", r.derived)]

    def render_rec(self, rec: Rec, kind, root=False):
        body = self.render(self.proj(rec.home, rec, root), rec)
        self.builders.insert(0, dict(
            key=rec.key, kind=kind, tag=rec.tag if kind == "node" else "",
            xsd=XSD.get(self.key, ""), path=([] if root else self.path_of(rec)),
            parent=(rec.parent.key if (rec.parent is not None and not root) else ""),
            attrs=[(k, f) for k, f, g in rec.attrs if not g], gattrs=[(k, f) for k, f, g in rec.attrs if g],
            text=rec.text, body=body, atoms=list(self.atoms) if root else []))

    def path_of(self, rec: Rec):
        p = []
        while rec is not None and rec.key != self.key:
            p.insert(0, rec.tag)
            rec = rec.parent
        return p

    def render(self, evs, owner: Rec):
        out = []
        for e in evs:
            if e[0] == "emit":
                r = e[1]
                if r.kind == "param":
                    raise Unsupported(f"{self.key}: a parameter element is appended")
                if r.kind == "list":
                    out += self.render(self.proj(r.home, r), owner)
                    continue
                if self.plain_derived(r):
                    F = self.mod.info(r.derived)
                    out.append(("emit", F.tag, F.key))
                    continue
                if r.key is None:
                    k = f"{owner.key}/{r.tag}"
                    n = 2
                    while k in self.keys:
                        k = f"{owner.key}/{r.tag}#{n}"
                        n += 1
                    r.key = k
                    self.keys.add(k)
                    r.parent = owner
                    self.render_rec(r, "node")
                out.append(("emit", r.tag, r.key))
            elif e[0] == "emitk":
                out.append(("emit", e[1], e[2]))
            elif e[0] == "inl":
                out += self.render(self.proj(e[1].home, e[1]), owner)
            elif e[0] == "seq":
                out += self.render(e[1], owner)
            elif e[0] == "ite":
                out.append(("ite", e[1], self.render(e[2], owner), self.render(e[3], owner)))
            elif e[0] == "each":
                out.append(("each", e[1], self.render(e[2], owner)))
            else:
                out.append(e)
        return out


def is_camel_sub(e):
    """re.sub(r"_(\\w)", lambda m: m.group(1).upper(), X)"""
    if not (isinstance(e, ast.Call) and ast.unparse(e.func) == "re.sub" and len(e.args) == 3 and not e.keywords):
        return False
    p, f = e.args[0], e.args[1]
    if not (isinstance(p, ast.Constant) and p.value == r"_(\w)" and isinstance(f, ast.Lambda) and len(f.args.args) == 1):
        return False
    m = f.args.args[0].arg
    return ast.unparse(f.body) == f"{m}.group(1).upper()"


# -------------------------------------------------------------------- Lean text
def l_fmt(f):
    if f is None:
        return "none"
    k = f[0]
    if k == "cond":
        return f"(.cond {l_fmt(f[1])} {l_fmt(f[2])})"
    return f"(.{k} {q(f[1])})"


def l_cond(c):
    k = c[0]
    if k == "atom":
        return f"(.atom {c[1]})"
    if k == "not":
        return f"(.not {l_cond(c[1])})"
    if k in ("and", "or"):
        return f"(.{k} {l_cond(c[1])} {l_cond(c[2])})"
    return f"(.{k} {q(c[1])})"


def l_stmts(ss, ind):
    """a block as right-nested `.seq`"""
    pad = " " * ind
    if not ss:
        return pad + ".skip"
    parts = [l_stmt(s, ind) for s in ss]
    if len(parts) == 1:
        return parts[0]
    out = parts[-1]
    for p in reversed(parts[:-1]):
        out = f"{pad}(.seq\n{indent(p, 2)}\n{indent(out, 2)})"
    return out


def indent(t, n):
    return "\n".join(" " * n + l for l in t.split("\n"))


def l_stmt(s, ind):
    pad = " " * ind
    k = s[0]
    if k == "emit":
        return f"{pad}(.emit {q(s[1])} {q(s[2])})"
    if k == "splice":
        return f"{pad}(.splice {q(s[1])})"
    if k == "raise":
        return f"{pad}.raise"
    if k == "ite":
        return f"{pad}(.ite {l_cond(s[1])}\n{l_stmts(s[2], ind + 2)}\n{l_stmts(s[3], ind + 2)})"
    if k == "each":
        return f"{pad}(.each {q(s[1])}\n{l_stmts(s[2], ind + 2)})"
    raise Unsupported(f"statement {k}")


def l_builder(b):
    name = lean_name(b["key"])
    attrs = ", ".join(f"({q(k)}, {l_fmt(f)[1:-1] if False else l_fmt(f)})" for k, f in b["attrs"])
    gattrs = ", ".join(f"({q(k)}, {l_fmt(f)})" for k, f in b["gattrs"])
    text = "none" if b["text"] is None else f"some {l_fmt(b['text'])}"
    lines = [f"def {name} : CR.SrcW.Builder where",
             f"  key := {q(b['key'])}", f"  kind := .{b['kind']}", f"  tag := {q(b['tag'])}", f"  xsd := {q(b['xsd'])}",
             f"  path := [{', '.join(q(t) for t in b['path'])}]", f"  parent := {q(b['parent'])}", f"  attrs := [{attrs}]", f"  gattrs := [{gattrs}]", f"  text := {text}",
             f"  atoms := [{', '.join(q(a) for a in b['atoms'])}]",
             "  body :=\n" + l_stmts(b["body"], 4)]
    return name, "\n".join(lines) + "\n"


def translate_function(mod: Module, key) -> str:
    info = mod.info(key)
    names, chunks = [], []
    for b in info.builders:
        n, t = l_builder(b)
        names.append(n)
        chunks.append(t)
    return f"-- {key} :: " + " ".join(names) + "\n" + "\n".join(chunks)


def translate_map(mod: Module) -> str:
    """StateXMLNode._map_to_xml_prop as a Lean function String -> String"""
    c, fd = mod.fdef(".".join(MAP_FUNC))
    p = fd.args.args[-1].arg
    body = [s for s in fd.body if not (isinstance(s, ast.Expr) and isinstance(s.value, ast.Constant))]

    def value(e):
        if isinstance(e, ast.Constant) and isinstance(e.value, str):
            return q(e.value)
        if is_camel_sub(e) and isinstance(e.args[2], ast.Name) and e.args[2].id == p:
            return f"CR.SrcW.camel {p}"
        if isinstance(e, ast.IfExp):
            return f"(if {test(e.test)} then {value(e.body)} else {value(e.orelse)})"
        raise Unsupported(f"_map_to_xml_prop: value `{ast.unparse(e)}`")

    def test(t):
        if isinstance(t, ast.Compare) and len(t.ops) == 1 and isinstance(t.ops[0], ast.Eq):
            l, r = t.left, t.comparators[0]
            if isinstance(l, ast.Constant) and isinstance(r, ast.Name) and r.id == p:
                return f"{p} = {q(l.value)}"
            if isinstance(r, ast.Constant) and isinstance(l, ast.Name) and l.id == p:
                return f"{p} = {q(r.value)}"
        if isinstance(t, ast.BoolOp) and isinstance(t.op, ast.Or):
            return "(" + " ∨ ".join(test(v) for v in t.values) + ")"
        raise Unsupported(f"_map_to_xml_prop: test `{ast.unparse(t)}`")

    def block(ss, var):
        """-> lean expression of the value `var` has / that is returned after ss"""
        if not ss:
            raise Unsupported("_map_to_xml_prop: empty branch")
        s = ss[0]
        if isinstance(s, ast.Return):
            if isinstance(s.value, ast.Name) and var is not None and s.value.id == var[0]:
                return var[1]
            return value(s.value)
        if isinstance(s, ast.Assign) and len(s.targets) == 1 and isinstance(s.targets[0], ast.Name):
            v = (s.targets[0].id, value(s.value))
            if len(ss) == 1:
                return ("ASSIGN", v)
            return block(ss[1:], v)
        if isinstance(s, ast.If):
            t = block(s.body, var)
            e = block(s.orelse if s.orelse else ss[1:], var)
            if isinstance(t, tuple) or isinstance(e, tuple):
                if not (isinstance(t, tuple) and isinstance(e, tuple) and t[1][0] == e[1][0]) or not s.orelse:
                    raise Unsupported("_map_to_xml_prop: branches assign different names")
                v = (t[1][0], f"(if {test(s.test)} then {t[1][1]}\n    else {e[1][1]})")
                if len(ss) == 1:
                    return ("ASSIGN", v)
                return block(ss[1:], v)
            return f"(if {test(s.test)} then {t}\n    else {e})"
        raise Unsupported(f"_map_to_xml_prop: statement `{ast.unparse(s)[:40]}`")

    r = block(body, None)
    if isinstance(r, tuple):
        raise Unsupported("_map_to_xml_prop: no return")
    return (f"-- StateXMLNode._map_to_xml_prop :: mapToXmlProp\n/-- StateXMLNode._map_to_xml_prop -/\n"
            f"def mapToXmlProp ({p} : String) : String :=\n  {r}\n")


HEADER = """/-
  Gen.SrcC03 — GENERATED on every run by harness/translate/src_c03.py from the current source of
  commonroad/common/writer/file_writer_xml.py. Do not edit.  Vocabulary: CRModel/PyExtC03.lean; ties: CRProps/T03.lean.
-/
import CRModel.PyExtC03
namespace Gen.SrcC03

"""


def lg_path(key):
    return os.path.join(LASTGOOD, "c03_" + re.sub(r"[^A-Za-z0-9]", "_", key) + ".lean")


def generate(repo):
    """-> (text, status)"""
    status, chunks, names = {}, [], []
    try:
        mod = Module(repo)
        mod_err = None
    except (OSError, SyntaxError) as e:
        mod, mod_err = None, e
    items = [(k, lambda m, k=k: translate_function(m, k)) for k, _ in TARGETS] + [("StateXMLNode._map_to_xml_prop", translate_map)]
    for key, f in items:
        sname = "c03:" + key
        lg = lg_path(key)
        try:
            if mod is None:
                raise Unsupported(f"{type(mod_err).__name__}: {mod_err}")
            txt = f(mod)
            status[sname] = "ok"
        except (Unsupported, SyntaxError, KeyError, IndexError, AttributeError, TypeError, ValueError, OSError, RecursionError) as e:
            if os.path.exists(lg):
                txt = open(lg, encoding="utf-8").read()
                status[sname] = f"lost ({type(e).__name__}: {e}); last good translation used"
            else:
                txt = f"-- {key} :: \n-- not translatable ({e})\n"
                status[sname] = f"lost ({type(e).__name__}: {e}); no fallback"
        first = txt.split("\n", 1)[0]
        if key != "StateXMLNode._map_to_xml_prop":
            names += first.split("::", 1)[1].split()
        chunks.append(txt)
    table = ("/-- every builder, in the order of harness/translate/src_c03.py:TARGETS -/\n"
             "def table : List CR.SrcW.Builder := [\n  " + ",\n  ".join(names) + "]\n")
    return HEADER + "\n".join(chunks) + "\n" + table + "\nend Gen.SrcC03\n", status


def regenerate(repo, gen_dir):
    os.makedirs(gen_dir, exist_ok=True)
    text, status = generate(repo)
    path = os.path.join(gen_dir, "SrcC03.lean")
    old = open(path, encoding="utf-8").read() if os.path.exists(path) else None
    if old != text:
        with open(path, "w", encoding="utf-8") as f:
            f.write(text)
    return status


def update_lastgood(repo):
    os.makedirs(LASTGOOD, exist_ok=True)
    mod = Module(repo)
    for key, _ in TARGETS:
        open(lg_path(key), "w", encoding="utf-8").write(translate_function(mod, key))
    open(lg_path("StateXMLNode._map_to_xml_prop"), "w", encoding="utf-8").write(translate_map(mod))


if __name__ == "__main__":
    repo = os.environ.get("VERIF_REPO", "/repo")
    args = [a for a in sys.argv[1:]]
    if args and args[0] == "--update-lastgood":
        update_lastgood(args[1] if len(args) > 1 else repo)
        print("updated last-good files")
    else:
        t, st = generate(args[0] if args else repo)
        for k, v in st.items():
            print(k, v, file=sys.stderr)
        print(t)
