"""py -> Lean translator for a restricted subset of commonroad-io (the 'T' tie of DESIGN.md §2).

`regenerate(repo, gen_dir)` parses the CURRENT source of the target functions with `ast` and writes Lean definitions to
`<gen_dir>/Src.lean` (module `Gen.Src`). The tie theorems in lean/CRProps/T*.lean import that module and prove each generated
definition equal to the hand-written model the property theorems are about, so `lake build` re-checks the tie against what the code
says NOW. A function the translator cannot handle any more is not a verdict: its last good translation (harness/translate/lastgood/)
is emitted instead and the status says `lost` (the correspondence tie still stands).

Subset: return / if / elif / else / assert / simple and augmented assignment to local names / tuple assignment / while (as a fuel loop);
arithmetic + - * / unary -, chained comparisons, and / or / not, conditional expressions, attribute reads through a per-target map,
`is None` tests on mapped optionals, a fixed table of calls (math.fmod, bool, min, max, len, np.cumsum/insert/argmax patterns,
constructor calls, calls of other translated methods), static evaluation of `type(x) is T` / `isinstance(x, T)` from declared types.
"""
from __future__ import annotations

import ast
import os
import textwrap

HERE = os.path.dirname(os.path.abspath(__file__))
LASTGOOD = os.path.join(HERE, "lastgood")


class Unsupported(Exception):
    pass


class Target:
    def __init__(self, name, file, func, cls=None, params=(), ret="Rat", attrs=None, names=None, types=None, calls=None,
                 monadic=False, fuel=False, doc="", body_of_if=False, index_attrs=None, setter=False, assign_attrs=None,
                 opt_attrs=None, type_tests=None, imports=(), accs=None, truthy=()):
        self.name, self.file, self.func, self.cls = name, file, func, cls
        self.params = list(params)          # [(python name or None, lean binder text)]
        self.ret = ret
        self.attrs = attrs or {}            # (var, attr) -> lean text
        self.names = names or {}            # global / free names -> lean text
        self.types = types or {}            # python var -> declared type tag for static isinstance evaluation
        self.calls = calls or {}            # method name -> (lean function, monadic?)
        self.monadic = monadic
        self.fuel = fuel
        self.doc = doc
        self.body_of_if = body_of_if        # translate only the body of the leading `if not hasattr(...)` (memoised property)
        self.index_attrs = index_attrs or {}  # (var, attr) -> how a subscript of that attribute is rendered
        self.setter = setter                # take the `@x.setter` definition of a property
        self.assign_attrs = assign_attrs or {}  # (var, attr) -> lean template of the new object value for `var.attr = {v}`
        self.opt_attrs = opt_attrs or {}
        self.ret_self = setter or func == "__init__"
        self.accs = accs or {}              # accumulator variable (list / dict built by loops) -> lean element type
        self.truthy = set(truthy)           # calls returning an Optional whose truth value is `is not None`
        self.type_tests = type_tests or {}  # (dotted expr, class name) -> lean Bool for `type(expr) is Class`    # (var, attr) -> lean text of the Option behind an attribute tested with `is None`


def _is_accessor(n, kind):
    return any(isinstance(d, ast.Attribute) and d.attr == kind for d in n.decorator_list)


def find_func(tree, cls, func, setter=False):
    """The definition Python will RUN for `cls.func` (module-level `func` when cls is None): the LAST `def` of that name in the
    body (a later `def` rebinds the name), getter / setter of a property told apart by their decorators.  A rebinding the
    translator cannot follow -- `Cls.func = ...` / `setattr(Cls, "func", ...)` at module level, the name assigned in the class
    body -- is Unsupported (status `lost`; the correspondence decides), never silently ignored."""
    body = tree.body
    if cls:
        classes = [n for n in body if isinstance(n, ast.ClassDef) and n.name == cls]
        if not classes:
            raise Unsupported(f"class {cls} not found")
        if len(classes) > 1:
            raise Unsupported(f"class {cls} defined {len(classes)} times")
        for n in ast.walk(tree):
            if isinstance(n, (ast.Assign, ast.AugAssign, ast.AnnAssign)):
                tgts = n.targets if isinstance(n, ast.Assign) else [n.target]
                for t in tgts:
                    if isinstance(t, ast.Attribute) and t.attr == func and isinstance(t.value, ast.Name) and t.value.id == cls:
                        raise Unsupported(f"{cls}.{func} is re-bound by an assignment (line {n.lineno})")
            if isinstance(n, ast.Call) and isinstance(n.func, ast.Name) and n.func.id == "setattr" and len(n.args) >= 2 \
                    and isinstance(n.args[0], ast.Name) and n.args[0].id == cls \
                    and isinstance(n.args[1], ast.Constant) and n.args[1].value == func:
                raise Unsupported(f"{cls}.{func} is re-bound by setattr (line {n.lineno})")
        body = classes[0].body
    for n in body:
        if isinstance(n, (ast.Assign, ast.AnnAssign)):
            tgts = n.targets if isinstance(n, ast.Assign) else [n.target]
            if any(isinstance(t, ast.Name) and t.id == func for t in tgts) and getattr(n, "value", None) is not None:
                raise Unsupported(f"{func} is re-bound by an assignment (line {n.lineno})")
    cands = [n for n in body if isinstance(n, ast.FunctionDef) and n.name == func]
    if not cands:
        raise Unsupported(f"function {func} not found")
    if setter:
        setters = [n for n in cands if _is_accessor(n, "setter")]
        if not setters:
            raise Unsupported(f"setter of {func} not found")
        return setters[-1]
    plain = [n for n in cands if not _is_accessor(n, "setter") and not _is_accessor(n, "deleter")]
    if not plain:
        raise Unsupported(f"function {func} not found (only accessors)")
    return plain[-1]


class Tr:
    def __init__(self, t: Target):
        self.t = t
        self.aux = []           # auxiliary loop definitions
        self.nloop = 0
        self.uses_bind = False

    # ---------------------------------------------------------------- expressions
    def e(self, n) -> str:
        t = self.t
        if isinstance(n, ast.Constant):
            if n.value is None:
                return "none"
            if isinstance(n.value, bool):
                return "true" if n.value else "false"
            if isinstance(n.value, int):
                return f"{n.value}" if n.value >= 0 else f"({n.value})"
            if isinstance(n.value, float):
                if n.value == int(n.value):
                    return f"{int(n.value)}"
                raise Unsupported(f"float literal {n.value}")
            raise Unsupported(f"constant {n.value!r}")
        if isinstance(n, ast.Name):
            if n.id in t.names:
                return t.names[n.id]
            return self.local(n.id)
        if isinstance(n, ast.Attribute) and isinstance(n.value, ast.Subscript) and ("[]", n.attr) in t.attrs:
            return t.attrs[("[]", n.attr)].format(x=self.e(n.value))
        if isinstance(n, ast.Attribute):
            key = (self.base_name(n.value), n.attr)
            if key in t.attrs:
                return t.attrs[key]
            dotted = self.dotted(n)
            if dotted in t.names:
                return t.names[dotted]
            raise Unsupported(f"attribute {dotted}")
        if isinstance(n, ast.UnaryOp):
            if isinstance(n.op, ast.USub):
                return f"(-{self.e(n.operand)})"
            if isinstance(n.op, ast.Not):
                return f"(!{self.e(n.operand)})"
            raise Unsupported("unary op")
        if isinstance(n, ast.BinOp):
            if isinstance(n.op, ast.Add) and isinstance(n.left, ast.Call) and self.dotted(n.left.func) == "np.cumsum":
                return f"(CR.Py.cumsumPlus {self.e(n.left.args[0])} {self.e(n.right)})"
            a, b = self.e(n.left), self.e(n.right)
            if isinstance(n.op, ast.Add):
                return f"({a} + {b})"
            if isinstance(n.op, ast.Sub):
                return f"({a} - {b})"
            if isinstance(n.op, ast.Mult):
                return f"({a} * {b})"
            if isinstance(n.op, ast.Div):
                self.uses_bind = True
                return f"(← CR.Py.div {a} {b})"
            if isinstance(n.op, ast.Mod):
                self.uses_bind = True
                return f"(← CR.Py.imod {a} {b})"
            raise Unsupported(f"binary op {type(n.op).__name__}")
        if isinstance(n, ast.BoolOp):
            op = " && " if isinstance(n.op, ast.And) else " || "

            def tv(v):
                if isinstance(v, ast.Call) and self.dotted(v.func) in t.truthy:
                    return f"({self.e(v)}).isSome"
                return self.e(v)
            return "(" + op.join(tv(v) for v in n.values) + ")"
        if isinstance(n, ast.Compare):
            # static type tests
            st = self.static_test(n)
            if isinstance(st, tuple):
                return st[1]
            if st is not None:
                return "true" if st else "false"
            parts, left = [], n.left
            for op, right in zip(n.ops, n.comparators):
                parts.append(self.cmp(op, left, right))
                left = right
            return parts[0] if len(parts) == 1 else "(" + " && ".join(parts) + ")"
        if isinstance(n, ast.IfExp):
            return f"(if {self.e(n.test)} then {self.e(n.body)} else {self.e(n.orelse)})"
        if isinstance(n, ast.Call):
            return self.call(n)
        if isinstance(n, ast.Subscript):
            key = (self.base_name(n.value.value), n.value.attr) if isinstance(n.value, ast.Attribute) else None
            if key in t.index_attrs:
                return t.index_attrs[key].format(i=self.e(n.slice))
            self.uses_bind = True
            return f"(← CR.Py.getItem {self.e(n.value)} {self.e(n.slice)})"
        if isinstance(n, ast.Tuple):
            return "(" + ", ".join(self.e(x) for x in n.elts) + ")"
        if isinstance(n, ast.ListComp):
            if len(n.generators) == 1 and not n.generators[0].ifs and isinstance(n.generators[0].target, ast.Name):
                g = n.generators[0]
                var = g.target.id
                key = (self.base_name(n.elt.value), n.elt.attr) if isinstance(n.elt, ast.Attribute) else None
                if key and key[0] == var and ("*", key[1]) in t.attrs:
                    return f"(({self.e(g.iter)}).map (fun {var} => {t.attrs[('*', key[1])].format(v=var)}))"
            raise Unsupported("list comprehension")
        raise Unsupported(f"expression {type(n).__name__}")

    def local(self, name):
        return {"end": "end_", "from": "from_", "type": "type_"}.get(name, name)

    def base_name(self, n):
        return n.id if isinstance(n, ast.Name) else None

    def dotted(self, n):
        if isinstance(n, ast.Name):
            return n.id
        if isinstance(n, ast.Attribute):
            return self.dotted(n.value) + "." + n.attr
        return "?"

    def cmp(self, op, left, right):
        # `x is None` / `x is not None` on mapped optionals
        if isinstance(op, (ast.Is, ast.IsNot)) and isinstance(right, ast.Constant) and right.value is None:
            key = (self.base_name(left.value), left.attr) if isinstance(left, ast.Attribute) else None
            x = self.t.opt_attrs[key] if key in self.t.opt_attrs else self.e(left)
            return f"({x}).isNone" if isinstance(op, ast.Is) else f"({x}).isSome"
        a, b = self.e(left), self.e(right)
        sym = {ast.Lt: "<", ast.LtE: "≤", ast.Gt: ">", ast.GtE: "≥", ast.Eq: "=", ast.NotEq: "≠"}.get(type(op))
        if sym is None:
            raise Unsupported(f"comparison {type(op).__name__}")
        return f"decide ({a} {sym} {b})"

    def static_test(self, n):
        """`type(x) is T` evaluated from the declared argument types."""
        if len(n.ops) == 1 and isinstance(n.ops[0], (ast.Is, ast.IsNot)) and isinstance(n.left, ast.Call) \
                and isinstance(n.left.func, ast.Name) and n.left.func.id == "type" and len(n.left.args) == 1:
            v = self.dotted(n.left.args[0])
            tt = (v, self.dotted(n.comparators[0]))
            if tt in self.t.type_tests:
                r = self.t.type_tests[tt]
                return ("dyn", r if isinstance(n.ops[0], ast.Is) else f"(!{r})")
            if v in self.t.types:
                same = self.t.types[v] == self.dotted(n.comparators[0])
                return same if isinstance(n.ops[0], ast.Is) else not same
        return None

    def call(self, n):
        t = self.t
        f = n.func
        dotted = self.dotted(f)
        if dotted == "isinstance" and len(n.args) == 2:
            v = self.dotted(n.args[0])
            if v in t.types:
                names = self.dotted(n.args[1])
                if isinstance(n.args[1], ast.Tuple):
                    names = " ".join("NoneType" if (isinstance(x, ast.Call) and self.dotted(x.func) == "type" and len(x.args) == 1
                                                    and isinstance(x.args[0], ast.Constant) and x.args[0].value is None)
                                     else self.dotted(x) for x in n.args[1].elts)
                table = {"num": ["float", "int", "validity.ValidTypes.NUMBERS", "ValidTypes.NUMBERS"],
                         "Interval": ["Interval"], "AngleInterval": ["AngleInterval", "Interval"],
                         "ObstacleRole?": ["ObstacleRole", "NoneType"], "ObstacleType?": ["ObstacleType", "NoneType"]}
                want = table.get(t.types[v], [t.types[v]])
                if t.types[v].endswith("?"):
                    hit = all(x in names.split() for x in want)     # an Optional argument: both alternatives must be admitted
                else:
                    hit = any(x in names.split() or x == names for x in want)
                return "true" if hit else "false"
            raise Unsupported(f"isinstance on untyped {v}")
        if dotted == "np.argmax" and isinstance(n.args[0], ast.Compare) and isinstance(n.args[0].ops[0], ast.Lt):
            c = n.args[0]
            return f"(CR.Py.argmaxLt {self.e(c.left)} {self.e(c.comparators[0])})"
        if dotted in t.calls and t.calls[dotted][0].startswith("const:"):
            return t.calls[dotted][0][len("const:"):]
        args = [self.e(a) for a in n.args]
        if dotted == "math.fmod":
            return f"(CR.Py.fmod {args[0]} {args[1]})"
        if dotted == "bool":
            return args[0]
        if dotted in ("min", "max") and len(args) == 2:
            return f"({dotted} {args[0]} {args[1]})"
        if dotted == "len":
            return f"(({args[0]}).length : Int)"
        if dotted == "np.cumsum":
            return f"(CR.cumsum {args[0]})"
        if dotted == "np.insert" and len(args) == 3 and args[1] == "0":
            return f"(CR.Py.insert0 {args[0]} {args[2]})"
        # constructor calls: type(self)(a, b) / ClassName(a, b)
        if isinstance(f, ast.Call) and self.dotted(f.func) == "type" and len(f.args) == 1:
            key = "type(" + self.dotted(f.args[0]) + ")"
            if key in t.calls:
                return self.mcall(t.calls[key], args)
        if dotted in t.calls:
            return self.mcall(t.calls[dotted], args)
        raise Unsupported(f"call {dotted}")

    def mcall(self, spec, args):
        fn, monadic = spec[0], spec[1]
        if fn.startswith("const:"):
            return fn[len("const:"):]
        txt = f"{fn} " + " ".join(args)
        if monadic:
            self.uses_bind = True
            return f"(← {txt})"
        return f"({txt})"

    # ---------------------------------------------------------------- statements
    def block(self, stmts, ind) -> str:
        """Translate a statement list that must end by returning on every path."""
        pad = "  " * ind
        if not stmts:
            if self.t.ret_self:
                return f"{pad}return self"
            raise Unsupported("path without return")
        s, rest = stmts[0], stmts[1:]
        if isinstance(s, ast.Expr) and isinstance(s.value, ast.Constant) and isinstance(s.value.value, str):
            return self.block(rest, ind)            # docstring
        if isinstance(s, ast.Expr) and isinstance(s.value, ast.Call) and self.dotted(s.value.func) == "warnings.warn":
            return self.block(rest, ind)            # a warning is not part of the modelled result
        if isinstance(s, ast.Expr) and isinstance(s.value, ast.Call) and self.dotted(s.value.func) in self.t.calls \
                and len(self.t.calls[self.dotted(s.value.func)]) > 2 and self.t.calls[self.dotted(s.value.func)][2] == "self":
            # e.g. `Interval.__init__(self, start, end)`: the callee (re)initialises `self`
            fn = self.t.calls[self.dotted(s.value.func)][0]
            args = " ".join(self.e(a) for a in s.value.args[1:])
            self.uses_bind = True
            return f"{pad}let self ← {fn} {args}\n" + self.block(rest, ind)
        if isinstance(s, ast.Return):
            if s.value is None:
                raise Unsupported("bare return")
            v = self.e(s.value)
            opt_call = isinstance(s.value, ast.Call) and len(self.t.calls.get(self.dotted(s.value.func), ())) > 2
            if self.t.ret.startswith("Option") and not (isinstance(s.value, ast.Constant) and s.value.value is None) \
                    and not isinstance(s.value, ast.Name) and not opt_call and not v.lstrip("(").startswith("some "):
                v = f"some {v}"
            return f"{pad}return {v}"
        if isinstance(s, ast.Assert):
            return f"{pad}CR.Py.assert ({self.e(s.test)})\n" + self.block(rest, ind)
        if isinstance(s, ast.Assign) and len(s.targets) == 1 and isinstance(s.targets[0], ast.Name) \
                and s.targets[0].id in self.t.accs and self.empty_container(s.value):
            a = s.targets[0].id
            return f"{pad}let {a} : List ({self.t.accs[a]}) := []\n" + self.block(rest, ind)
        if isinstance(s, ast.For) and isinstance(s.target, ast.Name) and not s.orelse:
            # `for x in xs: <updates of one accumulator>`  ==>  a left fold over xs
            acc = self.loop_acc(s.body)
            before = self.uses_bind
            self.uses_bind = False
            body = self.loop_body(list(s.body), acc)
            it = self.e(s.iter)
            if self.uses_bind:
                raise Unsupported("partial operation inside a loop")
            self.uses_bind = before
            return f"{pad}let {acc} := ({it}).foldl (fun {acc} {self.local(s.target.id)} => {body}) {acc}\n" + self.block(rest, ind)
        if isinstance(s, ast.Assign) and len(s.targets) == 1:
            tg = s.targets[0]
            if isinstance(tg, ast.Name):
                return f"{pad}let {self.local(tg.id)} := {self.e(s.value)}\n" + self.block(rest, ind)
            if isinstance(tg, ast.Attribute) and (self.base_name(tg.value), tg.attr) in self.t.assign_attrs:
                var = self.base_name(tg.value)
                tmpl, monadic, optionize = self.t.assign_attrs[(var, tg.attr)]
                is_none = isinstance(s.value, ast.Constant) and s.value.value is None
                v = self.e(s.value)
                if optionize:
                    v = "none" if is_none else f"(some {v})"
                if monadic:
                    self.uses_bind = True
                    return f"{pad}let {var} ← {tmpl.format(v=v)}\n" + self.block(rest, ind)
                return f"{pad}let {var} := {tmpl.format(v=v)}\n" + self.block(rest, ind)
            if isinstance(tg, ast.Tuple) and all(isinstance(x, ast.Name) for x in tg.elts):
                names = ", ".join(self.local(x.id) for x in tg.elts)
                return f"{pad}let ({names}) := {self.e(s.value)}\n" + self.block(rest, ind)
            raise Unsupported("assignment target")
        if isinstance(s, ast.AugAssign) and isinstance(s.target, ast.Name):
            op = {ast.Add: "+", ast.Sub: "-", ast.Mult: "*"}.get(type(s.op))
            if op is None:
                raise Unsupported("augmented op")
            x = self.local(s.target.id)
            return f"{pad}let {x} := {x} {op} {self.e(s.value)}\n" + self.block(rest, ind)
        if isinstance(s, ast.If):
            test = self.e(s.test)
            if test == "true":
                return self.block(list(s.body) + ([] if self.returns(s.body) else rest), ind)
            if test == "false":
                return self.block(list(s.orelse) + ([] if s.orelse and self.returns(s.orelse) else rest), ind)
            then = self.block(list(s.body) + ([] if self.returns(s.body) else rest), ind + 1)
            els = self.block(list(s.orelse) + ([] if s.orelse and self.returns(s.orelse) else rest), ind + 1)
            return f"{pad}if {test} then\n{then}\n{pad}else\n{els}"
        if isinstance(s, ast.While):
            if not self.t.fuel:
                raise Unsupported("while loop in a target without fuel")
            vars_ = sorted({self.local(x.target.id if isinstance(x, ast.AugAssign) else x.targets[0].id) for x in s.body})
            self.nloop += 1
            lname = f"{self.t.name}.loop{self.nloop}"
            body = []
            for x in s.body:
                if isinstance(x, ast.AugAssign) and isinstance(x.target, ast.Name):
                    op = {ast.Add: "+", ast.Sub: "-"}[type(x.op)]
                    body.append((self.local(x.target.id), f"{self.local(x.target.id)} {op} {self.e(x.value)}"))
                elif isinstance(x, ast.Assign) and isinstance(x.targets[0], ast.Name):
                    body.append((self.local(x.targets[0].id), self.e(x.value)))
                else:
                    raise Unsupported("loop body")
            tup = ", ".join(vars_)
            binders = " ".join(f"({p})" for _, p in self.t.params if "fuel" not in p)
            pnames = " ".join(p.split(":")[0].strip() for _, p in self.t.params if "fuel" not in p and p.split(":")[0].strip() not in vars_)
            extra = " ".join(f"({p})" for _, p in self.t.params if "fuel" not in p and p.split(":")[0].strip() not in vars_)
            lets = "".join(f"      let {v} := {ex}\n" for v, ex in body)
            ty = " × ".join("Rat" for _ in vars_)
            self.aux.append(
                f"def {lname} {extra} : Nat → {' → '.join('Rat' for _ in vars_)} → {ty}\n"
                f"  | 0, {tup} => ({tup})\n"
                f"  | n + 1, {tup} =>\n"
                f"    if {self.e(s.test)} then\n{lets}      {lname} {pnames} n {' '.join(vars_)}\n"
                f"    else ({tup})\n")
            _ = binders
            call = f"{lname} {pnames} fuel {' '.join(vars_)}"
            bind = f"{pad}let ({tup}) := {call}\n" if len(vars_) > 1 else f"{pad}let {tup} := {call}\n"
            return bind + self.block(rest, ind)
        raise Unsupported(f"statement {type(s).__name__}")

    def empty_container(self, v):
        if isinstance(v, (ast.List, ast.Dict)) and not (getattr(v, "elts", None) or getattr(v, "keys", None)):
            return True
        return isinstance(v, ast.Call) and self.dotted(v.func) in ("list", "dict") and not v.args

    def loop_acc(self, stmts):
        """The one accumulator a loop body updates (`acc.append(x)` / `acc[k] = v`)."""
        found = set()
        for n in ast.walk(ast.Module(body=list(stmts), type_ignores=[])):
            if isinstance(n, ast.Call) and isinstance(n.func, ast.Attribute) and n.func.attr == "append" and isinstance(n.func.value, ast.Name):
                found.add(n.func.value.id)
            if isinstance(n, ast.Assign) and isinstance(n.targets[0], ast.Subscript) and isinstance(n.targets[0].value, ast.Name):
                found.add(n.targets[0].value.id)
        if len(found) != 1 or next(iter(found)) not in self.t.accs:
            raise Unsupported(f"loop accumulators {sorted(found)}")
        return next(iter(found))

    def loop_body(self, stmts, acc):
        """Expression for the accumulator after running `stmts` once (an assoc list stands for a dict: `d[k] = v` appends)."""
        if not stmts:
            return acc
        s, rest = stmts[0], stmts[1:]
        if isinstance(s, ast.If):
            upd = f"(if {self.e(s.test)} then {self.loop_body(list(s.body), acc)} else {self.loop_body(list(s.orelse), acc)})"
        elif isinstance(s, ast.Expr) and isinstance(s.value, ast.Call) and isinstance(s.value.func, ast.Attribute) \
                and s.value.func.attr == "append" and self.base_name(s.value.func.value) == acc and len(s.value.args) == 1:
            upd = f"({acc} ++ [{self.e(s.value.args[0])}])"
        elif isinstance(s, ast.Assign) and len(s.targets) == 1 and isinstance(s.targets[0], ast.Subscript) \
                and self.base_name(s.targets[0].value) == acc:
            upd = f"({acc} ++ [({self.e(s.targets[0].slice)}, {self.e(s.value)})])"
        else:
            raise Unsupported(f"loop statement {type(s).__name__}")
        if not rest:
            return upd
        return f"(let {acc} := {upd}; {self.loop_body(rest, acc)})"

    def returns(self, stmts):
        if not stmts:
            return False
        s = stmts[-1]
        if isinstance(s, ast.Return):
            return True
        if isinstance(s, ast.If):
            return self.returns(s.body) and bool(s.orelse) and self.returns(s.orelse)
        return False

    # ---------------------------------------------------------------- whole function
    def function(self, fn: ast.FunctionDef) -> str:
        t = self.t
        stmts = list(fn.body)
        if t.body_of_if:
            # memoised property:  if not hasattr(self, "_x"): <compute self._x> ; return self._x
            first = [s for s in stmts if not (isinstance(s, ast.Expr) and isinstance(s.value, ast.Constant))][0]
            if not isinstance(first, ast.If):
                raise Unsupported("memoised property shape")
            new = []
            last = None
            for s in first.body:
                if isinstance(s, ast.Assign) and isinstance(s.targets[0], ast.Attribute):
                    last = s.targets[0].attr
                    new.append(ast.Assign(targets=[ast.Name(id=last)], value=s.value))
                else:
                    new.append(s)
            new.append(ast.Return(value=ast.Name(id=last)))
            t.attrs[("self", last)] = last
            stmts = new
        body = self.block(stmts, 1)
        if t.func == "__init__":
            body = f"  let self : {t.ret} := (none, none)\n" + body
        binders = " ".join(f"({p})" for _, p in t.params)
        ret = f"Res ({t.ret})" if t.monadic else t.ret
        if t.monadic:
            head = f"def {t.name} {binders} : {ret} := do\n{body}\n"
        else:
            if self.uses_bind:
                raise Unsupported("partial operation in a target declared pure")
            head = f"def {t.name} {binders} : {ret} := Id.run do\n{body}\n"
        doc = f"/-- {t.file}: {(t.cls + '.') if t.cls else ''}{t.func}{(' — ' + t.doc) if t.doc else ''} -/\n"
        return "".join(a + "\n" for a in self.aux) + doc + head


def targets():
    I = {("self", "_start"): "self.lo", ("self", "start"): "self.lo", ("self", "_end"): "self.hi", ("self", "end"): "self.hi"}

    def iv(var):
        return {(var, "_start"): f"{var}.lo", (var, "start"): f"{var}.lo", (var, "_end"): f"{var}.hi", (var, "end"): f"{var}.hi"}
    U = "commonroad/common/util.py"
    mk = {"type(self)": ("CR.Iv.mk", True), "Interval": ("CR.Iv.mk", True)}
    ts = [
        Target("Interval_contains_num", U, "contains", "Interval", [("self", "self : CR.Iv.I"), ("other", "other : Rat")], "Bool",
               attrs=dict(I), types={"other": "num"}, doc="argument is a number"),
        Target("Interval_contains_interval", U, "contains", "Interval", [("self", "self : CR.Iv.I"), ("other", "other : CR.Iv.I")],
               "Bool", attrs={**I, **iv("other")}, types={"other": "Interval"}, doc="argument is an Interval"),
        Target("Interval_overlaps", U, "overlaps", "Interval", [("self", "self : CR.Iv.I"), ("interval", "interval : CR.Iv.I")],
               "Bool", attrs={**I, **iv("interval")}),
        Target("Interval_intersection", U, "intersection", "Interval", [("self", "self : CR.Iv.I"), ("other", "other : CR.Iv.I")],
               "Option CR.Iv.I", attrs={**I, **iv("other")}, monadic=True,
               calls={**mk, "self.overlaps": ("Interval_overlaps self", False)}),
        Target("Interval_add", U, "__add__", "Interval", [("self", "self : CR.Iv.I"), ("other", "other : Rat")], "CR.Iv.I",
               attrs=dict(I), monadic=True, calls=mk),
        Target("Interval_sub", U, "__sub__", "Interval", [("self", "self : CR.Iv.I"), ("other", "other : Rat")], "CR.Iv.I",
               attrs=dict(I), monadic=True, calls=mk),
        Target("Interval_mul", U, "__mul__", "Interval", [("self", "self : CR.Iv.I"), ("other", "other : Rat")], "CR.Iv.I",
               attrs=dict(I), monadic=True, calls=mk),
        Target("Interval_truediv", U, "__truediv__", "Interval", [("self", "self : CR.Iv.I"), ("other", "other : Rat")], "CR.Iv.I",
               attrs=dict(I), monadic=True, calls=mk),
        Target("Interval_set_start", U, "start", "Interval", [("self", "self : Option Rat × Option Rat"), ("start", "start : Rat")],
               "Option Rat × Option Rat", attrs={("self", "_end"): "(self.2.getD 0)"}, opt_attrs={("self", "_end"): "self.2"},
               assign_attrs={("self", "_start"): ("({v}, self.2)", False, True)}, monadic=True, setter=True,
               doc="property setter on a partially initialised object (start?, end?)"),
        Target("Interval_set_end", U, "end", "Interval", [("self", "self : Option Rat × Option Rat"), ("end", "end_ : Rat")],
               "Option Rat × Option Rat", attrs={("self", "_start"): "(self.1.getD 0)"}, opt_attrs={("self", "_start"): "self.1"},
               assign_attrs={("self", "_end"): ("(self.1, {v})", False, True)}, monadic=True, setter=True,
               doc="property setter on a partially initialised object (start?, end?)"),
        Target("Interval_init", U, "__init__", "Interval", [("start", "start : Rat"), ("end", "end_ : Rat")],
               "Option Rat × Option Rat",
               assign_attrs={("self", "_start"): ("({v}, self.2)", False, True), ("self", "_end"): ("(self.1, {v})", False, True),
                             ("self", "start"): ("Interval_set_start self {v}", True, False),
                             ("self", "end"): ("Interval_set_end self {v}", True, False)}, monadic=True,
               doc="constructor: both fields None, then the two property setters"),
        Target("AngleInterval_set_start", U, "start", "AngleInterval",
               [(None, "τ : Rat"), ("self", "self : Option Rat × Option Rat"), ("start", "start : Rat")],
               "Option Rat × Option Rat", attrs={("self", "_end"): "(self.2.getD 0)"}, opt_attrs={("self", "_end"): "self.2"},
               assign_attrs={("self", "_start"): ("({v}, self.2)", False, True)}, monadic=True, setter=True,
               calls={"is_valid_orientation": ("CR.Iv.validOrientation τ", False)}),
        Target("AngleInterval_set_end", U, "end", "AngleInterval",
               [(None, "τ : Rat"), ("self", "self : Option Rat × Option Rat"), ("end", "end_ : Rat")],
               "Option Rat × Option Rat", attrs={("self", "_start"): "(self.1.getD 0)"}, opt_attrs={("self", "_start"): "self.1"},
               assign_attrs={("self", "_end"): ("(self.1, {v})", False, True)}, monadic=True, setter=True,
               calls={"is_valid_orientation": ("CR.Iv.validOrientation τ", False)}),
        Target("AngleInterval_base_init", U, "__init__", "Interval", [(None, "τ : Rat"), ("start", "start : Rat"), ("end", "end_ : Rat")],
               "Option Rat × Option Rat",
               assign_attrs={("self", "_start"): ("({v}, self.2)", False, True), ("self", "_end"): ("(self.1, {v})", False, True),
                             ("self", "start"): ("AngleInterval_set_start τ self {v}", True, False),
                             ("self", "end"): ("AngleInterval_set_end τ self {v}", True, False)}, monadic=True,
               doc="Interval.__init__ run on an AngleInterval object: the property setters are AngleInterval's"),
        Target("AngleInterval_init", U, "__init__", "AngleInterval",
               [(None, "τ : Rat"), (None, "fuel : Nat"), ("start", "start : Rat"), ("end", "end_ : Rat")], "Option Rat × Option Rat",
               names={"TWO_PI": "τ"}, monadic=True,
               calls={"make_valid_orientation_interval": ("make_valid_orientation_interval τ fuel", False),
                      "Interval.__init__": ("AngleInterval_base_init τ", True, "self")}),
        Target("Interval_length", U, "length", "Interval", [("self", "self : CR.Iv.I")], "Rat", attrs=dict(I)),
        Target("Interval_gt_num", U, "__gt__", "Interval", [("self", "self : CR.Iv.I"), ("other", "other : Rat")], "Bool",
               attrs=dict(I), types={"other": "num"}),
        Target("Interval_gt_interval", U, "__gt__", "Interval", [("self", "self : CR.Iv.I"), ("other", "other : CR.Iv.I")], "Bool",
               attrs={**I, **iv("other")}, types={"other": "Interval"}),
        Target("Interval_lt_num", U, "__lt__", "Interval", [("self", "self : CR.Iv.I"), ("other", "other : Rat")], "Bool",
               attrs=dict(I), types={"other": "num"}),
        Target("Interval_lt_interval", U, "__lt__", "Interval", [("self", "self : CR.Iv.I"), ("other", "other : CR.Iv.I")], "Bool",
               attrs={**I, **iv("other")}, types={"other": "Interval"}),
        Target("AngleInterval_contains_value", U, "__contains__", "AngleInterval",
               [(None, "τ ε : Rat"), ("self", "self : CR.Iv.I"), ("value", "value : Rat")], "Bool",
               attrs={**I, ("self", "_TOLERANCE"): "ε"}, names={"TWO_PI": "τ"}),
        Target("AngleInterval_contains_interval", U, "contains", "AngleInterval",
               [(None, "τ ε : Rat"), ("self", "self : CR.Iv.I"), ("other", "other : CR.Iv.I")], "Bool",
               attrs={**I, **iv("other"), ("self", "_TOLERANCE"): "ε"}, names={"TWO_PI": "τ"}, types={"other": "AngleInterval"}),
        Target("AngleInterval_contains_num", U, "contains", "AngleInterval",
               [(None, "τ ε : Rat"), ("self", "self : CR.Iv.I"), ("other", "other : Rat")], "Bool",
               attrs={**I, ("self", "_TOLERANCE"): "ε"}, names={"TWO_PI": "τ"}, types={"other": "num"},
               calls={"self.__contains__": ("AngleInterval_contains_value τ ε self", False)}),
        Target("make_valid_orientation", U, "make_valid_orientation", None, [(None, "τ : Rat"), (None, "fuel : Nat"), ("angle", "angle : Rat")],
               "Rat", names={"TWO_PI": "τ"}, fuel=True),
        Target("make_valid_orientation_interval", U, "make_valid_orientation_interval", None,
               [(None, "τ : Rat"), (None, "fuel : Nat"), ("angle_start", "angle_start : Rat"), ("angle_end", "angle_end : Rat")],
               "Rat × Rat", names={"TWO_PI": "τ"}, fuel=True),
        Target("Trajectory_state_at_time_step", "commonroad/scenario/trajectory.py", "state_at_time_step", "Trajectory",
               [(None, "t0 : Int"), (None, "n : Nat"), ("time_step", "time_step : Int")], "Option Nat",
               attrs={("self", "_initial_time_step"): "t0", ("self", "_state_list"): "(List.range n)"},
               index_attrs={("self", "_state_list"): "some ({i}).toNat"},
               doc="the state is identified by its index in the state list"),
        Target("DynamicObstacle_occupancy_at_time", "commonroad/scenario/obstacle.py", "occupancy_at_time", "DynamicObstacle",
               [(None, "tInit : Int"), (None, "p : CR.Occ.Pred"), ("time_step", "time_step : Int")], "Option CR.Occ.Occ",
               names={"self.initial_state.time_step": "tInit"}, opt_attrs={("self", "_prediction"): "p"},
               calls={"Occupancy": ("const:(some CR.Occ.Occ.init)", False, True),
                      "self._prediction.occupancy_at_time_step": ("CR.Occ.predOccAt p", False, True)},
               doc="Occupancy(t, initial occupancy shape) is the symbolic `Occ.init`"),
        Target("DynamicObstacle_state_at_time", "commonroad/scenario/obstacle.py", "state_at_time", "DynamicObstacle",
               [(None, "tInit : Int"), (None, "p : CR.Occ.Pred"), ("time_step", "time_step : Int")], "Option CR.Occ.StRef",
               names={"self.initial_state.time_step": "tInit", "self.initial_state": "CR.Occ.StRef.init"},
               opt_attrs={("self", "_prediction"): "p"},
               type_tests={("self._prediction", "SetBasedPrediction"): "p.isSetBased"},
               calls={"self.prediction.trajectory.state_at_time_step": ("CR.Occ.Pred.trajStateAt p", False, True)}),
        Target("PhantomObstacle_occupancy_at_time", "commonroad/scenario/obstacle.py", "occupancy_at_time", "PhantomObstacle",
               [(None, "p : Option (List CR.Occ.TS)"), ("time_step", "time_step : Int")], "Option CR.Occ.Occ",
               opt_attrs={("self", "_prediction"): "p"},
               calls={"self._prediction.occupancy_at_time_step": ("CR.Occ.predOccAt (.setBased (p.getD []))", False, True)}),
        Target("Scenario_obstacle_states_at_time_step", "commonroad/scenario/scenario.py", "obstacle_states_at_time_step", "Scenario",
               [(None, "obs : List (Nat × CR.Occ.Obst)"), ("time_step", "time_step : Int")], "List (Nat × Option CR.Occ.StRef)",
               attrs={("self", "dynamic_obstacles"): "(obs.filter (fun o => decide (o.2.role = .dynamic)))",
                      ("self", "static_obstacles"): "(obs.filter (fun o => decide (o.2.role = .static)))",
                      ("obstacle", "obstacle_id"): "obstacle.1", ("obstacle", "initial_state"): "(some CR.Occ.StRef.init)"},
               calls={"is_natural_number": ("CR.Py.isNat", False), "obstacle.state_at_time": ("CR.Occ.stateAt obstacle.2", False, True)},
               accs={"obstacle_states": "Nat × Option CR.Occ.StRef"}, monadic=True,
               doc="the dict id -> state as an association list in insertion order; `self.dynamic_obstacles` / `self.static_obstacles` "
                   "are the obstacles of that role in scenario order"),
        Target("Scenario_occupancies_at_time_step", "commonroad/scenario/scenario.py", "occupancies_at_time_step", "Scenario",
               [(None, "obs : List (Nat × CR.Occ.Obst)"), ("time_step", "time_step : Int"), ("obstacle_role", "obstacle_role : Option CR.Occ.Role")],
               "List (Option CR.Occ.Occ)",
               attrs={("self", "obstacles"): "obs", ("obstacle", "obstacle_role"): "(some obstacle.2.role)"},
               types={"obstacle_role": "ObstacleRole?"}, truthy=["obstacle.occupancy_at_time"],
               calls={"is_natural_number": ("CR.Py.isNat", False), "obstacle.occupancy_at_time": ("CR.Occ.occupancyAt obstacle.2", False, True)},
               accs={"occupancies": "Option CR.Occ.Occ"}, monadic=True,
               doc="`self.obstacles` is the parameter obs; an Occupancy object is truthy, None is not"),
        Target("Scenario_obstacles_by_role_and_type", "commonroad/scenario/scenario.py", "obstacles_by_role_and_type", "Scenario",
               [(None, "obs : List (Nat × CR.Occ.Obst × Option Nat)"), ("obstacle_role", "obstacle_role : Option CR.Occ.Role"),
                ("obstacle_type", "obstacle_type : Option Nat")], "List (Nat × CR.Occ.Obst × Option Nat)",
               attrs={("self", "obstacles"): "obs", ("obstacle", "obstacle_role"): "(some obstacle.2.1.role)"},
               types={"obstacle_role": "ObstacleRole?", "obstacle_type": "ObstacleType?"},
               calls={"getattr": ("const:obstacle.2.2", False)},
               accs={"obstacle_list": "Nat × CR.Occ.Obst × Option Nat"}, monadic=True,
               doc="`getattr(obstacle, 'obstacle_type', None)` is the third component (none for phantom obstacles)"),
        Target("TrafficLightCycle_cycle_init_timesteps", "commonroad/scenario/traffic_light.py", "cycle_init_timesteps",
               "TrafficLightCycle", [(None, "es : List CR.TL.Elem"), (None, "off : Int")], "List Int",
               attrs={("self", "_cycle_elements"): "es", ("self", "time_offset"): "off", ("*", "duration"): "{v}.2"},
               body_of_if=True, doc="memoised property: the computation inside `if not hasattr`"),
        Target("TrafficLightCycle_get_state_at_time_step", "commonroad/scenario/traffic_light.py", "get_state_at_time_step",
               "TrafficLightCycle", [(None, "es : List CR.TL.Elem"), (None, "off : Int"), ("time_step", "time_step : Int")], "Nat",
               attrs={("self", "time_offset"): "off", ("self", "cycle_elements"): "es", ("[]", "state"): "({x}).1",
                      ("self", "cycle_init_timesteps"): "(TrafficLightCycle_cycle_init_timesteps es off)"},
               monadic=True, doc="returns the state ordinal of the selected element"),
        Target("TrafficLight_get_state_at_time_step", "commonroad/scenario/traffic_light.py", "get_state_at_time_step", "TrafficLight",
               [(None, "es : List CR.TL.Elem"), (None, "off : Int"), ("time_step", "time_step : Int")], "Nat",
               calls={"self.traffic_light_cycle.get_state_at_time_step": ("TrafficLightCycle_get_state_at_time_step es off", True)},
               monadic=True, doc="the light delegates to its cycle (es, off are the cycle's elements and offset)"),
    ]
    # definitions that call make_valid_orientation_interval must come after it
    late = [t for t in ts if t.name in ("AngleInterval_set_start", "AngleInterval_set_end", "AngleInterval_base_init", "AngleInterval_init")]
    ts = [t for t in ts if t not in late] + late
    return ts


def translate_target(repo, t: Target) -> str:
    src = open(os.path.join(repo, t.file), encoding="utf-8").read()
    tree = ast.parse(src)
    fn = find_func(tree, t.cls, t.func, t.setter)
    tr = Tr(t)
    out = tr.function(fn)
    return out


HEADER = """/-
  Gen.Src — GENERATED on every run by harness/translate from the current source of /repo. Do not edit.
-/
import CRModel.PyExt
import CRModel.Interval
import CRModel.TrafficLight
import CRModel.Occupancy
set_option linter.unusedVariables false
namespace Gen
open CR

"""


def regenerate(repo, gen_dir):
    os.makedirs(gen_dir, exist_ok=True)
    os.makedirs(LASTGOOD, exist_ok=True)
    status, chunks = {}, []
    for t in targets():
        lg = os.path.join(LASTGOOD, t.name + ".lean")
        try:
            txt = translate_target(repo, t)
            status[t.name] = "ok"
        except (Unsupported, SyntaxError, KeyError, IndexError, AttributeError, OSError) as e:
            if os.path.exists(lg):
                txt = open(lg).read()
                status[t.name] = f"lost ({type(e).__name__}: {e}); last good translation used"
            else:
                txt = f"-- {t.name}: not translatable ({e})\n"
                status[t.name] = f"lost ({type(e).__name__}: {e}); no fallback"
        chunks.append(txt)
    new = HEADER + "\n".join(chunks) + "\nend Gen\n"
    path = os.path.join(gen_dir, "Src.lean")
    old = open(path).read() if os.path.exists(path) else None
    if old != new:
        with open(path, "w") as f:
            f.write(new)
    return status


def update_lastgood(repo):
    os.makedirs(LASTGOOD, exist_ok=True)
    for t in targets():
        open(os.path.join(LASTGOOD, t.name + ".lean"), "w").write(translate_target(repo, t))


if __name__ == "__main__":
    import sys
    if len(sys.argv) > 1 and sys.argv[1] == "--update-lastgood":
        update_lastgood("/repo")
    st = regenerate("/repo", os.path.join(os.path.dirname(os.path.dirname(HERE)), "lean", "Gen"))
    for k, v in st.items():
        print(k, v)
