#!/venv/bin/python
"""Entry point:  ./check <Cxx> [--tier quick|thorough] [--replay <path>]   |   ./check --setup

exit 0  property held on everything explored (KNOWN-FINDING lines may have been printed)
exit 1  'VIOLATION property=<id> replay=<path>[ no-failing-input-found]'
exit 2  infrastructure problem / timeout (never a verdict)
"""
from __future__ import annotations

import argparse
import concurrent.futures as cf
import importlib
import json
import os
import sys
import time
import traceback

sys.path.insert(0, os.path.dirname(os.path.abspath(__file__)))
import common  # noqa: E402
sys.path.insert(0, common.REPO)  # the working tree under test (default /repo) wins over any installed copy
from common import Ctx, InfraError  # noqa: E402

os.environ.setdefault(common.GUARD, "1")
os.environ.setdefault("MPLBACKEND", "Agg")
os.environ.setdefault("OMP_NUM_THREADS", "1")
os.environ.setdefault("OPENBLAS_NUM_THREADS", "1")


def load_module(prop: str):
    return importlib.import_module(prop.lower())


def worker(prop: str, tier: str, seed: int, w: int, workers: int, mode: str = "run", budget_s=None):
    import warnings
    warnings.filterwarnings("ignore")
    mod = load_module(prop)
    ctx = Ctx(prop, tier, seed, w, workers)
    try:
        if mode == "search":
            # the failing-input search is bounded in wall-clock time: a broken obligation the search cannot turn into a
            # concrete input is reported as `no-failing-input-found` after the budget, not after an open-ended sweep
            if budget_s:
                ctx.deadline = time.time() + budget_s
            try:
                getattr(mod, "search", mod.run)(ctx)
            except common.SearchBudget:
                pass
        else:
            mod.run(ctx)
        return ctx.result()
    finally:
        ctx.close()


def merge(results):
    m = {"evaluations": 0, "distinct": set(), "hist": {}, "samples": [], "traces": 0, "disagreements": [],
         "failures": [], "excluded": 0, "driver_lines": 0}
    for r in results:
        m["evaluations"] += r["evaluations"]
        m["distinct"].update(r["distinct"])
        for k, v in r["hist"].items():
            m["hist"][k] = m["hist"].get(k, 0) + v
        m["samples"].extend(r["samples"][:max(1, 6 // max(1, len(results)))])
        m["traces"] += r["traces"]
        m["disagreements"].extend(r["disagreements"])
        m["failures"].extend(r["failures"])
        m["excluded"] += r["excluded"]
        m["driver_lines"] += r["driver_lines"]
    return m


def run_workers(prop, tier, seed, workers, mode="run", timeout=None, budget_s=None):
    if workers == 1:
        return [worker(prop, tier, seed, 0, 1, mode, budget_s)]
    with cf.ProcessPoolExecutor(max_workers=workers) as ex:
        futs = [ex.submit(worker, prop, tier, seed, w, workers, mode, budget_s) for w in range(workers)]
        return [f.result(timeout=timeout) for f in futs]


def build_and_audit(prop: str, tier: str):
    """Returns dict(obligations, discharged, broken:[...], notes:[...])."""
    info = {"obligations": 0, "discharged": 0, "broken": [], "notes": [], "theorems": {}, "translators": {}}
    with common.BuildLock():
        info["translators"] = common.run_translators()
        try:
            import translate as _tr
            owners = dict(_tr.OWNER)
        except Exception:  # noqa
            owners = {}
        own_modules = {f"src_{prop.lower()}"} | ({"pysrc", "src_c04"} if prop in ("C04", "C08", "C16", "C17") else set()) \
            | ({"xsd", "pyenums"} if prop == "C03" else set())
        info["own_lost"] = sorted(k for k, v in info["translators"].items()
                                  if not (v.startswith("ok") or v.startswith("regenerated")) and owners.get(k) in own_modules)
        for k, v in info["translators"].items():
            if not (v.startswith("ok") or v.startswith("regenerated")):
                # never a verdict, but never silent either: the tie of this function is checked against its LAST GOOD translation,
                # not against the current source; the correspondence tie decides for it
                print(f"note: translator {k}: {v}", file=sys.stderr)
        ok, log = common.lake_build(["CRModel", "Driver", "crdriver"])
        if not ok:
            raise InfraError("model/driver build failed:\n" + log[-3000:])
        pmod = load_module(prop)
        mods = [f"CRProps.{prop}"] + list(getattr(pmod, "EXTRA_MODULES", []))
        info["modules"] = mods
        hits = common.grep_forbidden()
        if hits:
            info["broken"].append({"obligation": "forbidden-construct grep", "log": "\n".join(hits)})
        for mod in mods:
            declared = common.declared_theorems(mod.split(".")[-1])
            info["obligations"] += len(declared)
            ok, log = common.lake_build([mod])
            if not ok:
                info["broken"].append({"obligation": f"lake build {mod}", "log": log[-4000:]})
                info["notes"].append(f"proof module {mod} does not compile")
                continue
            thms, alog, rc = common.audit_module(mod)
            if rc != 0:
                info["broken"].append({"obligation": f"axiom audit {mod}", "log": alog[-3000:]})
            info["theorems"].update({k: v for k, v in thms.items() if any(k == d or k.endswith("." + d) for d in declared)})
            for name in declared:
                full = [k for k in thms if k == name or k.endswith("." + name)]
                if not full:
                    info["broken"].append({"obligation": name, "log": "theorem not found in compiled module"})
                    continue
                bad = [a for a in thms[full[0]] if a not in common.ALLOWED_AXIOMS]
                if bad:
                    info["broken"].append({"obligation": name, "log": f"depends on disallowed axioms {bad}"})
                    continue
                info["discharged"] += 1
        mod = " ".join(mods)
        if tier == "thorough" and not info["broken"]:
            import subprocess
            try:
                p = subprocess.run(["lake", "env", "leanchecker"] + mods, cwd=common.LEAN, stdout=subprocess.PIPE,
                                   stderr=subprocess.STDOUT, text=True, timeout=3000)
                info["leanchecker"] = "ok" if p.returncode == 0 else "FAILED"
                if p.returncode != 0:
                    info["broken"].append({"obligation": f"leanchecker {mod}", "log": p.stdout[-3000:]})
            except subprocess.TimeoutExpired:
                info["leanchecker"] = "timeout"
    return info


def write_replay(prop, name, obj):
    os.makedirs(common.REPLAY_DIR, exist_ok=True)
    path = os.path.join(common.REPLAY_DIR, f"{prop}_{name}.json")
    with open(path, "w") as f:
        json.dump(obj, f, indent=1, default=str)
    return path


def write_evidence(prop, tier, seed, build, m, wall, violations, known_hit, mod):
    os.makedirs(common.EVIDENCE_DIR, exist_ok=True)
    mods_txt = " ".join(build.get("modules", [f"CRProps.{prop}"]))
    cov = {
        "obligations": build["obligations"],
        "discharged": build["discharged"],
        "checker_cmd": "cd lean && lake build %s && lake env lean <audit: collectAxioms on every theorem of these modules>" % mods_txt
                       + ("; lake env leanchecker %s" % mods_txt if tier == "thorough" else ""),
        "trusted_base": common.TRUSTED_BASE + list(getattr(mod, "TRUSTED", [])),
        "theorems": build["theorems"],
        "translators": build.get("translators", {}),
        "translators_lost": sorted(k for k, v in build.get("translators", {}).items()
                                   if not (v.startswith("ok") or v.startswith("regenerated"))),
        "evaluations": m["evaluations"],
        "distinct_nontrivial": len(m["distinct"]),
        "rule": getattr(mod, "RULE", ""),
        "samples": m["samples"][:8] if m["samples"] else [{"obligations": list(build["theorems"])[:5]}],
        "traces_validated_against_impl": m["traces"],
        "disagreements_checked": len(m["disagreements"]),
        "branch_histogram": m["hist"],
        "excluded_ambiguous": m["excluded"],
        "known_findings_hit": sorted(known_hit),
        "model_driver_lines": m["driver_lines"],
        "broken_obligations": [b["obligation"] for b in build["broken"]],
    }
    if "leanchecker" in build:
        cov["leanchecker"] = build["leanchecker"]
    ev = {
        "property_id": prop, "tier": tier, "seed": seed, "level": "proof", "coverage": cov,
        "assumptions": list(getattr(mod, "ASSUMPTIONS", [])),
        "wall_s": round(wall, 2), "violations": violations,
    }
    with open(os.path.join(common.EVIDENCE_DIR, f"{prop}.json"), "w") as f:
        json.dump(ev, f, indent=1, default=str)


def check(prop: str, tier: str, seed: int) -> int:
    t0 = time.time()
    mod = load_module(prop)
    build = build_and_audit(prop, tier)
    workers = getattr(mod, "WORKERS", {"quick": 1, "thorough": 8})[tier]
    results = run_workers(prop, tier, seed, workers)
    m = merge(results)

    required = getattr(mod, "REQUIRED_BUCKETS", [])
    missing = [b for b in required if m["hist"].get(b, 0) == 0]
    extra = 0
    while missing and extra < 3:
        # top up with further generated cases (other seed) until every required branch bucket has been exercised
        extra += 1
        results += run_workers(prop, tier, seed + 100003 * extra, workers)
        m = merge(results)
        missing = [b for b in required if m["hist"].get(b, 0) == 0]
    known = common.load_findings().get(prop, {})
    known_hit = set()
    unlisted = []
    for f in m["failures"]:
        if f["key"] in known:
            known_hit.add(f["key"])
        else:
            unlisted.append(f)
    if missing and not (unlisted or build["broken"] or m["disagreements"]):
        # lost coverage with nothing else wrong is an infrastructure problem (exit 2).  When the same run has a concrete
        # failing input, a broken obligation or a disagreement, the lost coverage is most likely its consequence (an
        # implementation that raises where the generator wanted to go on): the verdict below is reported instead.
        print(f"INFRA: generator did not reach required buckets {missing}", file=sys.stderr)
        return 2
    if missing:
        print(f"note: required buckets not reached in a run that found something else wrong: {missing}", file=sys.stderr)

    needs_search = bool(build["broken"] or m["disagreements"]) and not unlisted
    lost_search = bool(build.get("own_lost")) and not unlisted and not needs_search
    if needs_search or lost_search:
        # failing-input search on the real code: oracle over fresh cases with other seeds.  Also started (with a smaller
        # budget) when a function of THIS property's translator tie is `lost` on the tree under test: the tie then checks
        # the last good translation, not the current source, so the search looks harder; finding nothing it is exit 0.
        budget = float(os.environ.get("VERIF_SEARCH_BUDGET_S", "300" if tier == "quick" else "1500"))
        if lost_search:
            budget = min(budget, float(os.environ.get("VERIF_LOST_SEARCH_BUDGET_S", "120" if tier == "quick" else "600")))
            print(f"note: functions of this property's translator tie are lost {build['own_lost']}: bounded failing-input search", file=sys.stderr)
        sres = run_workers(prop, "thorough", seed + 7919, 8, mode="search", budget_s=budget)
        sm = merge(sres)
        for f in sm["failures"]:
            if f["key"] in known:
                known_hit.add(f["key"])
            else:
                unlisted.append(f)
        m["evaluations"] += sm["evaluations"]
        m["distinct"].update(sm["distinct"])

    for k in sorted(known_hit):
        print(f"KNOWN-FINDING: property={prop} {k} {known[k]}")

    rc = 0
    violations = 0
    if unlisted:
        seen = set()
        for f in unlisted:
            if f["key"] in seen:
                continue
            seen.add(f["key"])
            violations += 1
            case = f["case"]
            if hasattr(mod, "shrink"):
                try:
                    case = mod.shrink(case, f["key"])
                except Exception:  # noqa
                    pass
            path = write_replay(prop, f"{len(seen)}", {
                "property": prop, "kind": "failing-input", "key": f["key"], "what": f["what"], "case": case,
                "detail": f["detail"], "seed": seed, "tier": tier,
                "broken_obligations": [b["obligation"] for b in build["broken"]],
                "replay_cmd": f"./check {prop} --replay <this file>"})
            print(f"VIOLATION property={prop} replay={path}")
            print(f"  {f['key']}: {f['what']}")
            if len(seen) >= 5:
                break
        rc = 1
    elif build["broken"] or m["disagreements"]:
        violations = 1
        path = write_replay(prop, "unproved", {
            "property": prop, "kind": "no-failing-input-found",
            "broken_obligations": build["broken"],
            "correspondence_disagreements": m["disagreements"][:10],
            "note": "the theorem / correspondence named here no longer checks; the failing-input search on the real code found no "
                    "concrete input on which the property fails",
            "seed": seed, "tier": tier})
        print(f"VIOLATION property={prop} replay={path} no-failing-input-found")
        rc = 1

    write_evidence(prop, tier, seed, build, m, time.time() - t0, violations, known_hit, mod)
    print(f"{prop} {tier}: obligations {build['discharged']}/{build['obligations']} evaluations {m['evaluations']} "
          f"distinct {len(m['distinct'])} traces {m['traces']} disagreements {len(m['disagreements'])} "
          f"failures {len(m['failures'])} known {len(known_hit)} wall {time.time() - t0:.1f}s -> exit {rc}")
    return rc


def replay(prop: str, path: str) -> int:
    mod = load_module(prop)
    obj = json.load(open(path))
    if obj.get("kind") == "no-failing-input-found":
        print("replay names broken obligations / correspondence, no concrete input:")
        print(json.dumps([b["obligation"] for b in obj.get("broken_obligations", [])]))
        print(json.dumps(obj.get("correspondence_disagreements", [])[:3], indent=1)[:3000])
        return 1
    ctx = Ctx(prop, "quick", obj.get("seed", 0))
    try:
        mod.replay(ctx, obj["case"])
        fails = ctx.failures
    finally:
        ctx.close()
    if fails:
        for f in fails[:5]:
            print(f"REPRODUCED property={prop} {f.key}: {f.what}")
        return 1
    print("not reproduced on the current tree")
    return 0


def setup() -> int:
    """Translate, build the models and the driver (must succeed: exit 2 otherwise) and pre-build every proof module.
    A proof module that does not compile is NOT a setup failure: the tie modules (CRProps/T*.lean, C03) are stated over
    definitions regenerated from the working tree, so on a changed tree a broken obligation is exactly what they are there to
    show -- every ./check re-builds its own modules and decides (failing-input search, VIOLATION).  Setup only warms the cache."""
    import glob
    with common.BuildLock():
        st = common.run_translators()
        for k, v in st.items():
            if not (v.startswith("ok") or v.startswith("regenerated")):
                print(f"note: translator {k}: {v}")
        ok, log = common.lake_build(["CRModel", "Driver", "crdriver"])
        if not ok:
            print(log[-3000:])
            return 2
        ok, log = common.lake_build()
        print(log[-1500:])
        if not ok:
            broken = []
            for f in sorted(glob.glob(os.path.join(common.LEAN, "CRProps", "*.lean"))):
                m = "CRProps." + os.path.basename(f)[:-5]
                ok1, _ = common.lake_build([m])
                if not ok1:
                    broken.append(m)
            print(f"note: proof modules that do not build on this tree (each ./check that lists one decides): {broken}")
        return 0


def main():
    ap = argparse.ArgumentParser()
    ap.add_argument("prop", nargs="?")
    ap.add_argument("--tier", default=os.environ.get("VERIF_TIER", "quick"), choices=["quick", "thorough"])
    ap.add_argument("--replay")
    ap.add_argument("--setup", action="store_true")
    a = ap.parse_args()
    seed = int(os.environ.get("VERIF_SEED", "0") or 0)
    # watchdog: a run that does not finish is an infrastructure problem (exit 2), never a verdict
    import signal

    def _timeout(signum, frame):
        print("INFRA: timeout", file=sys.stderr)
        os._exit(2)
    signal.signal(signal.SIGALRM, _timeout)
    signal.alarm(int(os.environ.get("VERIF_TIMEOUT_S", "1500" if a.tier == "quick" else "10800")))
    try:
        if a.setup:
            return setup()
        if not a.prop:
            ap.error("property id required")
        if a.replay:
            return replay(a.prop, a.replay)
        return check(a.prop, a.tier, seed)
    except InfraError as e:
        print(f"INFRA: {e}", file=sys.stderr)
        return 2
    except Exception:  # noqa
        traceback.print_exc()
        return 2


if __name__ == "__main__":
    sys.exit(main())
