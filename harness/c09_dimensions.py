"""C09 — table of every constructor parameter, settable attribute and public operation of the classes the property
anchors (Scenario, LaneletNetwork and the object classes a scenario contains), with how the generator of harness/c09.py
varies it, or why it cannot matter for ids / is outside the property's quantifier.  `check_table()` compares the table
with the real signatures on every run: a parameter, attribute or method the table does not know => InfraError (exit 2).

Legend of the `how` strings:  V: varied by the generator (where) ·  F: fixed, cannot influence ids / containment (why) ·
O: outside the property's quantifier (named in ASSUMPTIONS) ·  Q: read-only, exercised as an interleaved query ·
N: exercised as an interleaved neutral operation (must leave contained objects and id pool alone).
"""
import inspect

V_ID = "V: id from a colliding pool of 6-12 numbers incl. 0, 57, 10**6, 2**40+1"
F_GEO = "F: geometry / appearance only"
O_CONT = "O: re-assigned only while the object is outside the scenario and outside every network (op 'mutate'); ids of contained objects are not re-assigned"

CTOR = {
    "Scenario": {"dt": "F: time step size", "scenario_id": "F: meta data", "author": "F: meta data", "tags": "F: meta data",
                 "affiliation": "F: meta data", "source": "F: meta data", "location": "F: meta data"},
    "LaneletNetwork": {"information": "F: meta data"},
    "Lanelet": {"left_vertices": F_GEO, "center_vertices": F_GEO, "right_vertices": F_GEO,
                "lanelet_id": V_ID + "; python int or numpy.int64 (spec 'np')",
                "predecessor": "V: None / ids of universe lanelets (cleanup_lanelet_references touches them)",
                "successor": "V: as predecessor", "adjacent_left": "V: None / id of a universe lanelet",
                "adjacent_left_same_direction": "V: follows adjacent_left", "adjacent_right": "F: symmetric to adjacent_left, same code path",
                "adjacent_right_same_direction": "F: as adjacent_right", "line_marking_left_vertices": F_GEO,
                "line_marking_right_vertices": F_GEO,
                "stop_line": "V: None / StopLine with traffic_sign_ref, traffic_light_ref (cleanup_traffic_*_references touch them)",
                "lanelet_type": "F: classification only", "user_one_way": "F: classification only",
                "user_bidirectional": "F: classification only",
                "traffic_signs": "V: None / empty / 1-3 ids, mostly of universe signs (decides the hanging members of remove_lanelet)",
                "traffic_lights": "V: as traffic_signs", "adjacent_areas": "F: areas are not handled by Scenario.add_objects"},
    "Intersection": {"intersection_id": V_ID + "; int or numpy.int64", "incomings": "V: 0-3 elements, ids distinct or repeated or equal to the intersection id",
                     "crossings": "V: None / empty / ids of universe lanelets"},
    "IntersectionIncomingElement": {"incoming_id": V_ID + "; int or numpy.int64",
                                    "incoming_lanelets": "V: None / empty / 1-2 ids of universe lanelets (removed all at once: required bucket)",
                                    "successors_right": "V: empty / ids of universe lanelets", "successors_straight": "V: as successors_right",
                                    "successors_left": "V: as successors_right", "left_of": "V: None / id of another incoming"},
    "TrafficSign": {"traffic_sign_id": V_ID, "traffic_sign_elements": "F: content of the sign", "first_occurrence": "V: empty / ids of universe lanelets",
                    "position": F_GEO, "virtual": "V: True / False"},
    "TrafficLight": {"traffic_light_id": V_ID, "position": F_GEO, "traffic_light_cycle": "F: signal plan", "color": "F: signal plan",
                     "active": "V: True / False", "direction": "F: signal plan", "shape": F_GEO},
    "StaticObstacle": {"obstacle_id": V_ID, "obstacle_type": "F: classification only", "obstacle_shape": F_GEO, "initial_state": "V: time step 0 / 3",
                       "initial_center_lanelet_ids": "V: None / empty / ids of universe lanelets (read by remove_obstacle)",
                       "initial_shape_lanelet_ids": "V: None / empty / ids of universe lanelets, contained or not (add_objects fails half-way "
                                                    "with AttributeError for a missing lanelet: modelled, bucket add-fails-halfway)",
                       "initial_signal_state": "F: signals", "signal_series": "F: signals"},
    "DynamicObstacle": {"obstacle_id": V_ID, "obstacle_type": "F: classification only", "obstacle_shape": F_GEO, "initial_state": "V: time step 0 / 3",
                        "prediction": "F: None — predictions with lanelet assignments are property C07's generator; remove_obstacle is robust against them since d431666",
                        "initial_center_lanelet_ids": "V: as StaticObstacle", "initial_shape_lanelet_ids": "V: as StaticObstacle",
                        "initial_signal_state": "F: signals", "signal_series": "F: signals", "initial_meta_information_state": "F: meta data",
                        "meta_information_series": "F: meta data", "external_dataset_id": "F: meta data", "history": "F: past states",
                        "signal_history": "F: past states", "center_lanelet_ids_history": "F: past states", "shape_lanelet_ids_history": "F: past states",
                        "kwargs": "F: ignored extras"},
    "EnvironmentObstacle": {"obstacle_id": V_ID, "obstacle_type": "F: classification only", "obstacle_shape": F_GEO},
    "PhantomObstacle": {"obstacle_id": V_ID, "prediction": "F: None (a set-based prediction is never read by the id bookkeeping)"},
}

SETTABLE = {
    "Lanelet": {"lanelet_id": O_CONT, "traffic_signs": "V: op 'set_refs' (new set / the same set handed back / add_traffic_sign_to_lanelet), also on contained lanelets (modelled: Op.setRefs)",
                "traffic_lights": "V: as traffic_signs", "adj_left": "F: see ctor", "adj_left_same_direction": "F: see ctor", "adj_right": "F: see ctor",
                "adj_right_same_direction": "F: see ctor", "adjacent_areas": "F: areas", "center_vertices": F_GEO, "distance": F_GEO,
                "dynamic_obstacles_on_lanelet": "N: filled by assign_obstacles_to_lanelets / add_objects (registries: property C07)",
                "static_obstacles_on_lanelet": "N: as dynamic_obstacles_on_lanelet", "lanelet_type": "F: classification", "left_vertices": F_GEO,
                "line_marking_left_vertices": F_GEO, "line_marking_right_vertices": F_GEO, "predecessor": "F: see ctor", "right_vertices": F_GEO,
                "stop_line": "F: see ctor", "successor": "F: see ctor", "user_bidirectional": "F: classification", "user_one_way": "F: classification"},
    "Intersection": {"intersection_id": O_CONT, "incomings": O_CONT + " (same list handed back / reversed / shortened)", "crossings": "F: see ctor"},
    "IntersectionIncomingElement": {"incoming_id": O_CONT, "incoming_lanelets": "F: see ctor (the code itself rewrites it in cleanup_lanelet_references)",
                                    "left_of": "F: see ctor", "successors_left": "F: see ctor", "successors_right": "F: see ctor",
                                    "successors_straight": "F: see ctor"},
    "TrafficSign": {"traffic_sign_id": O_CONT, "first_occurrence": "F: see ctor", "position": F_GEO, "traffic_sign_elements": "F: content", "virtual": "F: see ctor"},
    "TrafficLight": {"traffic_light_id": O_CONT, "active": "F: see ctor", "color": "F: signal plan", "direction": "F: signal plan", "position": F_GEO,
                     "shape": F_GEO, "traffic_light_cycle": "F: signal plan"},
    "StaticObstacle": {"obstacle_id": "V: op 'mutate' calls the setter (immutable: it only warns)", "initial_center_lanelet_ids": "N: rewritten by assign_obstacles_to_lanelets",
                       "initial_shape_lanelet_ids": "N: rewritten by assign_obstacles_to_lanelets (then serialised into the model op of the next add)",
                       "initial_signal_state": "F: signals", "initial_state": "F: see ctor", "obstacle_role": "F: fixed by the class", "obstacle_shape": F_GEO,
                       "obstacle_type": "F: classification", "signal_series": "F: signals"},
    "DynamicObstacle": {"obstacle_id": "V: as StaticObstacle", "initial_center_lanelet_ids": "N: as StaticObstacle", "initial_shape_lanelet_ids": "N: as StaticObstacle",
                        "initial_signal_state": "F: signals", "initial_state": "F: see ctor", "obstacle_role": "F: fixed by the class", "obstacle_shape": F_GEO,
                        "obstacle_type": "F: classification", "signal_series": "F: signals", "external_dataset_id": "F: meta data",
                        "initial_meta_information_state": "F: meta data", "meta_information_series": "F: meta data", "prediction": "F: see ctor"},
    "EnvironmentObstacle": {"obstacle_id": "V: as StaticObstacle", "obstacle_role": "F: fixed by the class", "obstacle_shape": F_GEO, "obstacle_type": "F: classification"},
    "PhantomObstacle": {"obstacle_role": "F: fixed by the class", "prediction": "F: see ctor"},
    "Scenario": {"dt": "F: time step size"},
    "LaneletNetwork": {"information": "F: meta data"},
}

MEMBERS = {
    "Scenario": {
        "add_objects": "V: single object of every kind, list (also empty, with repeated and with already contained elements), LaneletNetwork (plain / "
                       "create_from_lanelet_list / create_from_lanelet_network), wrong type; lanelet_ids None / empty / 1-3 ids",
        "remove_obstacle": "V: single / list / empty list / repeated / not contained", "remove_lanelet": "V: single / list / empty list; referenced_elements True / False; foreign objects",
        "remove_traffic_sign": "V: single / list / empty list / foreign", "remove_traffic_light": "V: single / list / empty list / foreign",
        "remove_intersection": "V: single / list / empty list / foreign object with the id of a contained one",
        "replace_lanelet_network": "V: op 'replace_net'", "erase_lanelet_network": "V: op 'erase' (modelled: Op.eraseNet)",
        "remove_hanging_lanelet_members": "V: op 'rm_hanging' with a list of contained or foreign lanelets, also empty (modelled: Op.removeHanging); "
                                          "a bare Lanelet is not iterable there (TypeError before anything happens) — not generated",
        "generate_object_id": "V: op 'gen'",
        "assign_obstacles_to_lanelets": "N: op 'neutral' (all defaults / use_center_only=True / time_steps + obstacle_ids)",
        "translate_rotate": "N: op 'neutral'", "convert_to_2d": "F: renames the map and drops z coordinates", "draw": "F: rendering (property C19)",
        "obstacle_by_id": "Q", "obstacle_states_at_time_step": "F: states only", "obstacles_by_position_intervals": "F: geometry query",
        "obstacles_by_role_and_type": "Q", "occupancies_at_time_step": "Q", "dt": "F: time step size", "dynamic_obstacles": "Q (also the oracle's observation)",
        "static_obstacles": "Q (also the oracle's observation)", "environment_obstacle": "Q (also the oracle's observation)",
        "phantom_obstacle": "Q (also the oracle's observation)", "obstacles": "Q",
        "lanelet_network": "Q (the oracle's observation); O: mutating the returned network directly (network-level add_* / remove_*) bypasses the id pool by design",
    },
    "LaneletNetwork": {
        "add_lanelet": "V: building network arguments (rtree True / False); O on the scenario's own network", "add_traffic_sign": "V: building network arguments; O on the scenario's own network",
        "add_traffic_light": "V: building network arguments; O on the scenario's own network", "add_intersection": "V: building network arguments; O on the scenario's own network",
        "add_area": "F: areas are not handled by Scenario.add_objects", "add_lanelets_from_network": "O: network-level mutation",
        "remove_lanelet": "O: network-level mutation (called by Scenario.remove_lanelet)", "remove_traffic_sign": "O: as remove_lanelet",
        "remove_traffic_light": "O: as remove_lanelet", "remove_intersection": "O: as remove_lanelet", "remove_area": "F: areas",
        "cleanup_lanelet_references": "F: called by the removals; rewrites references, never ids", "cleanup_traffic_light_references": "F: as cleanup_lanelet_references (lanelet references are compared in the correspondence)",
        "cleanup_traffic_sign_references": "F: as cleanup_traffic_light_references",
        "create_from_lanelet_list": "V: alternative constructor of network arguments (cleanup_ids True / False)",
        "create_from_lanelet_network": "V: alternative constructor of network arguments (cleanup_ids True / False; shape_input / exclude_lanelet_types: F, filters by geometry / type)",
        "convert_to_2d": F_GEO, "draw": "F: rendering", "translate_rotate": "N: through Scenario.translate_rotate", "filter_obstacles_in_network": "F: geometry query",
        "find_area_by_id": "F: areas", "find_intersection_by_id": "Q", "find_lanelet_by_id": "Q", "find_traffic_light_by_id": "Q", "find_traffic_sign_by_id": "Q",
        "find_lanelet_by_position": "F: geometry query", "find_lanelet_by_shape": "F: geometry query (used by the neutral assign_obstacles_to_lanelets)",
        "find_most_likely_lanelet_by_state": "F: geometry query", "get_traffic_lights_referenced_lanelets": "Q", "get_traffic_sign_referenced_lanelets": "Q",
        "lanelets_in_proximity": "Q", "map_obstacles_to_lanelets": "F: geometry query", "map_inc_lanelets_to_intersections": "Q", "areas": "F: areas",
        "information": "F: meta data", "intersections": "Q (the oracle's observation)", "lanelets": "Q (the oracle's observation)", "lanelet_polygons": F_GEO,
        "traffic_lights": "Q (the oracle's observation)", "traffic_signs": "Q (the oracle's observation)",
    },
}


def _classes():
    from commonroad.scenario.intersection import Intersection, IntersectionIncomingElement
    from commonroad.scenario.lanelet import Lanelet, LaneletNetwork
    from commonroad.scenario.obstacle import DynamicObstacle, EnvironmentObstacle, PhantomObstacle, StaticObstacle
    from commonroad.scenario.scenario import Scenario
    from commonroad.scenario.traffic_light import TrafficLight
    from commonroad.scenario.traffic_sign import TrafficSign
    return {c.__name__: c for c in (Scenario, LaneletNetwork, Lanelet, Intersection, IntersectionIncomingElement, TrafficSign, TrafficLight,
                                    StaticObstacle, DynamicObstacle, EnvironmentObstacle, PhantomObstacle)}


def check_table():
    """Compare the table with the real code; returns (number of entries, list of problems)."""
    problems = []
    n = 0
    for name, cls in _classes().items():
        params = [p for p in inspect.signature(cls.__init__).parameters if p != "self"]
        for what, real, table in (("constructor parameter", params, CTOR.get(name, {})),
                                  ("settable attribute", [k for k, m in inspect.getmembers(cls) if isinstance(m, property) and m.fset is not None
                                                          and not k.startswith("_")], SETTABLE.get(name, {}))):
            n += len(table)
            for k in real:
                if k not in table:
                    problems.append(f"{name}: {what} '{k}' is not in the C09 dimension table (harness/c09_dimensions.py)")
            for k in table:
                if k not in real:
                    problems.append(f"{name}: {what} '{k}' of the C09 dimension table no longer exists")
        if name in MEMBERS:
            real = [k for k, m in inspect.getmembers(cls) if not k.startswith("_") and (callable(m) or isinstance(m, property))]
            n += len(MEMBERS[name])
            for k in real:
                if k not in MEMBERS[name]:
                    problems.append(f"{name}: public member '{k}' is not in the C09 dimension table (harness/c09_dimensions.py)")
            for k in MEMBERS[name]:
                if k not in real:
                    problems.append(f"{name}: public member '{k}' of the C09 dimension table no longer exists")
    return n, problems
