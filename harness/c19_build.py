"""C19 helpers: JSON case specs -> commonroad-io objects (scenario, planning-problem set, draw parameters).
Everything is built with the repository's own constructors; a spec is plain JSON so that a replay file is self-contained."""
import math

LM_NAMES = ["DASHED", "SOLID", "BROAD_DASHED", "BROAD_SOLID", "UNKNOWN", "NO_MARKING"]
OBST_TYPES_DYN = ["CAR", "TRUCK", "BUS", "BICYCLE", "PEDESTRIAN", "PRIORITY_VEHICLE", "PARKED_VEHICLE", "TRAIN",
                  "MOTORCYCLE", "TAXI", "UNKNOWN"]
OBST_TYPES_ENV = ["BUILDING", "PILLAR", "MEDIAN_STRIP"]


def mk_shape(s):
    import numpy as np
    from commonroad.geometry.shape import Circle, Polygon, Rectangle, ShapeGroup
    k = s[0]
    if k == "rect":
        return Rectangle(s[1], s[2], np.array([s[3], s[4]], dtype=float), s[5])
    if k == "circ":
        return Circle(s[1], np.array([s[2], s[3]], dtype=float))
    if k == "poly":
        return Polygon(np.array(s[1], dtype=float))
    if k == "group":
        return ShapeGroup([mk_shape(x) for x in s[1]])
    raise ValueError(k)


def mk_pos(p):
    import numpy as np
    if isinstance(p, list) and p and isinstance(p[0], str):
        return mk_shape(p)
    return np.array(p, dtype=float)


def mk_lanelet_network(spec):
    import numpy as np
    from commonroad.common.common_lanelet import LineMarking
    from commonroad.scenario.intersection import Intersection, IntersectionIncomingElement
    from commonroad.scenario.lanelet import Lanelet, LaneletNetwork, StopLine
    from commonroad.scenario.traffic_light import (TrafficLight, TrafficLightCycle, TrafficLightCycleElement,
                                                   TrafficLightDirection, TrafficLightState)
    from commonroad.scenario.traffic_sign import TrafficSign, TrafficSignElement, TrafficSignIDGermany
    lanelets = []
    for l in spec.get("lanelets", []):
        n = l["n"]
        xs = [l["x0"] + l["len"] * i / (n - 1) for i in range(n)]
        c, s = math.cos(l.get("rot", 0.0)), math.sin(l.get("rot", 0.0))

        def line(off):
            pts = [[c * (x - l["x0"]) - s * off + l["x0"], s * (x - l["x0"]) + c * off + l["y0"]] for x in xs]
            if l.get("z") is not None:  # 3-D vertices (the renderer projects to the xy-plane)
                pts = [pt + [l["z"] + 0.1 * i] for i, pt in enumerate(pts)]
            return np.array(pts)
        w = l["width"]
        stop = None
        if l.get("stop"):
            stop = StopLine(line(w / 2)[-1], line(-w / 2)[-1], LineMarking[l["stop"]])
        lanelets.append(Lanelet(line(w / 2), line(0.0), line(-w / 2), l["id"],
                                predecessor=list(l.get("pred", [])), successor=list(l.get("succ", [])),
                                adjacent_left=l.get("adjL"), adjacent_left_same_direction=l.get("adjLsame"),
                                adjacent_right=l.get("adjR"), adjacent_right_same_direction=l.get("adjRsame"),
                                line_marking_left_vertices=LineMarking[l.get("lmL", "NO_MARKING")],
                                line_marking_right_vertices=LineMarking[l.get("lmR", "NO_MARKING")],
                                stop_line=stop, traffic_signs=set(l.get("signs", [])),
                                traffic_lights=set(l.get("lights", []))))
    net = LaneletNetwork.create_from_lanelet_list(lanelets, cleanup_ids=False)
    for sg in spec.get("signs", []):
        el = TrafficSignElement(TrafficSignIDGermany[sg["elem"]], list(sg.get("vals", [])))
        net.add_traffic_sign(TrafficSign(sg["id"], [el], set(sg.get("first", [])),
                                         None if sg["pos"] is None else np.array(sg["pos"], dtype=float),
                                         bool(sg.get("virtual", False))), set())
    for tl in spec.get("lights", []):
        cyc = None
        if tl.get("cycle") is not None:
            cyc = TrafficLightCycle([TrafficLightCycleElement(TrafficLightState[s], d) for s, d in tl["cycle"]],
                                    time_offset=tl.get("offset", 0), active=tl.get("cyc_active", True))
        net.add_traffic_light(TrafficLight(tl["id"], None if tl["pos"] is None else np.array(tl["pos"], dtype=float), cyc,
                                           active=tl.get("active", True),
                                           direction=TrafficLightDirection[tl.get("direction", "ALL")]), set())
    for it in spec.get("inters", []):
        incs = [IntersectionIncomingElement(i["id"], set(i["lanelets"]), set(i.get("right", [])),
                                            set(i.get("straight", [])), set(i.get("left", [])), i.get("left_of"))
                for i in it["incomings"]]
        net.add_intersection(Intersection(it["id"], incs, set(it.get("crossings", []))))
    return net


def mk_state(cls, st, t):
    """orient / vel: a number, or [start, end] for an uncertain value (AngleInterval / Interval)."""
    from commonroad.common.util import AngleInterval, Interval
    o, v = st.get("orient", 0.0), st.get("vel", 1.0)
    kw = {"time_step": t, "position": mk_pos(st["pos"]),
          "orientation": AngleInterval(o[0], o[1]) if isinstance(o, list) else o,
          "velocity": Interval(v[0], v[1]) if isinstance(v, list) else v}
    return cls(**kw)


def mk_signal(sg, t):
    from commonroad.scenario.state import SignalState
    return SignalState(time_step=t, **{k: v for k, v in sg.items()})


def mk_obstacle(o):
    from commonroad.common.util import Interval
    from commonroad.prediction.prediction import Occupancy, SetBasedPrediction, TrajectoryPrediction
    from commonroad.scenario.obstacle import (DynamicObstacle, EnvironmentObstacle, ObstacleType, PhantomObstacle,
                                              StaticObstacle)
    from commonroad.scenario.state import InitialState, KSState
    from commonroad.scenario.trajectory import Trajectory
    role = o["role"]

    def mk_set(p):
        occs = []
        for oc in p["occs"]:
            t = oc["t"]
            occs.append(Occupancy(Interval(t[0], t[1]) if isinstance(t, list) else t, mk_shape(oc["shape"])))
        return SetBasedPrediction(p["init"], occs)
    if role == "env":
        return EnvironmentObstacle(o["id"], ObstacleType[o["type"]], mk_shape(o["shape"]))
    if role == "phantom":
        return PhantomObstacle(o["id"], mk_set(o["pred"]) if o.get("pred") else None)
    init = mk_state(InitialState, o["init"], o["init"]["t"])
    init.acceleration = 0.0
    init.yaw_rate = 0.0
    init.slip_angle = 0.0
    shape = mk_shape(o["shape"])
    sig0 = mk_signal(o["sig0"], o["init"]["t"]) if o.get("sig0") is not None else None
    if role == "static":
        return StaticObstacle(o["id"], ObstacleType[o["type"]], shape, init, initial_signal_state=sig0,
                              signal_series=[mk_signal(s, o["init"]["t"] + 1 + i) for i, s in enumerate(o.get("sigs", []))]
                              if o.get("sigs") is not None else None)
    pred = None
    p = o.get("pred")
    if p and p["kind"] == "traj":
        t0 = o["init"]["t"] + 1 + p.get("gap", 0)
        states = [mk_state(KSState, st, t0 + i) for i, st in enumerate(p["states"])]
        for s in states:
            s.steering_angle = 0.0
        pred = TrajectoryPrediction(Trajectory(t0, states), shape)
    elif p and p["kind"] == "set":
        pred = mk_set(p)
    hist = None
    if o.get("history"):
        hist = [mk_state(KSState, o["history"], o["init"]["t"] - 1)]
        hist[0].steering_angle = 0.0
    return DynamicObstacle(o["id"], ObstacleType[o["type"]], shape, init, pred, initial_signal_state=sig0, history=hist,
                           signal_series=[mk_signal(s, o["init"]["t"] + 1 + i) for i, s in enumerate(o.get("sigs", []))]
                           if o.get("sigs") is not None else None)


def mk_scenario(spec):
    from commonroad.scenario.scenario import Scenario
    sc = Scenario(0.1)
    sc.add_objects(mk_lanelet_network(spec))
    obs = [mk_obstacle(o) for o in spec.get("obstacles", [])]
    for ob in obs:
        sc.add_objects(ob)
    return sc


def mk_pps(spec):
    from commonroad.common.util import AngleInterval, Interval
    from commonroad.planning.goal import GoalRegion
    from commonroad.planning.planning_problem import PlanningProblem, PlanningProblemSet
    from commonroad.scenario.state import CustomState, InitialState
    pbs = []
    for p in spec.get("pps", []):
        init = mk_state(InitialState, p["init"], p["init"]["t"])
        init.acceleration = 0.0
        init.yaw_rate = 0.0
        init.slip_angle = 0.0
        goals = []
        for g in p["goals"]:
            kw = {"time_step": Interval(g["t"][0], g["t"][1])}
            if g.get("pos") is not None:
                kw["position"] = mk_shape(g["pos"])
            if g.get("orient") is not None:
                kw["orientation"] = AngleInterval(g["orient"][0], g["orient"][1])
            goals.append(CustomState(**kw))
        pbs.append(PlanningProblem(p["id"], init, GoalRegion(goals)))
    return PlanningProblemSet(pbs)


# ------------------------------------------------------------------------------------------------ parameters

def param_classes():
    import commonroad.visualization.draw_params as dp
    return {n: c for n, c in vars(dp).items() if isinstance(c, type) and issubclass(c, dp.BaseParam)}


def mk_value(v):
    """Value spec -> python value. {"g": ClassName, "kw": {field: value spec}} builds a parameter group through its
    constructor; {"v": x} is the plain value x."""
    if isinstance(v, dict) and "g" in v:
        cls = param_classes()[v["g"]]
        return cls(**{k: mk_value(x) for k, x in v.get("kw", {}).items()})
    return v["v"]


def follow(root, path):
    obj = root
    for k in path:
        obj = getattr(obj, k)
    return obj


def mk_params(pspec):
    """{"root": ClassName, "kw": {...}, "sets": [[path, name, value spec], ...]} -> parameter object."""
    root = mk_value({"g": pspec.get("root", "MPDrawParams"), "kw": pspec.get("kw", {})})
    for path, name, v in pspec.get("sets", []):
        setattr(follow(root, path), name, mk_value(v))
    return root
